import Crem.Model.ActionOrder
/-!
Helper lemmas for the portability half of C09: `ManagementActions.Less` is a strict
order that is total on keys; insertion sort returns a sorted permutation; a
sorted permutation is unique when keys are distinct.  Core tactics only.
-/
namespace Crem.ActionOrder

theorem less_iff (a b : Action) :
    less a b = true ↔ a.pu < b.pu ∨ (a.pu = b.pu ∧ a.type < b.type) := by
  unfold less
  by_cases h1 : a.pu < b.pu
  · simp [h1]
  · by_cases h2 : a.pu = b.pu
    · by_cases h3 : a.type < b.type
      · simp [h2, h3]
      · simp [h2, h3]
    · simp [h1, h2]

theorem less_false_iff (a b : Action) :
    less a b = false ↔ ¬ (a.pu < b.pu ∨ (a.pu = b.pu ∧ a.type < b.type)) := by
  rw [← less_iff]; simp

theorem sameKey_iff (a b : Action) : sameKey a b = true ↔ a.pu = b.pu ∧ a.type = b.type := by
  simp [sameKey]

theorem less_irrefl (a : Action) : less a a = false := by
  rw [less_false_iff]
  intro h
  rcases h with h | ⟨_, h⟩
  · omega
  · exact String.lt_irrefl _ h

theorem less_trans {a b c : Action} (h1 : less a b = true) (h2 : less b c = true) : less a c = true := by
  rw [less_iff] at *
  rcases h1 with h1 | ⟨e1, h1⟩ <;> rcases h2 with h2 | ⟨e2, h2⟩
  · left; omega
  · left; omega
  · left; omega
  · right; exact ⟨by omega, String.lt_trans h1 h2⟩

theorem less_asymm {a b : Action} (h : less a b = true) : less b a = false := by
  rcases Bool.eq_false_or_eq_true (less b a) with h' | h'
  · have := less_trans h h'
    rw [less_irrefl] at this
    cases this
  · exact h'

/-- trichotomy on keys: neither is `Less` than the other only if the keys coincide -/
theorem sameKey_of_not_less {a b : Action} (h1 : less a b = false) (h2 : less b a = false) :
    sameKey a b = true := by
  rw [less_false_iff] at h1 h2
  rw [sameKey_iff]
  have hpu : a.pu = b.pu := by
    have : ¬ a.pu < b.pu := fun h => h1 (Or.inl h)
    have : ¬ b.pu < a.pu := fun h => h2 (Or.inl h)
    omega
  refine ⟨hpu, ?_⟩
  have n1 : ¬ a.type < b.type := fun h => h1 (Or.inr ⟨hpu, h⟩)
  have n2 : ¬ b.type < a.type := fun h => h2 (Or.inr ⟨hpu.symm, h⟩)
  exact String.le_antisymm (String.not_lt.mp n2) (String.not_lt.mp n1)

/-- the permutation-invariant form of "keys are distinct" -/
def KeyInj (l : List Action) : Prop := ∀ a ∈ l, ∀ b ∈ l, sameKey a b = true → a = b

theorem sameKey_self (a : Action) : sameKey a a = true := by simp [sameKey]

theorem keyInj_of_keysDistinct (l : List Action) (h : KeysDistinct l) : KeyInj l := by
  induction l with
  | nil => intro a ha; cases ha
  | cons x l ih =>
    obtain ⟨hx, hl⟩ := h
    intro a ha b hb hk
    rcases List.mem_cons.mp ha with rfl | ha' <;> rcases List.mem_cons.mp hb with rfl | hb'
    · rfl
    · rw [hx b hb'] at hk; cases hk
    · have : sameKey b a = true := by
        rw [sameKey_iff] at hk ⊢; exact ⟨hk.1.symm, hk.2.symm⟩
      rw [hx a ha'] at this; cases this
    · exact ih hl a ha' b hb' hk

theorem KeyInj.perm {l1 l2 : List Action} (h : KeyInj l1) (hp : l1.Perm l2) : KeyInj l2 :=
  fun a ha b hb hk => h a (hp.mem_iff.mpr ha) b (hp.mem_iff.mpr hb) hk

theorem KeyInj.tail {a : Action} {l : List Action} (h : KeyInj (a :: l)) : KeyInj l :=
  fun x hx y hy hk => h x (by simp [hx]) y (by simp [hy]) hk

theorem sorted_perm_unique_keyInj (l1 l2 : List Action) (hk : KeyInj l1) (hp : l1.Perm l2)
    (h1 : Sorted l1) (h2 : Sorted l2) : l1 = l2 := by
  induction l1 generalizing l2 with
  | nil =>
    cases l2 with
    | nil => rfl
    | cons b t => have := hp.length_eq; simp at this
  | cons a t ih =>
    cases l2 with
    | nil => have := hp.length_eq; simp at this
    | cons b t2 =>
      have hab : a = b := by
        have ha : a ∈ b :: t2 := hp.mem_iff.mp (by simp)
        have hb : b ∈ a :: t := hp.mem_iff.mpr (by simp)
        rcases List.mem_cons.mp ha with e | ha'
        · exact e
        · rcases List.mem_cons.mp hb with e | hb'
          · exact e.symm
          · have n1 : less a b = false := h2.1 a ha'
            have n2 : less b a = false := h1.1 b hb'
            exact hk a (by simp) b hb (sameKey_of_not_less n1 n2)
      subst hab
      rw [ih t2 hk.tail hp.cons_inv h1.2 h2.2]

/-! ### insertion sort is a sorted permutation -/

theorem insertSorted_perm (a : Action) (l : List Action) : (insertSorted a l).Perm (a :: l) := by
  induction l with
  | nil => exact List.Perm.refl _
  | cons b l ih =>
    unfold insertSorted
    split
    · exact List.Perm.refl _
    · exact (List.Perm.cons b ih).trans (List.Perm.swap a b l)

theorem sortActions_perm' (l : List Action) : (sortActions l).Perm l := by
  induction l with
  | nil => exact List.Perm.refl _
  | cons a l ih => exact (insertSorted_perm a _).trans (List.Perm.cons a ih)

theorem insertSorted_sorted (a : Action) (l : List Action) (h : Sorted l) : Sorted (insertSorted a l) := by
  induction l with
  | nil => exact ⟨fun b hb => (by cases hb), trivial⟩
  | cons b l ih =>
    unfold insertSorted
    rcases Bool.eq_false_or_eq_true (less a b) with hab | hab
    · rw [if_pos hab]
      refine ⟨?_, h⟩
      intro c hc
      rcases List.mem_cons.mp hc with rfl | hc'
      · exact less_asymm hab
      · rcases Bool.eq_false_or_eq_true (less c a) with hca | hca
        · have := less_trans hca hab
          rw [h.1 c hc'] at this
          cases this
        · exact hca
    · rw [if_neg (by simp [hab])]
      refine ⟨?_, ih h.2⟩
      intro c hc
      have := (insertSorted_perm a l).mem_iff.mp hc
      rcases List.mem_cons.mp this with rfl | hc'
      · exact hab
      · exact h.1 c hc'

theorem sortActions_sorted' (l : List Action) : Sorted (sortActions l) := by
  induction l with
  | nil => trivial
  | cons a l ih => exact insertSorted_sorted a _ ih

theorem sorted_pair (a b : Action) (h : less b a = false) : Sorted [a, b] :=
  ⟨fun x hx => by simp at hx; subst hx; exact h, fun x hx => (by cases hx), trivial⟩

theorem keysDistinct_iff' (l : List Action) : keysDistinct l = true ↔ KeysDistinct l := by
  induction l with
  | nil => simp [keysDistinct, KeysDistinct]
  | cons a l ih =>
    simp only [keysDistinct, KeysDistinct, Bool.and_eq_true, List.all_eq_true, ih]
    constructor
    · rintro ⟨h1, h2⟩
      exact ⟨fun b hb => by simpa using h1 b hb, h2⟩
    · rintro ⟨h1, h2⟩
      exact ⟨fun b hb => by simp [h1 b hb], h2⟩

end Crem.ActionOrder
