import Crem.Model.EngineSummary
import Crem.Properties.C20
import Crem.Proofs.BoolArchive
/-!
Helper lemmas for C13 (`Crem/Properties/C13.lean`): the table a well-formed summary loads as
(`expectedTable`), acceptance by the engine's checks, label lookup, the pool's decode.
-/
namespace Crem.EngineSummary
open Crem.Csv

/-! ## cells -/

theorem cast_of_noCastCollision (f : Bytes) (h : noCastCollision f = true) : cast f = .text f := by
  simp only [noCastCollision, Bool.and_eq_true, Bool.not_eq_eq_eq_not, Bool.not_true] at h
  exact (text_cell_reads_back f h.1 h.2).1

theorem cellText_cast_of_noCastCollision (f : Bytes) (h : noCastCollision f = true) :
    cellText (cast f) = f := by
  rw [cast_of_noCastCollision f h]; rfl

theorem readsBack_of_noCastCollision (f : Bytes) (h : noCastCollision f = true) : readsBack f = true := by
  simp [readsBack, cellText_cast_of_noCastCollision f h]

theorem cast_num_of_isNumeric (f : Bytes) (h : isNumeric f = true) : ∃ b, cast f = .num b := by
  obtain ⟨b, _, hb, _⟩ := numeric_cell f h
  exact ⟨b, hb⟩

/-- the cell the loader makes of an encoding field -/
def encCell (v : Variant) (e : Bytes) : Cell := if v.rawActions then .text e else cast e

theorem cellText_encCell (v : Variant) (e : Bytes) (h : v.rawActions = true ∨ readsBack e = true) :
    cellText (encCell v e) = e := by
  unfold encCell
  rcases Bool.eq_false_or_eq_true v.rawActions with hr | hr
  · rw [hr]; rfl
  · rw [hr]
    rcases h with h | h
    · rw [hr] at h; cases h
    · simpa [readsBack] using h

/-- the cells of one summary row after loading -/
def rowCells (v : Variant) (r : Row) : List Cell :=
  cast r.label :: (r.values.map cast ++ [encCell v r.encoding, cast r.note])

/-- the table a well-formed summary loads as -/
def expectedTable (v : Variant) (names : List Bytes) (rows : List Row) : Table :=
  { header := header names, cells := rows.map (rowCells v) }

theorem zipWith_keep_names (names values : List Bytes) (hl : values.length = names.length)
    (hn : ∀ n ∈ names, n ≠ sActions) :
    List.zipWith (fun h f => if h == sActions then Cell.text f else cast f) names values = values.map cast := by
  induction names generalizing values with
  | nil => cases values with
    | nil => rfl
    | cons _ _ => simp at hl
  | cons n ns ih =>
    cases values with
    | nil => simp at hl
    | cons f fs =>
      have h1 : (n == sActions) = false := by simpa using hn n (by simp)
      simp only [List.zipWith_cons_cons, h1, List.map_cons]
      rw [ih fs (by simpa using hl) (fun m hm => hn m (by simp [hm]))]
      rfl

/-- with at least one value cell the fields are simply label, values, encoding, note -/
theorem Row.fields_eq (r : Row) (h : r.values ≠ []) :
    r.fields = r.label :: (r.values ++ [r.encoding, r.note]) := by
  unfold Row.fields
  cases hv : r.values with
  | nil => exact absurd hv h
  | cons x xs => simp

theorem Row.fields_eq_of_length (r : Row) {names : List Bytes} (hne : names ≠ [])
    (hl : r.values.length = names.length) : r.fields = r.label :: (r.values ++ [r.encoding, r.note]) := by
  apply Row.fields_eq
  intro h
  rw [h] at hl
  exact hne (List.eq_nil_of_length_eq_zero hl.symm)

theorem castRecord_fields (v : Variant) (names : List Bytes) (r : Row) (hne : names ≠ [])
    (hl : r.values.length = names.length) (hn : ∀ n ∈ names, n ≠ sActions) :
    castRecord v (header names) r.fields = rowCells v r := by
  rw [Row.fields_eq_of_length r hne hl]
  unfold castRecord rowCells encCell
  rcases Bool.eq_false_or_eq_true v.rawActions with hr | hr
  · rw [hr]
    simp only [if_true, header, List.zipWith_cons_cons]
    have h0 : sSolution ≠ sActions := by decide
    have h2 : sSummary ≠ sActions := by decide
    rw [List.zipWith_append (by rw [hl]), zipWith_keep_names names r.values hl hn]
    simp [h0, h2]
  · rw [hr]
    simp

/-! ## the CSV layer -/

theorem plain_sSolution : plainField sSolution = true := by decide
theorem plain_sActions : plainField sActions = true := by decide
theorem plain_sSummary : plainField sSummary = true := by decide

/-- the hypotheses of `wellFormed`, unpacked -/
structure WFacts (sc : Scenario) (names : List Bytes) (rows : List Row) : Prop where
  nne : names ≠ []
  nlen : names.length = sc.vars.length
  nplain : ∀ n ∈ names, plainField n = true
  nSol : ∀ n ∈ names, n ≠ sSolution
  nAct : ∀ n ∈ names, n ≠ sActions
  nSum : ∀ n ∈ names, n ≠ sSummary
  shape : ∀ r ∈ rows, rowShapeOk sc names r = true
  distinct : allDistinct (rows.map (·.label)) = true
  first : ∃ r0 rest, rows = r0 :: rest ∧ r0.label = sAsIs ∧ asIsValuesOk sc names r0.values = true ∧
    BoolArchive.decode sc.nActions (toChars r0.encoding) = .ok (List.replicate sc.nActions false) ∧
    ∀ r ∈ rest, r.label ≠ sAsIs

theorem wfacts {sc : Scenario} {names : List Bytes} {rows : List Row}
    (h : wellFormed sc names rows = true) : WFacts sc names rows := by
  unfold wellFormed at h
  simp only [Bool.and_eq_true, beq_iff_eq, List.all_eq_true, bne_iff_ne, ne_eq] at h
  obtain ⟨⟨⟨⟨⟨h0, h1⟩, h2⟩, h3⟩, h4⟩, h5⟩ := h
  refine ⟨by intro hnil; simp [hnil] at h0, h1, fun n hn => (h2 n hn).1.1.1, fun n hn => (h2 n hn).1.1.2, fun n hn => (h2 n hn).1.2,
    fun n hn => (h2 n hn).2, h4, h5, ?_⟩
  cases rows with
  | nil => simp at h3
  | cons r0 rest =>
    simp only [Bool.and_eq_true, beq_iff_eq, List.all_eq_true, bne_iff_ne, ne_eq] at h3
    obtain ⟨⟨⟨a, b⟩, c⟩, d⟩ := h3
    refine ⟨r0, rest, rfl, a, b, ?_, d⟩
    cases hd : BoolArchive.decode sc.nActions (toChars r0.encoding) with
    | error e => simp [hd] at c
    | ok flags =>
      simp only [hd, beq_iff_eq] at c
      rw [c]

structure RowFacts (sc : Scenario) (names : List Bytes) (r : Row) : Prop where
  vlen : r.values.length = names.length
  plain : ∀ f ∈ r.fields, plainField f = true
  numeric : ∀ f ∈ r.values, isNumeric f = true
  label : noCastCollision r.label = true
  route : routableLabel r.label = true
  note : noCastCollision r.note = true
  hex : hexPattern r.encoding = true
  canon : canonicalEncoding sc.nActions r.encoding = true

theorem rowFacts {sc : Scenario} {names : List Bytes} {r : Row} (h : rowShapeOk sc names r = true) :
    RowFacts sc names r := by
  unfold rowShapeOk at h
  simp only [Bool.and_eq_true, beq_iff_eq, List.all_eq_true] at h
  obtain ⟨⟨⟨⟨⟨⟨⟨a, b⟩, c⟩, d⟩, d'⟩, e⟩, f⟩, g⟩ := h
  exact ⟨a, b, c, d, d', e, f, g⟩

theorem wellFormedRows_of (sc : Scenario) (names : List Bytes) (rows : List Row)
    (w : WFacts sc names rows) :
    wellFormedRows (names.length + 3) (header names :: rows.map Row.fields) = true := by
  simp only [wellFormedRows, Bool.and_eq_true, decide_eq_true_eq, List.all_eq_true, beq_iff_eq,
    bne_iff_ne, List.mem_cons, List.mem_map]
  refine ⟨by omega, ?_⟩
  intro r hr
  rcases hr with rfl | ⟨row, hrow, rfl⟩
  · refine ⟨⟨by simp [header], ?_⟩, ?_⟩
    · intro f hf
      simp only [header, List.mem_cons, List.mem_append, List.not_mem_nil, or_false] at hf
      rcases hf with rfl | hf | rfl | rfl
      · exact plain_sSolution
      · exact w.nplain f hf
      · exact plain_sActions
      · exact plain_sSummary
    · intro h
      have := congrArg List.length h
      simp [header] at this
  · have rf := rowFacts (w.shape row hrow)
    have hf := Row.fields_eq_of_length row w.nne rf.vlen
    refine ⟨⟨by rw [hf]; simp [rf.vlen], rf.plain⟩, ?_⟩
    intro h
    have := congrArg List.length h
    rw [hf] at this
    simp at this

/-- **the loader's view of a well-formed summary** -/
theorem loadTable_render (v : Variant) (sc : Scenario) (names : List Bytes) (rows : List Row)
    (w : WFacts sc names rows) :
    loadTable v (renderSummary names rows) = .ok (expectedTable v names rows) := by
  unfold loadTable renderSummary
  rw [render_parse _ _ (wellFormedRows_of sc names rows w)]
  simp only [expectedTable, List.map_map]
  congr 2
  apply List.map_congr_left
  intro r hr
  exact castRecord_fields v names r w.nne (rowFacts (w.shape r hr)).vlen w.nAct

/-! ## acceptance -/

theorem headerOk_header (names : List Bytes) : headerOk (header names) = some true := by
  unfold headerOk header
  simp only [List.reverse_cons, List.reverse_append, List.reverse_nil, List.nil_append,
    List.cons_append, List.head?_cons]
  simp

theorem zipWith_cellOk_values (names values : List Bytes) (hl : values.length = names.length)
    (hS : ∀ n ∈ names, n ≠ sSolution) (hA : ∀ n ∈ names, n ≠ sActions) (hM : ∀ n ∈ names, n ≠ sSummary)
    (hnum : ∀ f ∈ values, isNumeric f = true) :
    ∀ b ∈ List.zipWith cellOk names (values.map cast), b = true := by
  induction names generalizing values with
  | nil => cases values <;> simp
  | cons n ns ih =>
    cases values with
    | nil => simp
    | cons f fs =>
      intro b hb
      simp only [List.map_cons, List.zipWith_cons_cons, List.mem_cons] at hb
      rcases hb with rfl | hb
      · obtain ⟨bits, hc⟩ := cast_num_of_isNumeric f (hnum f (by simp))
        have h1 : (n == sSolution) = false := by simpa using hS n (by simp)
        have h2 : (n == sActions) = false := by simpa using hA n (by simp)
        have h3 : (n == sSummary) = false := by simpa using hM n (by simp)
        simp [cellOk, hc, h1, h2, h3]
      · exact ih fs (by simpa using hl) (fun m hm => hS m (by simp [hm])) (fun m hm => hA m (by simp [hm]))
          (fun m hm => hM m (by simp [hm])) (fun g hg => hnum g (by simp [hg])) b hb

theorem rowOk_rowCells (v : Variant) (sc : Scenario) (names : List Bytes) (rows : List Row)
    (w : WFacts sc names rows) (r : Row) (hr : r ∈ rows)
    (hrb : v.rawActions = true ∨ readsBack r.encoding = true) :
    rowOk (header names) (rowCells v r) = true := by
  have rf := rowFacts (w.shape r hr)
  unfold rowOk rowCells header
  simp only [List.tail_cons, List.all_eq_true, id]
  rw [List.zipWith_append (by simp [rf.vlen])]
  intro b hb
  simp only [List.mem_append, List.zipWith_cons_cons, List.zipWith_nil_right, List.mem_cons,
    List.not_mem_nil, or_false] at hb
  rcases hb with hb | rfl | rfl
  · exact zipWith_cellOk_values names r.values rf.vlen w.nSol w.nAct w.nSum rf.numeric b hb
  · have h1 : (sActions == sSolution) = false := by decide
    have h2 : (sActions == sSummary) = false := by decide
    have h3 : (sActions == sActions) = true := by decide
    simp only [cellOk, h1, h2, h3, Bool.or_self, Bool.false_eq_true, if_false, if_true]
    rw [cellText_encCell v r.encoding hrb]
    exact rf.hex
  · simp [cellOk, cast_of_noCastCollision r.note rf.note]

theorem labelOf_rowCells (v : Variant) (r : Row) (h : noCastCollision r.label = true) :
    labelOf (rowCells v r) = some r.label := by
  simp [labelOf, rowCells, cellText_cast_of_noCastCollision r.label h]

theorem verifyCols_ok (sc : Scenario) (names values : List Bytes) (hs : List Bytes) (cs : List Cell)
    (h : asIsValuesOk sc names values = true) :
    verifyCols sc names.length (names ++ hs) (values.map cast ++ cs) = none := by
  induction names generalizing values with
  | nil => rfl
  | cons n ns ih =>
    cases values with
    | nil => simp [asIsValuesOk] at h
    | cons f fs =>
      simp only [asIsValuesOk, Bool.and_eq_true] at h
      obtain ⟨h1, h2⟩ := h
      cases hp : parseFloat f with
      | none => simp [hp] at h1
      | some b =>
        cases hm : sc.asIs n with
        | none => simp [hp, hm] at h1
        | some m =>
          simp only [hp, hm] at h1
          have hc : Csv.cast f = .num b := by simp [Csv.cast, hp]
          simp only [List.length_cons, List.cons_append, List.map_cons, verifyCols, hc, hm, h1, if_true]
          exact ih fs h2

theorem verifyRows_rest (v : Variant) (sc : Scenario) (names : List Bytes) (rest : List Row)
    (hl : ∀ r ∈ rest, noCastCollision r.label = true) (hne : ∀ r ∈ rest, r.label ≠ sAsIs) :
    verifyRows sc (header names) (rest.map (rowCells v)) = none := by
  induction rest with
  | nil => rfl
  | cons r rs ih =>
    have hlab := labelOf_rowCells v r (hl r (by simp))
    unfold labelOf at hlab
    simp only [List.map_cons, verifyRows, hlab]
    have : (some r.label == some sAsIs) = false := by simpa using hne r (by simp)
    rw [this]
    exact ih (fun x hx => hl x (by simp [hx])) (fun x hx => hne x (by simp [hx]))

theorem verifyRows_ok (v : Variant) (sc : Scenario) (names : List Bytes) (rows : List Row)
    (w : WFacts sc names rows) :
    verifyRows sc (header names) (rows.map (rowCells v)) = none := by
  obtain ⟨r0, rest, rfl, hlab, hvals, _, hrest⟩ := w.first
  have rf0 := rowFacts (w.shape r0 (by simp))
  have hl0 := labelOf_rowCells v r0 rf0.label
  unfold labelOf at hl0
  simp only [List.map_cons, verifyRows, hl0, hlab]
  have : (some sAsIs == some sAsIs) = true := by decide
  rw [this]
  simp only [if_true]
  have hv : verifyCols sc sc.vars.length (header names).tail (rowCells v r0).tail = none := by
    rw [← w.nlen]
    exact verifyCols_ok sc names r0.values _ _ hvals
  rw [hv]
  exact verifyRows_rest v sc names rest (fun r hr => (rowFacts (w.shape r (by simp [hr]))).label) hrest

/-- **acceptance**: the engine's checks pass on the table of a well-formed summary -/
theorem loadSummary_render (v : Variant) (sc : Scenario) (names : List Bytes) (rows : List Row)
    (w : WFacts sc names rows) (hrb : encodingsReadBack v rows = true) :
    loadSummary v sc (renderSummary names rows) = .ok (expectedTable v names rows) := by
  unfold loadSummary
  rw [loadTable_render v sc names rows w]
  simp only [expectedTable, headerOk_header]
  have hrows : (rows.map (rowCells v)).tail.all (rowOk (header names)) = true := by
    rw [List.all_eq_true]
    intro cs hcs
    obtain ⟨r, hr, rfl⟩ := List.mem_map.mp (List.mem_of_mem_tail hcs)
    apply rowOk_rowCells v sc names rows w r hr
    simp only [encodingsReadBack, Bool.or_eq_true, List.all_eq_true] at hrb
    rcases hrb with h | h
    · exact Or.inl h
    · exact Or.inr (h r hr)
  simp only [hrows, Bool.and_self, Bool.not_true, Bool.false_eq_true, if_false]
  rw [verifyRows_ok v sc names rows w]

/-! ## lookup -/

theorem mem_of_allDistinct_cons {x : Bytes} {xs : List Bytes} (h : allDistinct (x :: xs) = true) :
    x ∉ xs ∧ allDistinct xs = true := by
  simp only [allDistinct, Bool.and_eq_true, Bool.not_eq_eq_eq_not, Bool.not_true] at h
  exact ⟨by simpa using h.1, h.2⟩

theorem getElem?_rowCells_enc (v : Variant) (r : Row) :
    (rowCells v r)[r.values.length + 1]? = some (encCell v r.encoding) := by
  unfold rowCells
  rw [List.getElem?_cons_succ, List.getElem?_append_right (by simp)]
  simp

theorem getElem?_rowCells_note (v : Variant) (r : Row) :
    (rowCells v r)[r.values.length + 2]? = some (cast r.note) := by
  unfold rowCells
  rw [List.getElem?_cons_succ, List.getElem?_append_right (by simp)]
  simp

theorem findDetail_rows (v : Variant) (t : Table) (names : List Bytes) (sc : Scenario) (rs : List Row)
    (hshape : ∀ r ∈ rs, rowShapeOk sc names r = true)
    (hd : allDistinct (rs.map (·.label)) = true)
    (hei : encodingIndex v t = names.length + 1) (hni : noteIndex v t = names.length + 2)
    (hrb : v.rawActions = true ∨ ∀ r ∈ rs, readsBack r.encoding = true)
    (r : Row) (hr : r ∈ rs) :
    findDetail v t r.label (rs.map (rowCells v)) = .found r.encoding r.note := by
  induction rs with
  | nil => cases hr
  | cons x xs ih =>
    have rfx := rowFacts (hshape x (by simp))
    obtain ⟨hnotin, hdx⟩ := mem_of_allDistinct_cons (by simpa using hd)
    simp only [List.map_cons, findDetail, labelOf_rowCells v x rfx.label]
    rcases List.mem_cons.mp hr with rfl | hr'
    · have : (some r.label == some r.label) = true := by simp
      rw [this]
      simp only [if_true, hei, hni]
      rw [← rfx.vlen, getElem?_rowCells_enc, getElem?_rowCells_note]
      simp only
      rw [cellText_cast_of_noCastCollision r.note rfx.note, cellText_encCell]
      rcases hrb with h | h
      · exact Or.inl h
      · exact Or.inr (h r (by simp))
    · have hne : x.label ≠ r.label := by
        intro he
        apply hnotin
        rw [he]
        exact List.mem_map.mpr ⟨r, hr', rfl⟩
      have : (some x.label == some r.label) = false := by simpa using hne
      rw [this]
      simp only [Bool.false_eq_true, if_false]
      apply ih (fun y hy => hshape y (by simp [hy])) hdx _ hr'
      rcases hrb with h | h
      · exact Or.inl h
      · exact Or.inr (fun y hy => h y (by simp [hy]))

theorem containsLabel_expected (v : Variant) (sc : Scenario) (names : List Bytes) (rows : List Row)
    (w : WFacts sc names rows) (r : Row) (hr : r ∈ rows) :
    containsLabel r.label (expectedTable v names rows) = true := by
  simp only [containsLabel, expectedTable, List.any_eq_true, List.mem_map]
  exact ⟨rowCells v r, ⟨r, hr, rfl⟩, by simp [labelOf_rowCells v r (rowFacts (w.shape r hr)).label]⟩

/-! ## the pool -/

theorem poolActive_of_decode (n : Nat) (e : Bytes) (flags : List Bool)
    (h : BoolArchive.decode n (toChars e) = .ok flags) : poolActive n e = some flags := by
  unfold poolActive
  obtain ⟨a, ha1, ha2, ha3, _⟩ := BoolArchive.compress_spec (List.replicate n false)
  rw [ha1]
  have hs : a.size = n := by simpa using ha3
  obtain ⟨_, _, d3, _⟩ := BoolArchive.decodeC_ok a ha2 (toChars e) flags (by rw [hs]; exact h)
  simp only
  rw [BoolArchive.decompress_spec, d3]

/-! ## ASCII: the canonical text of an action set survives bytes <-> characters -/

theorem hexDigit_lt_128 : ∀ d, d < 16 → (BoolArchive.hexDigit d).toNat < 128 := by decide

theorem toHex_ascii (n : Nat) : ∀ c ∈ BoolArchive.toHex n, c.toNat < 128 := by
  intro c hc
  unfold BoolArchive.toHex at hc
  split at hc
  · simp at hc; subst hc; decide
  · rcases BoolArchive.mem_toHexAux _ _ _ _ hc with h | ⟨d, hd, rfl⟩
    · cases h
    · exact hexDigit_lt_128 d hd

theorem joinWith_ascii (es : List (List Char)) (h : ∀ e ∈ es, ∀ c ∈ e, c.toNat < 128) :
    ∀ c ∈ BoolArchive.joinWith ':' es, c.toNat < 128 := by
  induction es with
  | nil => intro c hc; cases hc
  | cons e es ih =>
    cases es with
    | nil => simpa [BoolArchive.joinWith] using h e (by simp)
    | cons e' es' =>
      intro c hc
      simp only [BoolArchive.joinWith, List.mem_append, List.mem_cons] at hc
      rcases hc with hc | rfl | hc
      · exact h e (by simp) c hc
      · decide
      · exact ih (fun x hx => h x (by simp [hx])) c hc

theorem encode_ascii (bs : List Bool) : ∀ c ∈ BoolArchive.encode bs, c.toNat < 128 := by
  unfold BoolArchive.encode
  apply joinWith_ascii
  intro e he
  obtain ⟨w, _, rfl⟩ := List.mem_map.mp he
  exact toHex_ascii w

theorem toChars_ofChars (s : List Char) (h : ∀ c ∈ s, c.toNat < 128) : toChars (ofChars s) = s := by
  induction s with
  | nil => rfl
  | cons c cs ih =>
    simp only [toChars, ofChars, List.map_cons, List.map_map] at *
    congr 1
    · have hc := h c (by simp)
      show Char.ofNat c.toNat.toUInt8.toNat = c
      have : c.toNat.toUInt8.toNat = c.toNat := by
        rw [Nat.toUInt8_eq, UInt8.toNat_ofNat']
        omega
      rw [this]
      exact Char.ofNat_toNat c
    · exact ih (fun x hx => h x (by simp [hx]))

/-! ## the single-request cores of the C13 theorems (stated in `Properties/C13.lean`) -/

theorem roundtrip_core (v : Variant) (sc : Scenario) (names : List Bytes) (rows : List Row)
    (h : wellFormed sc names rows = true) (hl : layoutOk v names = true)
    (hc : encodingsReadBack v rows = true) :
    ∃ t, loadSummary v sc (renderSummary names rows) = .ok t ∧
      lookup v sAsIs t = .asIs ∧
      ∀ row ∈ rows.tail, lookup v row.label t = .found row.encoding row.note := by
  have w := wfacts h
  refine ⟨expectedTable v names rows, loadSummary_render v sc names rows w hc, ?_, ?_⟩
  · obtain ⟨r0, rest, hrows, hlab, _⟩ := w.first
    have hcont := containsLabel_expected v sc names rows w r0 (by rw [hrows]; simp)
    rw [hlab] at hcont
    have hroute : routableLabel sAsIs = true := by decide
    simp [lookup, hcont, hroute]
  · intro row hrow
    have hmem : row ∈ rows := List.mem_of_mem_tail hrow
    have hcont := containsLabel_expected v sc names rows w row hmem
    obtain ⟨r0, rest, hrows, hlab0, _, _, hrest⟩ := w.first
    subst hrows
    have hne : (row.label == sAsIs) = false := by simpa using hrest row (by simpa using hrow)
    have hcont' : containsLabel row.label
        { header := header names, cells := rowCells v r0 :: List.map (rowCells v) rest } = true := by
      simpa [expectedTable] using hcont
    have hroute := (rowFacts (w.shape row hmem)).route
    simp only [lookup, expectedTable, List.map_cons, List.tail_cons, hcont', hroute, Bool.not_true,
      Bool.false_eq_true, if_false, hne]
    simp only [List.tail_cons] at hrow
    -- with `getSolutionDetail` repaired the search covers row 0 too: the As-Is row is skipped (its label differs)
    have hskip : findDetail v { header := header names, cells := rowCells v r0 :: List.map (rowCells v) rest } row.label
        (if v.guards = true then rowCells v r0 :: List.map (rowCells v) rest else List.map (rowCells v) rest)
        = findDetail v { header := header names, cells := rowCells v r0 :: List.map (rowCells v) rest } row.label
            (List.map (rowCells v) rest) := by
      split
      · have rf0 := rowFacts (w.shape r0 (by simp))
        simp only [findDetail, labelOf_rowCells v r0 rf0.label]
        have hdiff : (some r0.label == some row.label) = false := by
          rw [hlab0]
          have : row.label ≠ sAsIs := hrest row hrow
          simp [beq_eq_false_iff_ne, Ne.symm this]
        rw [hdiff]
        simp
      · rfl
    rw [hskip]
    apply findDetail_rows v _ names sc rest (fun r hr => w.shape r (by simp [hr]))
      (mem_of_allDistinct_cons (by simpa using w.distinct)).2 _ _ _ row hrow
    · simp only [encodingIndex, header, List.length_cons, List.length_append, List.length_nil]
      simp only [layoutOk, Bool.or_eq_true, beq_iff_eq] at hl
      rcases Bool.eq_false_or_eq_true v.colsFromEnd with hv | hv
      · simp [hv]
      · rcases hl with hl | hl
        · rw [hv] at hl; cases hl
        · simp [hv, hl]
    · simp only [noteIndex, header, List.length_cons, List.length_append, List.length_nil]
      simp only [layoutOk, Bool.or_eq_true, beq_iff_eq] at hl
      rcases Bool.eq_false_or_eq_true v.colsFromEnd with hv | hv
      · simp [hv]
      · rcases hl with hl | hl
        · rw [hv] at hl; cases hl
        · simp [hv, hl]
    · simp only [encodingsReadBack, Bool.or_eq_true, List.all_eq_true] at hc
      rcases hc with hc | hc
      · exact Or.inl hc
      · exact Or.inr (fun r hr => hc r (by simp [hr]))


/-- every row of a well-formed summary denotes a set of the scenario's actions, canonically -/
theorem encoding_denotes_core (sc : Scenario) (names : List Bytes) (rows : List Row)
    (h : wellFormed sc names rows = true) (row : Row) (hrow : row ∈ rows) :
    ∃ flags, BoolArchive.decode sc.nActions (toChars row.encoding) = .ok flags ∧
      ofChars (BoolArchive.encode flags) = row.encoding := by
  have hc := (rowFacts ((wfacts h).shape row hrow)).canon
  unfold canonicalEncoding at hc
  cases hd : BoolArchive.decode sc.nActions (toChars row.encoding) with
  | error e => simp [hd] at hc
  | ok flags => exact ⟨flags, rfl, by simpa [hd] using hc⟩


theorem pareto_core (v : Variant) (sc : Scenario) (names : List Bytes) (rows : List Row)
    (h : wellFormed sc names rows = true) (hc : encodingsReadBack v rows = true) :
    ∃ t, loadSummary v sc (renderSummary names rows) = .ok t ∧
      ∀ row ∈ rows.tail, paretoMember sc t row.encoding = some true := by
  have w := wfacts h
  refine ⟨expectedTable v names rows, loadSummary_render v sc names rows w hc, ?_⟩
  intro row hrow
  have hmem : row ∈ rows := List.mem_of_mem_tail hrow
  obtain ⟨flags, hd, he⟩ := encoding_denotes_core sc names rows h row hmem
  have rf := rowFacts (w.shape row hmem)
  simp only [paretoMember, hd, he, Option.some.injEq]
  simp only [encodingPresent, expectedTable, List.any_eq_true]
  refine ⟨rowCells v row, ?_, ?_⟩
  · rw [← List.map_tail]
    exact List.mem_map.mpr ⟨row, hrow, rfl⟩
  · have hidx : (header names).length - 2 = row.values.length + 1 := by
      simp [header, rf.vlen]
    rw [hidx, getElem?_rowCells_enc]
    simp only [Option.map_some, beq_iff_eq, Option.some.injEq]
    apply cellText_encCell
    simp only [encodingsReadBack, Bool.or_eq_true, List.all_eq_true] at hc
    rcases hc with hc | hc
    · exact Or.inl hc
    · exact Or.inr (hc row hmem)


/-! ## a scenario without actions has no well-formed summary -/

theorem decode_zero (t : List Char) : BoolArchive.decode 0 t = .error .count := by
  unfold BoolArchive.decode
  have h := BoolArchive.splitOn_ne_nil ':' t
  have : (BoolArchive.splitOn ':' t).length ≠ BoolArchive.nWords 0 := by
    simp [BoolArchive.nWords]; exact h
  simp [this]

theorem wellFormed_zero_actions (sc : Scenario) (names : List Bytes) (rows : List Row)
    (h0 : sc.nActions = 0) : wellFormed sc names rows = false := by
  cases rows with
  | nil => simp [wellFormed]
  | cons r0 rest => simp [wellFormed, h0, decode_zero]

/-! ## histories: what a sequence of requests leaves in the engine -/

theorem label_of_contains (v : Variant) (sc : Scenario) (names : List Bytes) (rows : List Row)
    (w : WFacts sc names rows) (label : Bytes)
    (h : containsLabel label (expectedTable v names rows) = true) : ∃ row ∈ rows, row.label = label := by
  simp only [containsLabel, expectedTable, List.any_eq_true, List.mem_map] at h
  obtain ⟨cells, ⟨row, hrow, rfl⟩, hl⟩ := h
  rw [labelOf_rowCells v row (rowFacts (w.shape row hrow)).label] at hl
  exact ⟨row, hrow, by simpa using hl⟩

/-- what `lookup` answers on the table of a well-formed summary, for EVERY label -/
theorem lookup_cases (v : Variant) (sc : Scenario) (names : List Bytes) (rows : List Row)
    (h : wellFormed sc names rows = true) (hl : layoutOk v names = true)
    (hc : encodingsReadBack v rows = true) (label : Bytes) :
    lookup v label (expectedTable v names rows) = .notFound ∨
    (label = sAsIs ∧ lookup v label (expectedTable v names rows) = .asIs) ∨
    ∃ row ∈ rows.tail, row.label = label ∧
      lookup v label (expectedTable v names rows) = .found row.encoding row.note := by
  have w := wfacts h
  obtain ⟨t, ht, hasis, hrest⟩ := roundtrip_core v sc names rows h hl hc
  rw [loadSummary_render v sc names rows w hc] at ht
  cases ht
  rcases Bool.eq_false_or_eq_true (routableLabel label) with hr | hr
  · rcases Bool.eq_false_or_eq_true (containsLabel label (expectedTable v names rows)) with hcont | hcont
    · obtain ⟨row, hrow, rfl⟩ := label_of_contains v sc names rows w label hcont
      obtain ⟨r0, rest, hrows, hlab0, _, _, hne⟩ := w.first
      by_cases he : row.label = sAsIs
      · exact Or.inr (Or.inl ⟨he, by rw [he]; exact hasis⟩)
      · refine Or.inr (Or.inr ⟨row, ?_, rfl, ?_⟩)
        · subst hrows
          rcases List.mem_cons.mp hrow with rfl | hr'
          · exact absurd hlab0 he
          · simpa using hr'
        · apply hrest
          subst hrows
          rcases List.mem_cons.mp hrow with rfl | hr'
          · exact absurd hlab0 he
          · simpa using hr'
    · left; simp [lookup, hr, hcont]
  · left; simp [lookup, hr]

theorem eq_of_label_eq {rows : List Row} (hd : allDistinct (rows.map (·.label)) = true) {a b : Row}
    (ha : a ∈ rows) (hb : b ∈ rows) (h : a.label = b.label) : a = b := by
  induction rows with
  | nil => cases ha
  | cons x xs ih =>
    obtain ⟨hnot, hrest⟩ := mem_of_allDistinct_cons (by simpa using hd)
    rcases List.mem_cons.mp ha with rfl | ha' <;> rcases List.mem_cons.mp hb with rfl | hb'
    · rfl
    · exact absurd (List.mem_map.mpr ⟨b, hb', h.symm⟩) hnot
    · exact absurd (List.mem_map.mpr ⟨a, ha', h⟩) hnot
    · exact ih hrest ha' hb'

/-- the engine holds the summary `(names, rows)`: it is configured with `sc`, its table is the one the summary
loads as, and whatever its pool holds is the row of that summary the label names -/
structure Holds (v : Variant) (sc : Scenario) (names : List Bytes) (rows : List Row) (e : Engine) : Prop where
  hsc : e.sc = sc
  htable : e.table = some (expectedTable v names rows)
  hpool : ∀ p ∈ e.pool, ∃ row ∈ rows.tail, p.1 = row.label ∧ p.2 = cachedOf sc row.encoding row.note

/-- an accepted POST of a well-formed summary establishes `Holds` from ANY engine state — if the pool is reset -/
theorem holds_after_post (v : Variant) (hp : v.poolReset = true) (e : Engine) (names : List Bytes) (rows : List Row)
    (h : wellFormed e.sc names rows = true) (hc : encodingsReadBack v rows = true) :
    (doPost v e (renderSummary names rows)).2 = .ok ∧
    Holds v e.sc names rows (doPost v e (renderSummary names rows)).1 := by
  unfold doPost
  rw [loadSummary_render v e.sc names rows (wfacts h) hc]
  refine ⟨rfl, rfl, rfl, ?_⟩
  simp [hp]

theorem pooledOr_holds {v : Variant} {sc : Scenario} {names : List Bytes} {rows : List Row} {e : Engine}
    (H : Holds v sc names rows e) (label : Bytes) (miss : Engine × Resp) (hm : Holds v sc names rows miss.1) :
    Holds v sc names rows (pooledOr e label miss).1 := by
  unfold pooledOr
  split
  · exact H
  · exact hm

/-- every request that keeps the summary and the scenario keeps `Holds` -/
theorem holds_step (v : Variant) (sc : Scenario) (names : List Bytes) (rows : List Row)
    (h : wellFormed sc names rows = true) (hl : layoutOk v names = true) (hc : encodingsReadBack v rows = true)
    (e : Engine) (H : Holds v sc names rows e) (r : Req) (hk : keeps v e r = true) :
    Holds v sc names rows (step v e r).1 := by
  cases r with
  | scenario sc' => simp [keeps] at hk
  | post text =>
    simp only [keeps] at hk
    simp only [step, doPost]
    split
    · rename_i t ht; rw [ht] at hk; simp at hk
    · exact H
  | patch enc =>
    simp only [step, doPatch]
    split
    · split <;> exact H
    · split
      · exact H
      · exact ⟨H.hsc, H.htable, H.hpool⟩
  | get label =>
    simp only [step, doGet, H.htable]
    rcases lookup_cases v sc names rows h hl hc label with hn | ⟨_, ha⟩ | ⟨row, hrow, hlab, hf⟩
    · simp only [hn]; exact H
    · simp only [ha]; exact H
    · simp only [hf]
      apply pooledOr_holds H
      split
      · exact H
      · refine ⟨H.hsc, rfl, ?_⟩
        intro p hp
        rcases List.mem_cons.mp hp with rfl | hp'
        · exact ⟨row, hrow, hlab.symm, by simp only [H.hsc]⟩
        · exact H.hpool p hp'

theorem holds_exec (v : Variant) (sc : Scenario) (names : List Bytes) (rows : List Row)
    (h : wellFormed sc names rows = true) (hl : layoutOk v names = true) (hc : encodingsReadBack v rows = true)
    (reqs : List Req) (e : Engine) (H : Holds v sc names rows e) (hq : Quiet v e reqs) :
    Holds v sc names rows (exec v e reqs) := by
  induction reqs generalizing e with
  | nil => exact H
  | cons r rs ih =>
    obtain ⟨hk, hq'⟩ := hq
    exact ih (step v e r).1 (holds_step v sc names rows h hl hc e H r hk) hq'

/-- GET of a row's label on an engine that holds the summary: the row, whether pooled already or not -/
theorem get_of_holds (v : Variant) (sc : Scenario) (names : List Bytes) (rows : List Row)
    (h : wellFormed sc names rows = true) (hl : layoutOk v names = true) (hc : encodingsReadBack v rows = true)
    (e : Engine) (H : Holds v sc names rows e) (row : Row) (hrow : row ∈ rows.tail) (flags : List Bool)
    (hf : BoolArchive.decode sc.nActions (toChars row.encoding) = .ok flags) :
    (doGet v e row.label).2 = .found ⟨row.encoding, some row.note, true, some flags⟩ := by
  have w := wfacts h
  have hpa : poolActive sc.nActions row.encoding = some flags := poolActive_of_decode _ _ _ hf
  have hcached : cachedOf sc row.encoding row.note = ⟨row.encoding, some row.note, true, some flags⟩ := by
    simp [cachedOf, hpa]
  simp only [doGet, H.htable]
  rcases lookup_cases v sc names rows h hl hc row.label with hn | ⟨ha, _⟩ | ⟨row', hrow', hlab, hfound⟩
  · -- impossible: the label is in the table
    obtain ⟨t, ht, _, hrest⟩ := roundtrip_core v sc names rows h hl hc
    rw [loadSummary_render v sc names rows w hc] at ht
    cases ht
    rw [hrest row hrow] at hn
    cases hn
  · obtain ⟨r0, rest, hrows, _, _, _, hne⟩ := w.first
    subst hrows
    exact absurd ha (hne row (by simpa using hrow))
  · have : row' = row :=
      eq_of_label_eq w.distinct (List.mem_of_mem_tail hrow') (List.mem_of_mem_tail hrow) hlab
    subst this
    simp only [hfound]
    unfold pooledOr
    split
    · rename_i lab c hfind
      have hmem := List.mem_of_find?_eq_some hfind
      have hlabp : lab = row'.label := by
        have := List.find?_some hfind
        simpa using this
      obtain ⟨row'', hrow'', hl'', hc''⟩ := H.hpool _ hmem
      simp only at hl'' hc''
      have : row'' = row' :=
        eq_of_label_eq w.distinct (List.mem_of_mem_tail hrow'') (List.mem_of_mem_tail hrow) (by rw [← hl'', hlabp])
      subst this
      rw [hc'', hcached]
    · simp only [H.hsc, hpa, hcached]

theorem getAsIs_of_holds (v : Variant) (sc : Scenario) (names : List Bytes) (rows : List Row)
    (h : wellFormed sc names rows = true) (hl : layoutOk v names = true) (hc : encodingsReadBack v rows = true)
    (e : Engine) (H : Holds v sc names rows e) :
    (doGet v e sAsIs).2 = .found (asIsCached sc) := by
  obtain ⟨t, ht, hasis, _⟩ := roundtrip_core v sc names rows h hl hc
  rw [loadSummary_render v sc names rows (wfacts h) hc] at ht
  cases ht
  simp only [doGet, H.htable, hasis, H.hsc]

theorem patch_of_holds (v : Variant) (sc : Scenario) (names : List Bytes) (rows : List Row)
    (h : wellFormed sc names rows = true) (hc : encodingsReadBack v rows = true)
    (e : Engine) (H : Holds v sc names rows e) (row : Row) (hrow : row ∈ rows.tail) :
    (doPatch e row.encoding).2 = .member (some true) := by
  obtain ⟨t, ht, hm⟩ := pareto_core v sc names rows h hc
  rw [loadSummary_render v sc names rows (wfacts h) hc] at ht
  cases ht
  simp only [doPatch, H.htable, H.hsc, hm row hrow]

end Crem.EngineSummary
