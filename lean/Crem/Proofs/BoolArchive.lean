import Crem.Model.BoolArchive
/-!
Helper lemmas for C09 (`Crem/Properties/C09.lean`): hex text, split/join,
bit arithmetic of `+mask`/`-mask`, the well-formedness invariant `WF` of the
concrete archive and the simulation between the concrete model and the spec.
Core tactics only (`omega`, `simp`, `decide`, `bv_omega`-free BitVec lemmas).
-/
namespace Crem.BoolArchive

/-! ## hex -/

theorem hexVal_hexDigit : ∀ d, d < 16 → hexVal (hexDigit d) = some d := by decide

theorem hexDigit_ne_colon : ∀ d, d < 16 → hexDigit d ≠ ':' := by decide

theorem toHexAux_ne_nil (fuel n : Nat) (acc : List Char) (h : acc ≠ []) : toHexAux fuel n acc ≠ [] := by
  induction fuel generalizing n acc with
  | zero => simpa [toHexAux] using h
  | succ f ih =>
    unfold toHexAux
    split
    · exact h
    · exact ih _ _ (by simp)

theorem toHex_ne_nil (n : Nat) : toHex n ≠ [] := by
  unfold toHex
  split
  · simp
  · rename_i h
    show toHexAux (15 + 1) n [] ≠ []
    unfold toHexAux
    rw [if_neg h]
    exact toHexAux_ne_nil _ _ _ (by simp)

theorem parseHexLoop_toHexAux (fuel n : Nat) (acc : List Char) (m : Nat)
    (hf : n < 16 ^ fuel) (hn : n < 2 ^ 64) (hm : m = 0 ∨ n = 0) :
    parseHexLoop (toHexAux fuel n acc) m = parseHexLoop acc (if n = 0 then m else n) := by
  induction fuel generalizing n acc with
  | zero =>
    have : n = 0 := by simpa using hf
    subst this; simp [toHexAux]
  | succ f ih =>
    unfold toHexAux
    by_cases h0 : n = 0
    · simp [h0]
    · rw [if_neg h0, if_neg h0]
      have hm0 : m = 0 := by omega
      subst hm0
      have hlt : n / 16 < 16 ^ f := by
        rw [Nat.pow_succ] at hf; omega
      rw [ih (n / 16) _ hlt (by omega) (Or.inl rfl)]
      have hd : n % 16 < 16 := Nat.mod_lt _ (by omega)
      by_cases hq : n / 16 = 0
      · rw [if_pos hq]
        simp only [parseHexLoop, hexVal_hexDigit _ hd]
        have : n % 16 = n := by omega
        simp [this]
      · rw [if_neg hq]
        simp only [parseHexLoop, hexVal_hexDigit _ hd]
        have h60 : ¬ n / 16 ≥ 2 ^ 60 := by omega
        rw [if_neg h60]
        congr 1
        omega

theorem parseHex_toHex' (n : Nat) (h : n < 2 ^ 64) : parseHex (toHex n) = .ok n := by
  unfold parseHex
  rw [if_neg (toHex_ne_nil n)]
  unfold toHex
  by_cases h0 : n = 0
  · subst h0; rfl
  · rw [if_neg h0, parseHexLoop_toHexAux 16 n [] 0 (by omega) h (Or.inl rfl), if_neg h0]
    rfl

theorem mem_toHexAux (fuel n : Nat) (acc : List Char) (c : Char) (h : c ∈ toHexAux fuel n acc) :
    c ∈ acc ∨ ∃ d, d < 16 ∧ c = hexDigit d := by
  induction fuel generalizing n acc with
  | zero => left; simpa [toHexAux] using h
  | succ f ih =>
    unfold toHexAux at h
    split at h
    · exact Or.inl h
    · rcases ih _ _ h with h' | h'
      · rcases List.mem_cons.mp h' with h'' | h''
        · exact Or.inr ⟨n % 16, Nat.mod_lt _ (by omega), h''⟩
        · exact Or.inl h''
      · exact Or.inr h'

theorem colon_not_mem_toHex (n : Nat) : ':' ∉ toHex n := by
  intro h
  unfold toHex at h
  split at h
  · simp at h
  · rcases mem_toHexAux _ _ _ _ h with h' | ⟨d, hd, h'⟩
    · simp at h'
    · exact hexDigit_ne_colon d hd h'.symm

/-! ## split / join -/

theorem splitOn_ne_nil (d : Char) (s : List Char) : splitOn d s ≠ [] := by
  induction s with
  | nil => simp [splitOn]
  | cons c cs ih =>
    unfold splitOn
    split
    · simp
    · split <;> simp

theorem splitOn_noSep (d : Char) (e : List Char) (he : d ∉ e) : splitOn d e = [e] := by
  induction e with
  | nil => rfl
  | cons c cs ih =>
    have hc : c ≠ d := fun h => he (by simp [h])
    have hcs : d ∉ cs := fun h => he (by simp [h])
    unfold splitOn
    rw [if_neg hc, ih hcs]

theorem splitOn_append_sep (d : Char) (e rest : List Char) (he : d ∉ e) :
    splitOn d (e ++ d :: rest) = e :: splitOn d rest := by
  induction e with
  | nil => simp [splitOn]
  | cons c cs ih =>
    have hc : c ≠ d := fun h => he (by simp [h])
    have hcs : d ∉ cs := fun h => he (by simp [h])
    show splitOn d (c :: (cs ++ d :: rest)) = _
    conv => lhs; unfold splitOn
    rw [if_neg hc, ih hcs]

theorem splitOn_joinWith (d : Char) (es : List (List Char)) (hne : es ≠ [])
    (h : ∀ e ∈ es, d ∉ e) : splitOn d (joinWith d es) = es := by
  induction es with
  | nil => exact absurd rfl hne
  | cons e es ih =>
    cases es with
    | nil => simpa [joinWith] using splitOn_noSep d e (h e (by simp))
    | cons e' es' =>
      show splitOn d (e ++ d :: joinWith d (e' :: es')) = _
      rw [splitOn_append_sep d e _ (h e (by simp)), ih (by simp) (fun x hx => h x (by simp [hx]))]

/-! ## little-endian word value -/

theorem wordVal_lt (l : List Bool) : wordVal l < 2 ^ l.length := by
  induction l with
  | nil => simp [wordVal]
  | cons b bs ih =>
    simp only [wordVal, List.length_cons, Nat.pow_succ]
    cases b <;> simp <;> omega

theorem testBit_wordVal (l : List Bool) (j : Nat) : (wordVal l).testBit j = l.getD j false := by
  induction l generalizing j with
  | nil => simp [wordVal]
  | cons b bs ih =>
    cases j with
    | zero =>
      simp only [wordVal, Nat.testBit_zero, List.getD_cons_zero]
      cases b <;> simp <;> omega
    | succ j =>
      rw [Nat.testBit_succ]
      simp only [wordVal, List.getD_cons_succ]
      rw [← ih j]
      congr 1
      cases b <;> simp <;> omega

theorem wordVal_testBits (x m : Nat) :
    wordVal ((List.range m).map (fun j => x.testBit j)) = x % 2 ^ m := by
  induction m generalizing x with
  | zero => simp [wordVal, Nat.mod_one]
  | succ m ih =>
    rw [List.range_succ_eq_map, List.map_cons, List.map_map]
    have : ((fun j => x.testBit j) ∘ Nat.succ) = (fun j => (x / 2).testBit j) := by
      funext j; simp [Nat.testBit_succ]
    rw [this]
    simp only [wordVal, ih (x / 2), Nat.testBit_zero]
    have h2 : x % 2 ^ (m + 1) = x % 2 + 2 * (x / 2 % 2 ^ m) := by
      rw [Nat.pow_succ, Nat.mul_comm, Nat.mod_mul]
    rw [h2]
    congr 1
    rcases Nat.mod_two_eq_zero_or_one x with h | h <;> simp [h]

/-! ## abstract round trip -/

theorem length_specWords (bs : List Bool) : (specWords bs).length = nWords bs.length := by
  simp [specWords]

theorem parseAll_map_toHex (ws : List Nat) (h : ∀ w ∈ ws, w < 2 ^ 64) :
    parseAll (ws.map toHex) = .ok ws := by
  induction ws with
  | nil => rfl
  | cons w ws ih =>
    simp only [List.map_cons, parseAll, parseHex_toHex' w (h w (by simp)),
      ih (fun x hx => h x (by simp [hx]))]

theorem chunk_length_le (bs : List Bool) (k : Nat) : (chunk bs k).length ≤ 64 := by
  simp [chunk]; omega

theorem specWords_lt (bs : List Bool) : ∀ w ∈ specWords bs, w < 2 ^ 64 := by
  intro w hw
  simp only [specWords, List.mem_map, List.mem_range] at hw
  obtain ⟨k, _, rfl⟩ := hw
  exact Nat.lt_of_lt_of_le (wordVal_lt _) (Nat.pow_le_pow_right (by omega) (chunk_length_le bs k))

theorem chunk_getD (bs : List Bool) (i : Nat) :
    (chunk bs (i / 64)).getD (i % 64) false = bs.getD i false := by
  have hlt : i % 64 < 64 := Nat.mod_lt _ (by omega)
  simp only [chunk, List.getD_eq_getElem?_getD, List.getElem?_take, if_pos hlt, List.getElem?_drop]
  congr 2
  omega

theorem specWords_getD (bs : List Bool) (k : Nat) (hk : k < nWords bs.length) :
    (specWords bs).getD k 0 = wordVal (chunk bs k) := by
  simp [specWords, List.getD_eq_getElem?_getD, List.getElem?_map, List.getElem?_range hk]

theorem div64_lt_nWords {i n : Nat} (h : i < n) : i / 64 < nWords n := by
  unfold nWords; omega

theorem decode_encode' (n : Nat) (bs : List Bool) (hn : 1 ≤ n) (hl : bs.length = n) :
    decode n (encode bs) = .ok bs := by
  subst hl
  have hne : (specWords bs).map toHex ≠ [] := by
    intro h
    have := congrArg List.length h
    simp [length_specWords, nWords] at this
    omega
  have hsplit : splitOn ':' (encode bs) = (specWords bs).map toHex := by
    apply splitOn_joinWith _ _ hne
    intro e he
    simp only [List.mem_map] at he
    obtain ⟨w, _, rfl⟩ := he
    exact colon_not_mem_toHex w
  unfold decode
  simp only [hsplit, List.length_map, length_specWords, ne_eq, not_true_eq_false, if_false,
    parseAll_map_toHex _ (specWords_lt bs)]
  congr 1
  apply List.ext_getElem
  · simp
  · intro i h1 h2
    simp only [List.getElem_map, List.getElem_range]
    have hi : i < bs.length := h2
    rw [specWords_getD bs (i / 64) (div64_lt_nWords hi), testBit_wordVal, chunk_getD]
    simp [List.getD_eq_getElem?_getD, List.getElem?_eq_getElem hi]

/-! ## bit arithmetic of `+ mask` / `- mask` -/

theorem mask_getLsbD (j k : Nat) (hj : j < 64) : (mask j).getLsbD k = decide (j = k) := by
  simp [mask, BitVec.getLsbD_twoPow, hj]

theorem and_mask_eq (w : BitVec 64) (j : Nat) :
    w &&& mask j = if w.getLsbD j = true then mask j else 0#64 := by
  simp [mask, BitVec.and_twoPow]

theorem detail_value (w : BitVec 64) (j : Nat) (hj : j < 64) :
    decide (0#64 < (w &&& mask j)) = w.getLsbD j := by
  rw [and_mask_eq]
  rcases Bool.eq_false_or_eq_true (w.getLsbD j) with h | h
  · simp only [h, if_true]
    have : 0#64 < mask j := by
      rw [BitVec.lt_def]
      simp only [mask, BitVec.toNat_twoPow, BitVec.toNat_ofNat]
      have : 2 ^ j < 2 ^ 64 := Nat.pow_lt_pow_right (by omega) hj
      rw [Nat.mod_eq_of_lt this]
      exact Nat.pow_pos (by omega)
    simp [this]
  · simp [h]

theorem add_mask_getLsbD (w : BitVec 64) (j k : Nat) (hj : j < 64) (h : w.getLsbD j = false) :
    (w + mask j).getLsbD k = if k = j then true else w.getLsbD k := by
  have h0 : w &&& mask j = 0#64 := by rw [and_mask_eq]; simp [h]
  rw [BitVec.add_eq_or_of_and_eq_zero w (mask j) h0, BitVec.getLsbD_or, mask_getLsbD j k hj]
  by_cases hk : k = j
  · subst hk; simp
  · have : ¬ j = k := fun e => hk e.symm
    simp [hk, this]

theorem sub_mask_eq (w : BitVec 64) (j : Nat) (h : w.getLsbD j = true) :
    w - mask j = w &&& ~~~(mask j) := by
  have h0 : ((w &&& ~~~(mask j)) &&& mask j) = 0#64 := by
    ext i hi; simp
  have h1 : (w &&& ~~~(mask j)) + mask j = w := by
    rw [BitVec.add_eq_or_of_and_eq_zero _ _ h0]
    ext i hi
    simp only [BitVec.getElem_or, BitVec.getElem_and, BitVec.getElem_not]
    by_cases hm : (mask j)[i] = true
    · have hw : w[i] = true := by
        have hand := and_mask_eq w j
        rw [if_pos h] at hand
        have := congrArg (fun x => x[i]) hand
        simp only [BitVec.getElem_and] at this
        rw [hm] at this
        simpa using this
      simp [hm, hw]
    · have : (mask j)[i] = false := by simpa using hm
      simp [this]
  exact (BitVec.eq_sub_iff_add_eq.mpr h1).symm

theorem sub_mask_getLsbD (w : BitVec 64) (j k : Nat) (hj : j < 64) (h : w.getLsbD j = true) :
    (w - mask j).getLsbD k = if k = j then false else w.getLsbD k := by
  rw [sub_mask_eq w j h, BitVec.getLsbD_and, BitVec.getLsbD_not, mask_getLsbD j k hj]
  by_cases hk : k = j
  · subst hk; simp
  · have : ¬ j = k := fun e => hk e.symm
    simp only [hk, this, decide_false, Bool.not_false, Bool.and_true, if_false]
    by_cases hk64 : k < 64
    · simp [hk64]
    · simp [hk64, BitVec.getLsbD_of_ge w k (by omega)]

/-! ## the concrete archive: bits, well-formedness -/

/-- entry `i` as stored in a word list -/
def bitAt (ws : List (BitVec 64)) (i : Nat) : Bool := (ws.getD (i / 64) 0#64).getLsbD (i % 64)

theorem absBits_eq (a : Archive) : absBits a = (List.range a.size).map (bitAt a.words) := rfl

theorem bitAt_of_ge (ws : List (BitVec 64)) (i : Nat) (h : ws.length ≤ i / 64) : bitAt ws i = false := by
  simp [bitAt, List.getD_eq_getElem?_getD, List.getElem?_eq_none h]

theorem bitAt_set (ws : List (BitVec 64)) (k : Nat) (w' : BitVec 64) (i : Nat) (hk : k < ws.length) :
    bitAt (ws.set k w') i = if i / 64 = k then w'.getLsbD (i % 64) else bitAt ws i := by
  unfold bitAt
  simp only [List.getD_eq_getElem?_getD, List.getElem?_set]
  by_cases h : i / 64 = k
  · subst h; simp [hk]
  · have : ¬ k = i / 64 := fun e => h e.symm
    simp [h, this]

theorem deriveDetail_value (a : Archive) (idx : Nat) : (deriveDetail a idx).value = bitAt a.words idx := by
  simp only [deriveDetail, bitAt]
  exact detail_value _ _ (Nat.mod_lt _ (by omega))

@[simp] theorem setValueUnchecked_size (a : Archive) (idx : Nat) (v : Bool) :
    (setValueUnchecked a idx v).size = a.size := by
  unfold setValueUnchecked; simp only []; split
  · rfl
  · split <;> rfl

@[simp] theorem setValueUnchecked_cache (a : Archive) (idx : Nat) (v : Bool) :
    (setValueUnchecked a idx v).cache = a.cache := by
  unfold setValueUnchecked; simp only []; split
  · rfl
  · split <;> rfl

@[simp] theorem setValueUnchecked_length (a : Archive) (idx : Nat) (v : Bool) :
    (setValueUnchecked a idx v).words.length = a.words.length := by
  unfold setValueUnchecked; simp only []; split
  · rfl
  · split <;> simp

theorem bitAt_setValueUnchecked (a : Archive) (idx : Nat) (v : Bool) (i : Nat)
    (hidx : idx / 64 < a.words.length) :
    bitAt (setValueUnchecked a idx v).words i = if i = idx then v else bitAt a.words i := by
  have hj : idx % 64 < 64 := Nat.mod_lt _ (by omega)
  have hiff : i = idx ↔ (i / 64 = idx / 64 ∧ i % 64 = idx % 64) := by omega
  unfold setValueUnchecked
  simp only [deriveDetail_value]
  by_cases hv : bitAt a.words idx = v
  · rw [if_pos hv]
    by_cases hi : i = idx
    · subst hi; simp [hv]
    · simp [hi]
  · rw [if_neg hv]
    cases v with
    | true =>
      have hb : (a.words.getD (idx / 64) 0#64).getLsbD (idx % 64) = false := by
        simpa [bitAt] using hv
      simp only [if_true, deriveDetail]
      rw [bitAt_set _ _ _ _ hidx, add_mask_getLsbD _ _ _ hj hb]
      by_cases h1 : i / 64 = idx / 64
      · by_cases h2 : i % 64 = idx % 64
        · simp [h1, h2, hiff]
        · have : ¬ i = idx := by omega
          simp [h1, h2, this, bitAt]
      · have : ¬ i = idx := by omega
        simp [h1, this]
    | false =>
      have hb : (a.words.getD (idx / 64) 0#64).getLsbD (idx % 64) = true := by
        simpa [bitAt] using hv
      simp only [Bool.false_eq_true, if_false, deriveDetail]
      rw [bitAt_set _ _ _ _ hidx, sub_mask_getLsbD _ _ _ hj hb]
      by_cases h1 : i / 64 = idx / 64
      · by_cases h2 : i % 64 = idx % 64
        · simp [h1, h2, hiff]
        · have : ¬ i = idx := by omega
          simp [h1, h2, this, bitAt]
      · have : ¬ i = idx := by omega
        simp [h1, this]

/-- invariant of every reachable archive -/
structure WF (a : Archive) : Prop where
  len : a.words.length = nWords a.size
  high : ∀ i, a.size ≤ i → bitAt a.words i = false
  cache : a.cache = [] ∨ a.cache = encodeLoop 0 a.words

@[simp] theorem length_absBits (a : Archive) : (absBits a).length = a.size := by simp [absBits]

theorem absBits_getD (a : Archive) (hh : ∀ i, a.size ≤ i → bitAt a.words i = false) (i : Nat) :
    (absBits a).getD i false = bitAt a.words i := by
  by_cases hi : i < a.size
  · simp [absBits_eq, List.getD_eq_getElem?_getD, List.getElem?_map, List.getElem?_range hi]
  · have : (absBits a).length ≤ i := by simp; omega
    simp [List.getD_eq_getElem?_getD, List.getElem?_eq_none this, hh i (by omega)]

theorem encodeLoop_pos (idx : Nat) (h : 0 < idx) (ws : List (BitVec 64)) :
    encodeLoop idx ws = (ws.map (fun w => ':' :: toHex w.toNat)).flatten := by
  induction ws generalizing idx with
  | nil => simp [encodeLoop]
  | cons w ws ih =>
    simp only [encodeLoop, if_pos h, List.map_cons, List.flatten_cons]
    rw [ih (idx + 1) (by omega)]
    simp

theorem joinWith_cons (d : Char) (e : List Char) (es : List (List Char)) :
    joinWith d (e :: es) = e ++ (es.map (fun x => d :: x)).flatten := by
  induction es generalizing e with
  | nil => simp [joinWith]
  | cons e' es ih =>
    simp only [joinWith, List.map_cons, List.flatten_cons]
    rw [ih e']
    simp

theorem encodeLoop_eq_joinWith (ws : List (BitVec 64)) :
    encodeLoop 0 ws = joinWith ':' ((ws.map BitVec.toNat).map toHex) := by
  cases ws with
  | nil => simp [encodeLoop, joinWith]
  | cons w ws =>
    simp only [encodeLoop, List.map_cons, joinWith_cons]
    rw [encodeLoop_pos 1 (by omega)]
    simp [List.map_map, Function.comp_def]

theorem word_toNat_eq (a : Archive)
    (hh : ∀ i, a.size ≤ i → bitAt a.words i = false) (k : Nat) (hk : k < a.words.length) :
    (a.words[k]).toNat = wordVal (chunk (absBits a) k) := by
  apply Nat.eq_of_testBit_eq
  intro j
  rw [testBit_wordVal, BitVec.testBit_toNat]
  by_cases hj : j < 64
  · have h1 : (64 * k + j) / 64 = k := by omega
    have h2 : (64 * k + j) % 64 = j := by omega
    have := chunk_getD (absBits a) (64 * k + j)
    rw [h1, h2] at this
    rw [this, absBits_getD a hh]
    simp [bitAt, h1, h2, List.getD_eq_getElem?_getD, List.getElem?_eq_getElem hk]
  · have hlen := chunk_length_le (absBits a) k
    have : (chunk (absBits a) k).length ≤ j := by omega
    rw [BitVec.getLsbD_of_ge _ _ (by omega)]
    simp [List.getD_eq_getElem?_getD, List.getElem?_eq_none this]

theorem words_toNat_eq_specWords (a : Archive) (hl : a.words.length = nWords a.size)
    (hh : ∀ i, a.size ≤ i → bitAt a.words i = false) :
    a.words.map BitVec.toNat = specWords (absBits a) := by
  apply List.ext_getElem
  · simp [length_specWords, hl]
  · intro k h1 h2
    have hk : k < a.words.length := by simpa using h1
    simp only [List.getElem_map]
    rw [word_toNat_eq a hh k hk]
    simp [specWords]

theorem encodeLoop_eq_encode (a : Archive) (hl : a.words.length = nWords a.size)
    (hh : ∀ i, a.size ≤ i → bitAt a.words i = false) :
    encodeLoop 0 a.words = encode (absBits a) := by
  rw [encodeLoop_eq_joinWith, words_toNat_eq_specWords a hl hh]; rfl

/-! ## operations preserve `WF` and simulate the spec -/

theorem bitAt_replicate_zero (m i : Nat) : bitAt (List.replicate m 0#64) i = false := by
  simp [bitAt, List.getD_eq_getElem?_getD, List.getElem?_replicate]
  split <;> simp

theorem wf_new (n : Nat) : WF (new n) where
  len := by simp [new]
  high := fun i _ => bitAt_replicate_zero _ i
  cache := Or.inl rfl

theorem absBits_new (n : Nat) : absBits (new n) = List.replicate n false := by
  apply List.ext_getElem
  · simp [new]
  · intro i h1 h2
    simp [absBits_eq, new, bitAt_replicate_zero]

theorem idx_div_lt {a : Archive} (hl : a.words.length = nWords a.size) {i : Nat} (hi : i < a.size) :
    i / 64 < a.words.length := by
  rw [hl]; exact div64_lt_nWords hi

theorem setValue_some (a : Archive) (i : Nat) (v : Bool) (hi : i < a.size) :
    setValue a i v = some (resetCache (setValueUnchecked a i v)) := by
  simp [setValue, Nat.not_le.mpr hi]

theorem setValue_none (a : Archive) (i : Nat) (v : Bool) (hi : a.size ≤ i) : setValue a i v = none := by
  simp [setValue, hi]

theorem wf_setValue (a : Archive) (h : WF a) (i : Nat) (v : Bool) (hi : i < a.size) :
    WF (resetCache (setValueUnchecked a i v)) where
  len := by simp [resetCache, h.len]
  high := by
    intro k hk
    simp only [resetCache, setValueUnchecked_size] at hk ⊢
    rw [bitAt_setValueUnchecked a i v k (idx_div_lt h.len hi)]
    have : ¬ k = i := by omega
    simp [this, h.high k hk]
  cache := Or.inl rfl

theorem absBits_setValue (a : Archive) (h : WF a) (i : Nat) (v : Bool) (hi : i < a.size) :
    absBits (resetCache (setValueUnchecked a i v)) = (absBits a).set i v := by
  apply List.ext_getElem
  · simp [resetCache]
  · intro k h1 h2
    simp only [absBits_eq, resetCache, setValueUnchecked_size, List.getElem_map, List.getElem_range,
      List.getElem_set]
    rw [bitAt_setValueUnchecked a i v k (idx_div_lt h.len hi)]
    by_cases hk : k = i
    · subst hk; simp
    · have : ¬ i = k := fun e => hk e.symm
      simp [hk, this]

theorem value_some (a : Archive) (i : Nat) (hi : i < a.size) :
    value a i = some ((absBits a).getD i false) := by
  simp [value, Nat.not_le.mpr hi, deriveDetail_value, absBits_eq, List.getD_eq_getElem?_getD,
    List.getElem?_map, List.getElem?_range hi]

theorem value_none (a : Archive) (i : Nat) (hi : a.size ≤ i) : value a i = none := by
  simp [value, hi]

theorem encoding_snd (a : Archive) (h : WF a) : (encoding a).2 = encode (absBits a) := by
  unfold encoding
  split
  · rename_i hc
    rcases h.cache with h' | h'
    · exact absurd h' hc
    · show a.cache = _
      rw [h', encodeLoop_eq_encode a h.len h.high]
  · exact encodeLoop_eq_encode a h.len h.high

theorem encoding_fst_words (a : Archive) : (encoding a).1.words = a.words ∧ (encoding a).1.size = a.size := by
  unfold encoding; split <;> simp

theorem wf_encoding (a : Archive) (h : WF a) : WF (encoding a).1 := by
  unfold encoding
  by_cases hc : a.cache = []
  · simp only [hc, ne_eq, not_true_eq_false, if_false]
    exact ⟨h.len, h.high, Or.inr rfl⟩
  · simpa [hc] using h

theorem absBits_encoding (a : Archive) : absBits (encoding a).1 = absBits a := by
  simp [absBits, (encoding_fst_words a).1, (encoding_fst_words a).2]

/-! ### Decode -/

theorem parseAll_length (es : List (List Char)) (vs : List Nat) (h : parseAll es = .ok vs) :
    vs.length = es.length := by
  induction es generalizing vs with
  | nil => simp [parseAll] at h; subst h; rfl
  | cons e es ih =>
    unfold parseAll at h
    split at h
    · cases h
    · split at h
      · cases h
      · rename_i v _ vs' hvs
        cases h
        simp [ih vs' hvs]

theorem parseEntries_ok (es : List (List Char)) (vs : List Nat) (hp : parseAll es = .ok vs)
    (idx : Nat) (ws : List (BitVec 64)) (hlen : idx + es.length ≤ ws.length) :
    (parseEntries es idx ws).2 = none ∧ (parseEntries es idx ws).1.length = ws.length ∧
    ∀ k, (parseEntries es idx ws).1.getD k 0#64 =
      if idx ≤ k ∧ k < idx + es.length then BitVec.ofNat 64 (vs.getD (k - idx) 0) else ws.getD k 0#64 := by
  induction es generalizing vs idx ws with
  | nil =>
    simp only [parseEntries, List.length_nil, Nat.add_zero, true_and]
    intro k
    rw [if_neg (by omega)]
  | cons e es ih =>
    unfold parseAll at hp
    split at hp
    · cases hp
    · rename_i v hv
      split at hp
      · cases hp
      · rename_i vs' hvs
        cases hp
        simp only [parseEntries, hv]
        simp only [List.length_cons] at hlen
        obtain ⟨h1, h2, h3⟩ := ih vs' hvs (idx + 1) (ws.set idx (BitVec.ofNat 64 v)) (by simp; omega)
        refine ⟨h1, by simpa using h2, ?_⟩
        intro k
        rw [h3 k]
        simp only [List.length_cons]
        by_cases hk : k = idx
        · subst hk
          have : ¬ (k + 1 ≤ k ∧ k < k + 1 + es.length) := by omega
          rw [if_neg this, if_pos (by omega)]
          have hkl : k < ws.length := by omega
          simp [List.getD_eq_getElem?_getD, hkl]
        · by_cases hr : idx + 1 ≤ k ∧ k < idx + 1 + es.length
          · rw [if_pos hr, if_pos (by omega)]
            have : k - idx = (k - (idx + 1)) + 1 := by omega
            rw [this, List.getD_cons_succ]
          · rw [if_neg hr, if_neg (by omega)]
            have : ¬ idx = k := fun e => hk e.symm
            simp [List.getD_eq_getElem?_getD, this]

theorem parseEntries_err (es : List (List Char)) (e : DecodeErr) (hp : parseAll es = .error e)
    (idx : Nat) (ws : List (BitVec 64)) : (parseEntries es idx ws).2 = some e := by
  induction es generalizing idx ws with
  | nil => simp [parseAll] at hp
  | cons x es ih =>
    unfold parseAll at hp
    split at hp
    · rename_i err hx
      cases hp
      simp [parseEntries, hx]
    · rename_i v hv
      split at hp
      · rename_i err hes
        cases hp
        simp only [parseEntries, hv]
        exact ih hes _ _
      · cases hp

theorem foldl_clear_props (is : List Nat) (a : Archive) (h : ∀ x ∈ is, x / 64 < a.words.length) :
    let r := is.foldl (fun acc x => setValueUnchecked acc x false) a
    r.size = a.size ∧ r.cache = a.cache ∧ r.words.length = a.words.length ∧
    ∀ i, bitAt r.words i = if i ∈ is then false else bitAt a.words i := by
  induction is generalizing a with
  | nil => simp
  | cons x xs ih =>
    simp only [List.foldl_cons]
    have hx := h x (by simp)
    obtain ⟨h1, h2, h3, h4⟩ := ih (setValueUnchecked a x false)
      (fun y hy => by simpa using h y (by simp [hy]))
    refine ⟨by simpa using h1, by simpa using h2, by simpa using h3, ?_⟩
    intro i
    rw [h4 i, bitAt_setValueUnchecked a x false i hx]
    by_cases hi : i = x
    · subst hi; simp
    · by_cases hm : i ∈ xs
      · simp [hm]
      · simp [hi, hm]

theorem zeroOutUnused_props (a : Archive) :
    (zeroOutUnused a).size = a.size ∧ (zeroOutUnused a).cache = a.cache ∧
    (zeroOutUnused a).words.length = a.words.length ∧
    ∀ i, bitAt (zeroOutUnused a).words i =
      if a.size ≤ i ∧ i < a.words.length * 64 then false else bitAt a.words i := by
  unfold zeroOutUnused
  have := foldl_clear_props (List.range' a.size (a.words.length * 64 - a.size)) a (by
    intro x hx
    simp only [List.mem_range'_1] at hx
    omega)
  obtain ⟨h1, h2, h3, h4⟩ := this
  refine ⟨h1, h2, h3, ?_⟩
  intro i
  rw [h4 i]
  simp only [List.mem_range'_1]
  by_cases hi : a.size ≤ i ∧ i < a.words.length * 64
  · rw [if_pos hi, if_pos (by omega)]
  · rw [if_neg hi, if_neg (by omega)]

theorem decode_ok_inv (n : Nat) (text : List Char) (bs : List Bool) (h : decode n text = .ok bs) :
    ∃ vs, (splitOn ':' text).length = nWords n ∧ parseAll (splitOn ':' text) = .ok vs ∧
      bs = (List.range n).map (fun i => (vs.getD (i / 64) 0).testBit (i % 64)) := by
  unfold decode at h
  simp only [] at h
  split at h
  · cases h
  · rename_i hl
    split at h
    · cases h
    · rename_i vs hvs
      cases h
      exact ⟨vs, by simpa using hl, hvs, rfl⟩

/-- what a successful concrete `Decode` leaves behind, from nothing but the word count -/
theorem decodeC_ok_raw (a : Archive) (hl : a.words.length = nWords a.size) (text : List Char)
    (vs : List Nat) (hlen : (splitOn ':' text).length = nWords a.size)
    (hp : parseAll (splitOn ':' text) = .ok vs) :
    (decodeC a text).2 = none ∧ (decodeC a text).1.size = a.size ∧ (decodeC a text).1.cache = [] ∧
    (decodeC a text).1.words.length = a.words.length ∧
    ∀ i, bitAt (decodeC a text).1.words i =
      if i < a.size then (vs.getD (i / 64) 0).testBit (i % 64) else false := by
  obtain ⟨p1, p2, p3⟩ := parseEntries_ok (splitOn ':' text) vs hp 0 a.words (by omega)
  unfold decodeC
  simp only []
  rw [if_neg (by omega)]
  generalize hr : parseEntries (splitOn ':' text) 0 a.words = r at p1 p2 p3
  obtain ⟨ws, o⟩ := r
  simp only at p1 p2 p3
  subst p1
  simp only []
  obtain ⟨z1, z2, z3, z4⟩ := zeroOutUnused_props { a with words := ws }
  simp only at z1 z2 z3 z4
  refine ⟨trivial, by simpa [resetCache] using z1, rfl, by simpa [resetCache, p2] using z3, ?_⟩
  intro i
  simp only [resetCache]
  rw [z4 i]
  by_cases hi : i < a.size
  · rw [if_neg (by omega), if_pos hi]
    have hk : i / 64 < nWords a.size := div64_lt_nWords hi
    simp only [bitAt, p3 (i / 64)]
    rw [if_pos (by omega)]
    rw [BitVec.getLsbD_ofNat]
    simp [Nat.mod_lt]
  · rw [if_neg hi]
    by_cases h2 : i < ws.length * 64
    · rw [if_pos ⟨by omega, h2⟩]
    · rw [if_neg (by omega)]
      exact bitAt_of_ge _ _ (by omega)

theorem decodeC_ok (a : Archive) (h : WF a) (text : List Char) (bs : List Bool)
    (hd : decode a.size text = .ok bs) :
    (decodeC a text).2 = none ∧ WF (decodeC a text).1 ∧ absBits (decodeC a text).1 = bs ∧
    (decodeC a text).1.size = a.size := by
  obtain ⟨vs, hlen, hp, rfl⟩ := decode_ok_inv _ _ _ hd
  obtain ⟨r1, r2, r3, r4, r5⟩ := decodeC_ok_raw a h.len text vs hlen hp
  refine ⟨r1, ⟨by rw [r4, r2, h.len], ?_, Or.inl r3⟩, ?_, r2⟩
  · intro i hi
    rw [r5 i, if_neg (by omega)]
  · apply List.ext_getElem
    · simp [r2]
    · intro i h1 h2
      have hi : i < a.size := by simpa using h2
      simp [absBits_eq, r5 i, hi]

/-- `Decode` reports exactly the error class the spec assigns to the text (also on malformed text) -/
theorem decodeC_class (a : Archive) (hl : a.words.length = nWords a.size) (text : List Char) :
    (decodeC a text).2 = (match decode a.size text with | .ok _ => none | .error e => some e) := by
  by_cases hlen : (splitOn ':' text).length = nWords a.size
  · cases hp : parseAll (splitOn ':' text) with
    | ok vs =>
      rw [(decodeC_ok_raw a hl text vs hlen hp).1]
      simp [decode, hlen, hp]
    | error e =>
      have := parseEntries_err _ e hp 0 a.words
      unfold decodeC
      simp only []
      rw [if_neg (by omega)]
      generalize parseEntries (splitOn ':' text) 0 a.words = r at this
      obtain ⟨ws, o⟩ := r
      simp only at this
      subst this
      simp [decode, hlen, hp]
  · have h1 : (splitOn ':' text).length ≠ a.words.length := by omega
    simp [decodeC, decode, h1, hlen]

/-! ### a failing `Decode` -/

/-- what a failing `parseEntriesIntoArrayValues` leaves behind: the word count, and every word from the
last entry's index on (the failing entry is at or before the last one, and only words in front of the
failing entry are written) -/
theorem parseEntries_fail (es : List (List Char)) (idx : Nat) (ws : List (BitVec 64)) (e : DecodeErr)
    (h : (parseEntries es idx ws).2 = some e) :
    (parseEntries es idx ws).1.length = ws.length ∧
    ∀ k, idx + es.length ≤ k + 1 → (parseEntries es idx ws).1.getD k 0#64 = ws.getD k 0#64 := by
  induction es generalizing idx ws with
  | nil => simp [parseEntries] at h
  | cons x es ih =>
    unfold parseEntries at h ⊢
    cases hx : parseHex x with
    | error err => simp
    | ok v =>
      simp only [hx] at h ⊢
      cases es with
      | nil => simp [parseEntries] at h
      | cons y ys =>
        obtain ⟨h1, h2⟩ := ih (idx + 1) (ws.set idx (BitVec.ofNat 64 v)) h
        refine ⟨by simpa using h1, ?_⟩
        intro k hk
        simp only [List.length_cons] at hk
        rw [h2 k (by simp only [List.length_cons]; omega)]
        have : ¬ idx = k := by omega
        simp [List.getD_eq_getElem?_getD, this]

theorem parseEntries_of_parseAll_ok (es : List (List Char)) (vs : List Nat) (hp : parseAll es = .ok vs)
    (idx : Nat) (ws : List (BitVec 64)) : (parseEntries es idx ws).2 = none := by
  induction es generalizing vs idx ws with
  | nil => rfl
  | cons e es ih =>
    unfold parseAll at hp
    split at hp
    · cases hp
    · rename_i v hv
      split at hp
      · cases hp
      · rename_i vs' hvs
        simp only [parseEntries, hv]
        exact ih vs' hvs _ _

/-- a failing `Decode` that is not a partial write (`partialWrite`) leaves the archive exactly as it
was: words, size and memoised text -/
theorem decodeC_fail_unchanged (a : Archive) (hl : a.words.length = nWords a.size) (t : List Char)
    (hnp : partialWrite a.size t = false) (hf : (decodeC a t).2 ≠ none) : (decodeC a t).1 = a := by
  unfold decodeC at hf ⊢
  simp only [] at hf ⊢
  by_cases hcount : (splitOn ':' t).length = a.words.length
  · rw [if_neg (by simpa using hcount)] at hf ⊢
    unfold partialWrite at hnp
    rcases hsp : splitOn ':' t with _ | ⟨e, _ | ⟨e', es⟩⟩
    · rw [hsp] at hf; simp [parseEntries] at hf
    · rw [hsp] at hf
      simp only [parseEntries] at hf ⊢
      cases hp : parseHex e with
      | error err => simp
      | ok v => simp [hp] at hf
    · rw [hsp] at hf hnp hcount
      cases hp : parseHex e with
      | error err => simp [parseEntries, hp]
      | ok v =>
        exfalso
        simp only [hp, isOk, Bool.and_true, Bool.and_eq_false_imp, decide_eq_true_eq,
          Bool.not_eq_false'] at hnp
        have hrest := hnp (by rw [hcount, hl])
        cases hq : parseAll (e' :: es) with
        | error err => simp [hq] at hrest
        | ok vs =>
          have hall : parseAll (e :: e' :: es) = .ok (v :: vs) := by
            rw [parseAll, hp]; simp only [hq]
          have hnone := parseEntries_of_parseAll_ok _ _ hall 0 a.words
          generalize parseEntries (e :: e' :: es) 0 a.words = r at hf hnone
          obtain ⟨ws, o⟩ := r
          simp only at hnone
          subst hnone
          exact hf rfl
  · rw [if_pos (by simpa using hcount)]

/-- what every failing `Decode` keeps, partial writes included: size, word count, the memoised text and
every entry at or above `size` (only cache coherence and the words in front of the bad entry are lost) -/
theorem decodeC_fail_props (a : Archive) (hl : a.words.length = nWords a.size) (t : List Char)
    (hf : (decodeC a t).2 ≠ none) :
    (decodeC a t).1.size = a.size ∧ (decodeC a t).1.words.length = a.words.length ∧
    (decodeC a t).1.cache = a.cache ∧
    (∀ i, a.size ≤ i → bitAt (decodeC a t).1.words i = bitAt a.words i) ∧
    (∀ k, a.words.length ≤ k + 1 → (decodeC a t).1.words.getD k 0#64 = a.words.getD k 0#64) := by
  unfold decodeC at hf ⊢
  simp only [] at hf ⊢
  by_cases hcount : (splitOn ':' t).length = a.words.length
  · rw [if_neg (by simpa using hcount)] at hf ⊢
    generalize hr : parseEntries (splitOn ':' t) 0 a.words = r at hf ⊢
    obtain ⟨ws, o⟩ := r
    cases o with
    | none => simp at hf
    | some e =>
      have hfail := parseEntries_fail (splitOn ':' t) 0 a.words e (by rw [hr])
      rw [hr] at hfail
      obtain ⟨h1, h2⟩ := hfail
      simp only at h1 h2 ⊢
      refine ⟨trivial, h1, trivial, ?_, ?_⟩
      · intro i hi
        unfold bitAt
        by_cases hk : i / 64 < a.words.length
        · rw [h2 (i / 64) (by rw [hcount, hl] at *; unfold nWords at *; omega)]
        · have e1 : ws.getD (i / 64) 0#64 = 0#64 := by
            simp [List.getD_eq_getElem?_getD, List.getElem?_eq_none (show ws.length ≤ i / 64 by omega)]
          have e2 : a.words.getD (i / 64) 0#64 = 0#64 := by
            simp [List.getD_eq_getElem?_getD, List.getElem?_eq_none (show a.words.length ≤ i / 64 by omega)]
          rw [e1, e2]
      · intro k hk
        exact h2 k (by omega)
  · rw [if_pos (by simpa using hcount)]
    exact ⟨rfl, rfl, rfl, fun _ _ => rfl, fun _ _ => rfl⟩

/-- the invariant after a successful `SetValue`, from nothing but the word count and the clear high
bits (whatever the memoised text was: e.g. after a partially written `Decode`) -/
theorem wf_setValue_raw (a : Archive) (hl : a.words.length = nWords a.size)
    (hh : ∀ i, a.size ≤ i → bitAt a.words i = false) (i : Nat) (v : Bool) (hi : i < a.size) :
    WF (resetCache (setValueUnchecked a i v)) where
  len := by simp [resetCache, hl]
  high := by
    intro k hk
    simp only [resetCache, setValueUnchecked_size] at hk ⊢
    rw [bitAt_setValueUnchecked a i v k (idx_div_lt hl hi)]
    have : ¬ k = i := by omega
    simp [this, hh k hk]
  cache := Or.inl rfl

/-- the invariant after a successful `Decode`, from nothing but the word count -/
theorem decodeC_ok_raw_wf (a : Archive) (hl : a.words.length = nWords a.size) (text : List Char)
    (bs : List Bool) (hd : decode a.size text = .ok bs) :
    (decodeC a text).2 = none ∧ WF (decodeC a text).1 ∧ absBits (decodeC a text).1 = bs := by
  obtain ⟨vs, hlen, hp, rfl⟩ := decode_ok_inv _ _ _ hd
  obtain ⟨r1, r2, r3, r4, r5⟩ := decodeC_ok_raw a hl text vs hlen hp
  refine ⟨r1, ⟨by rw [r4, r2, hl], ?_, Or.inl r3⟩, ?_⟩
  · intro i hi
    rw [r5 i, if_neg (by omega)]
  · apply List.ext_getElem
    · simp [r2]
    · intro i h1 h2
      have hi : i < a.size := by simpa using h2
      simp [absBits_eq, r5 i, hi]

theorem partialWrite_false_of_le (n : Nat) (h : n ≤ 64) (t : List Char) : partialWrite n t = false := by
  unfold partialWrite
  split
  · rename_i e e' es _
    have : ¬ (es.length + 1 + 1 = nWords n) := by unfold nWords; omega
    simp [this]
  · rfl

/-! ### one step of the simulation -/

/-- simulation relation between a concrete archive and the list of booleans it stands for -/
def Sim (a : Archive) (bs : List Bool) : Prop := WF a ∧ absBits a = bs

theorem sim_size {a : Archive} {bs : List Bool} (h : Sim a bs) : bs.length = a.size := by
  rw [← h.2]; simp

theorem sim_step (a : Archive) (bs : List Bool) (h : Sim a bs) (op : Op) (hv : validOp bs.length op = true) :
    (stepC a op).2 = (stepA bs op).2 ∧ Sim (stepC a op).1 (stepA bs op).1 := by
  have hsz := sim_size h
  obtain ⟨hwf, habs⟩ := h
  cases op with
  | setValue i v =>
    by_cases hi : i < a.size
    · simp only [stepC, stepA, setValue_some a i v hi, if_neg (show ¬ i ≥ bs.length by omega)]
      exact ⟨trivial, wf_setValue a hwf i v hi, by rw [absBits_setValue a hwf i v hi, habs]⟩
    · simp only [stepC, stepA, setValue_none a i v (by omega), if_pos (show i ≥ bs.length by omega)]
      exact ⟨trivial, hwf, habs⟩
  | value i =>
    by_cases hi : i < a.size
    · simp only [stepC, stepA, value_some a i hi, if_neg (show ¬ i ≥ bs.length by omega), habs]
      exact ⟨trivial, hwf, habs⟩
    · simp only [stepC, stepA, value_none a i (by omega), if_pos (show i ≥ bs.length by omega)]
      exact ⟨trivial, hwf, habs⟩
  | encoding =>
    simp only [stepC, stepA, encoding_snd a hwf, habs]
    exact ⟨trivial, wf_encoding a hwf, by rw [absBits_encoding, habs]⟩
  | setValueInt i v =>
    have hw : a.words = [] ↔ a.size = 0 := by
      rw [← List.length_eq_zero_iff, hwf.len]; unfold nWords; omega
    simp only [stepC, stepA, setValueInt]
    by_cases h1 : i ≥ (a.size : Int)
    · rw [if_pos h1, if_pos (show i ≥ (bs.length : Int) by omega)]
      exact ⟨rfl, hwf, habs⟩
    · rw [if_neg h1, if_neg (show ¬ i ≥ (bs.length : Int) by omega)]
      by_cases h2 : i ≥ 0
      · rw [if_pos h2, if_pos h2]
        have hi : i.toNat < a.size := by omega
        simp only [setValue_some a i.toNat v hi]
        exact ⟨trivial, wf_setValue a hwf _ v hi, by rw [absBits_setValue a hwf _ v hi, habs]⟩
      · rw [if_neg h2, if_neg h2]
        by_cases h3 : i ≤ -64
        · rw [if_pos h3, if_pos h3]
          exact ⟨rfl, hwf, habs⟩
        · rw [if_neg h3, if_neg h3]
          by_cases h4 : a.size = 0
          · rw [if_pos (hw.mpr h4), if_pos (show bs.length = 0 by omega)]
            exact ⟨rfl, hwf, habs⟩
          · rw [if_neg (fun h => h4 (hw.mp h)), if_neg (show ¬ bs.length = 0 by omega)]
            exact ⟨rfl, ⟨hwf.len, hwf.high, Or.inl rfl⟩, habs⟩
  | valueInt i =>
    have hw : a.words = [] ↔ a.size = 0 := by
      rw [← List.length_eq_zero_iff, hwf.len]; unfold nWords; omega
    simp only [stepC, stepA, valueInt]
    by_cases h1 : i ≥ (a.size : Int)
    · rw [if_pos h1, if_pos (show i ≥ (bs.length : Int) by omega)]
      exact ⟨rfl, hwf, habs⟩
    · rw [if_neg h1, if_neg (show ¬ i ≥ (bs.length : Int) by omega)]
      by_cases h2 : i ≥ 0
      · rw [if_pos h2, if_pos h2]
        have hi : i.toNat < a.size := by omega
        simp only [value_some a i.toNat hi, habs]
        exact ⟨trivial, hwf, habs⟩
      · rw [if_neg h2, if_neg h2]
        by_cases h3 : i ≤ -64
        · rw [if_pos h3, if_pos h3]
          exact ⟨rfl, hwf, habs⟩
        · rw [if_neg h3, if_neg h3]
          by_cases h4 : a.size = 0
          · rw [if_pos (hw.mpr h4), if_pos (show bs.length = 0 by omega)]
            exact ⟨rfl, hwf, habs⟩
          · rw [if_neg (fun h => h4 (hw.mp h)), if_neg (show ¬ bs.length = 0 by omega)]
            exact ⟨rfl, hwf, habs⟩
  | decode t =>
    simp only [validOp, Bool.not_eq_true'] at hv
    cases hd : decode bs.length t with
    | error e =>
      rw [hsz] at hd hv
      have hcls := decodeC_class a hwf.len t
      rw [hd] at hcls
      have hun := decodeC_fail_unchanged a hwf.len t hv (by rw [hcls]; simp)
      simp only [stepC, stepA, hsz, hd]
      generalize decodeC a t = r at hcls hun
      obtain ⟨a', o⟩ := r
      simp only at hcls hun
      subst hcls; subst hun
      exact ⟨rfl, hwf, habs⟩
    | ok bs' =>
      rw [hsz] at hd
      obtain ⟨d1, d2, d3, _⟩ := decodeC_ok a hwf t bs' hd
      simp only [stepC, stepA, hsz, hd]
      generalize decodeC a t = r at d1 d2 d3
      obtain ⟨a', o⟩ := r
      simp only at d1 d2 d3
      subst d1
      exact ⟨rfl, d2, d3⟩

theorem decode_length (n : Nat) (t : List Char) (bs : List Bool) (h : decode n t = .ok bs) :
    bs.length = n := by
  obtain ⟨vs, _, _, rfl⟩ := decode_ok_inv n t bs h
  simp

theorem stepA_length (bs : List Bool) (op : Op) : (stepA bs op).1.length = bs.length := by
  cases op with
  | setValue i v => simp only [stepA]; split <;> simp
  | value i => simp only [stepA]; split <;> rfl
  | encoding => rfl
  | decode t =>
    simp only [stepA]
    cases hd : decode bs.length t with
    | error e => rfl
    | ok bs' => exact decode_length _ _ _ hd
  | setValueInt i v =>
    simp only [stepA]
    by_cases h1 : i ≥ (bs.length : Int)
    · rw [if_pos h1]
    · rw [if_neg h1]
      by_cases h2 : i ≥ 0
      · rw [if_pos h2]; simp
      · rw [if_neg h2]
        by_cases h3 : i ≤ -64
        · rw [if_pos h3]
        · rw [if_neg h3]; split <;> rfl
  | valueInt i =>
    simp only [stepA]
    by_cases h1 : i ≥ (bs.length : Int)
    · rw [if_pos h1]
    · rw [if_neg h1]
      by_cases h2 : i ≥ 0
      · rw [if_pos h2]
      · rw [if_neg h2]
        by_cases h3 : i ≤ -64
        · rw [if_pos h3]
        · rw [if_neg h3]; split <;> rfl

theorem runC_eq_runA (a : Archive) (bs : List Bool) (h : Sim a bs) (ops : List Op)
    (hv : ∀ op ∈ ops, validOp bs.length op = true) : runC a ops = runA bs ops := by
  induction ops generalizing a bs with
  | nil => rfl
  | cons op ops ih =>
    obtain ⟨h1, h2⟩ := sim_step a bs h op (hv op (by simp))
    simp only [runC, runA, h1]
    congr 1
    apply ih _ _ h2
    intro op' hop'
    rw [stepA_length]
    exact hv op' (by simp [hop'])

theorem sim_exec (a : Archive) (bs : List Bool) (h : Sim a bs) (ops : List Op)
    (hv : ∀ op ∈ ops, validOp bs.length op = true) : Sim (execC a ops) (execA bs ops) := by
  induction ops generalizing a bs with
  | nil => exact h
  | cons op ops ih =>
    obtain ⟨_, h2⟩ := sim_step a bs h op (hv op (by simp))
    simp only [execC, execA]
    apply ih _ _ h2
    intro op' hop'
    rw [stepA_length]
    exact hv op' (by simp [hop'])

theorem sim_new (n : Nat) : Sim (new n) (List.replicate n false) := ⟨wf_new n, absBits_new n⟩

/-! ### canonical form, equivalence, compressor -/

theorem encode_injective' (a b : List Bool) (hl : a.length = b.length) (he : encode a = encode b) :
    a = b := by
  by_cases h0 : a.length = 0
  · have ha : a = [] := List.eq_nil_of_length_eq_zero h0
    have hb : b = [] := List.eq_nil_of_length_eq_zero (by omega)
    rw [ha, hb]
  · have h1 := decode_encode' a.length a (by omega) rfl
    have h2 := decode_encode' a.length b (by omega) hl.symm
    rw [he, h2] at h1
    cases h1
    rfl

theorem words_eq_of_absBits_eq (a b : Archive) (ha : WF a) (hb : WF b)
    (he : absBits a = absBits b) : a.words = b.words := by
  have h1 := words_toNat_eq_specWords a ha.len ha.high
  have h2 := words_toNat_eq_specWords b hb.len hb.high
  rw [he, ← h2] at h1
  exact (List.map_inj_right (fun x y h => BitVec.eq_of_toNat_eq h)).mp h1

theorem isEquivalentTo_iff' (a b : Archive) (ha : WF a) (hb : WF b) :
    isEquivalentTo a b = true ↔ a.size = b.size ∧ absBits a = absBits b := by
  unfold isEquivalentTo
  by_cases hs : a.size = b.size
  · simp only [hs, ne_eq, not_true_eq_false, if_false, true_and, List.all_eq_true, List.mem_range,
      beq_iff_eq]
    constructor
    · intro h
      have hw : a.words = b.words := by
        apply List.ext_getElem
        · rw [ha.len, hb.len, hs]
        · intro k h1 h2
          have := h k h1
          simpa [List.getD_eq_getElem?_getD, List.getElem?_eq_getElem h1, List.getElem?_eq_getElem h2] using this
      simp [absBits, hw, hs]
    · intro h k _
      rw [words_eq_of_absBits_eq a b ha hb h]
  · simp [hs]

theorem take_set_succ {α : Type} (l : List α) (i : Nat) (x : α) (hi : i < l.length) :
    (l.set i x).take (i + 1) = l.take i ++ [x] := by
  rw [List.take_add_one]
  simp [List.take_set_of_le, hi]

theorem compressLoop_spec (fs : List Bool) (idx : Nat) (a : Archive) (h : WF a)
    (hsz : idx + fs.length = a.size) :
    ∃ a', compressLoop fs idx a = some a' ∧ WF a' ∧ a'.size = a.size ∧
      absBits a' = (absBits a).take idx ++ fs := by
  induction fs generalizing idx a with
  | nil =>
    refine ⟨a, rfl, h, rfl, ?_⟩
    simp only [List.length_nil, Nat.add_zero] at hsz
    simp [List.take_of_length_le, hsz]
  | cons f fs ih =>
    simp only [List.length_cons] at hsz
    have hi : idx < a.size := by omega
    obtain ⟨a', h1, h2, h3, h4⟩ := ih (idx + 1) (resetCache (setValueUnchecked a idx f))
      (wf_setValue a h idx f hi) (by simp [resetCache]; omega)
    refine ⟨a', ?_, h2, by simpa [resetCache] using h3, ?_⟩
    · simp only [compressLoop, setValue_some a idx f hi, h1]
    · rw [h4, absBits_setValue a h idx f hi, take_set_succ _ _ _ (by simpa using hi)]
      simp

theorem compress_spec (flags : List Bool) :
    ∃ a, compress flags = some a ∧ WF a ∧ a.size = flags.length ∧ absBits a = flags := by
  obtain ⟨a, h1, h2, h3, h4⟩ := compressLoop_spec flags 0 (new flags.length) (wf_new _) (by simp [new])
  exact ⟨a, h1, h2, by simpa [new] using h3, by simpa using h4⟩

theorem decompressLoop_spec (a : Archive) (is : List Nat) (h : ∀ i ∈ is, i < a.size) :
    decompressLoop a is = some (is.map (fun i => (absBits a).getD i false)) := by
  induction is with
  | nil => rfl
  | cons i is ih =>
    simp only [decompressLoop, value_some a i (h i (by simp)), ih (fun j hj => h j (by simp [hj])),
      List.map_cons]

theorem decompress_spec (a : Archive) : decompress a = some (absBits a) := by
  unfold decompress
  rw [decompressLoop_spec a _ (fun i hi => by simpa using hi)]
  congr 1
  apply List.ext_getElem
  · simp
  · intro i h1 h2
    have hi : i < (absBits a).length := h2
    simp [List.getD_eq_getElem?_getD, List.getElem?_eq_getElem hi]

end Crem.BoolArchive
