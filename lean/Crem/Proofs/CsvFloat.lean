import Crem.Model.Csv
import Mathlib.Tactic.Linarith
import Mathlib.Tactic.Ring
import Mathlib.Tactic.Positivity
import Mathlib.Tactic.NormNum
import Mathlib.Algebra.Order.Field.Basic
import Mathlib.Algebra.Order.Field.Rat
import Mathlib.Algebra.Order.Group.Abs
/-!
Value specification of the model's binary64 rounding (`roundBits`), independent of the code that
computes it (property C20, "numeric fields as numbers").

* `decodePos b`   the rational a sign-less binary64 bit pattern denotes (IEEE 754: biased exponent
                  `b / 2^52`, fraction `b % 2^52`; exponent 0 = subnormal), with the exponent range
                  NOT cut off at 2047 — so `decodePos bitsInf = 2^1024`, the value IEEE 754 rounds
                  to before it declares overflow.
* `NearestEven x b`  `b` is the pattern nearest to `x`, ties to the even pattern.
* `roundBits_nearestEven`   the model's rounding returns that pattern, for every positive rational.
* `nearestEven_unique`      … and there is only one such pattern (the value is pinned down).
* `roundBits_lt_bitsInf_iff` overflow (ErrRange) exactly from `2^1024 − 2^970` on (MaxFloat64 + half an ulp).
* `roundBits_eq_zero_iff`   underflow to zero exactly up to `2^-1075` (half the smallest subnormal).
* `decodePos_lt`            patterns are ordered like their values.

Helpers: `NearInt y m` (`m` is the natural nearest to `y`, ties to even), `roundHalfEven_spec`,
`floorLog2Ratio_spec`, `roundScaled_spec`, `roundBits_char` / `roundBits_char'` (the result is
`E·2^52 + m` with `m` nearest-even to `x / 2^(E−1074)`), `decodePos_enc`, `decodePos_grid`.
-/
namespace Crem.Csv

/-- the value of the sign-less binary64 pattern `b` (exponent range not cut off) -/
def decodePos (b : Nat) : ℚ :=
  if b / 2 ^ 52 = 0 then ((b % 2 ^ 52 : ℕ) : ℚ) * (2 : ℚ) ^ (-1074 : ℤ)
  else ((2 ^ 52 + b % 2 ^ 52 : ℕ) : ℚ) * (2 : ℚ) ^ (((b / 2 ^ 52 : ℕ) : ℤ) - 1075)

/-- `b` is a pattern nearest to `x`; if another pattern is as near, `b` is the even one -/
def NearestEven (x : ℚ) (b : Nat) : Prop :=
  ∀ b' : Nat, |x - decodePos b| ≤ |x - decodePos b'| ∧
    (|x - decodePos b| = |x - decodePos b'| → b' ≠ b → b % 2 = 0)


/-! ### nearest integer, ties to even -/


/-- `m` is a natural number nearest to `y`, ties to even -/
def NearInt (y : ℚ) (m : ℕ) : Prop :=
  ∀ k : ℕ, |y - m| ≤ |y - k| ∧ (|y - m| = |y - k| → k ≠ m → m % 2 = 0)

private theorem nat_cast_cases (k m : ℕ) : k = m ∨ (k : ℚ) + 1 ≤ m ∨ (m : ℚ) + 1 ≤ k := by
  rcases lt_trichotomy k m with h | h | h
  · right; left; exact_mod_cast h
  · left; exact h
  · right; right; exact_mod_cast h

theorem nearInt_of_lt (y : ℚ) (m : ℕ) (h : |y - m| < 1 / 2) : NearInt y m := by
  intro k
  rcases nat_cast_cases k m with rfl | hk | hk
  · exact ⟨le_refl _, fun _ hne => absurd rfl hne⟩
  · have : |y - m| < |y - k| := by
      rcases abs_cases (y - m) with ⟨e1, _⟩ | ⟨e1, _⟩ <;>
      rcases abs_cases (y - k) with ⟨e2, _⟩ | ⟨e2, _⟩ <;> rw [e1] at h ⊢ <;> rw [e2] <;> linarith
    exact ⟨this.le, fun he => absurd he this.ne⟩
  · have : |y - m| < |y - k| := by
      rcases abs_cases (y - m) with ⟨e1, _⟩ | ⟨e1, _⟩ <;>
      rcases abs_cases (y - k) with ⟨e2, _⟩ | ⟨e2, _⟩ <;> rw [e1] at h ⊢ <;> rw [e2] <;> linarith
    exact ⟨this.le, fun he => absurd he this.ne⟩

theorem nearInt_of_eq (y : ℚ) (m : ℕ) (h : |y - m| = 1 / 2) (hm : m % 2 = 0) : NearInt y m := by
  intro k
  refine ⟨?_, fun _ _ => hm⟩
  rcases nat_cast_cases k m with rfl | hk | hk
  · exact le_refl _
  · rcases abs_cases (y - m) with ⟨e1, _⟩ | ⟨e1, _⟩ <;>
    rcases abs_cases (y - k) with ⟨e2, _⟩ | ⟨e2, _⟩ <;> rw [e1] at h ⊢ <;> rw [e2] <;> linarith
  · rcases abs_cases (y - m) with ⟨e1, _⟩ | ⟨e1, _⟩ <;>
    rcases abs_cases (y - k) with ⟨e2, _⟩ | ⟨e2, _⟩ <;> rw [e1] at h ⊢ <;> rw [e2] <;> linarith

theorem NearInt.ge {y : ℚ} {m : ℕ} (h : NearInt y m) (K : ℕ) (hK : (K : ℚ) ≤ y) : K ≤ m := by
  by_contra hlt
  have h1 : (m : ℚ) + 1 ≤ K := by exact_mod_cast Nat.lt_of_not_le hlt
  have := (h (m + 1)).1
  push_cast at this
  rw [abs_of_nonneg (by linarith), abs_of_nonneg (by linarith)] at this
  linarith

theorem NearInt.le {y : ℚ} {m : ℕ} (h : NearInt y m) (K : ℕ) (hK : y ≤ K) : m ≤ K := by
  by_contra hlt
  have h1 : (K : ℚ) + 1 ≤ m := by exact_mod_cast Nat.lt_of_not_le hlt
  obtain ⟨m', rfl⟩ : ∃ m', m = m' + 1 := ⟨m - 1, by omega⟩
  have := (h m').1
  push_cast at this h1
  rw [abs_of_nonpos (by linarith), abs_of_nonpos (by linarith)] at this
  linarith

theorem NearInt.le_odd_iff {y : ℚ} {m : ℕ} (h : NearInt y m) (N : ℕ) (hN : N % 2 = 1) :
    m ≤ N ↔ y < N + 1 / 2 := by
  constructor
  · intro hm
    by_contra hy
    have hy : (N : ℚ) + 1 / 2 ≤ y := not_lt.mp hy
    have hm' : (m : ℚ) ≤ N := by exact_mod_cast hm
    obtain ⟨h1, h2⟩ := h (N + 1)
    push_cast at h1 h2
    rw [abs_of_nonneg (by linarith)] at h1 h2
    rcases abs_cases (y - (N + 1)) with ⟨e2, _⟩ | ⟨e2, _⟩
    · rw [e2] at h1; linarith
    · rw [e2] at h1 h2
      have : m = N := by
        have : (m : ℚ) = N := by linarith
        exact_mod_cast this
      have := h2 (by rw [this]; linarith) (by omega)
      omega
  · intro hy
    by_contra hm
    have hm' : (N : ℚ) + 1 ≤ m := by exact_mod_cast Nat.lt_of_not_le hm
    have h1 := (h N).1
    rw [abs_of_nonpos (by linarith)] at h1
    rcases abs_cases (y - N) with ⟨e2, _⟩ | ⟨e2, _⟩ <;> rw [e2] at h1 <;> linarith

theorem NearInt.eq_zero_iff {y : ℚ} {m : ℕ} (h : NearInt y m) (hy0 : 0 ≤ y) :
    m = 0 ↔ y ≤ 1 / 2 := by
  constructor
  · rintro rfl
    have h1 := (h 1).1
    push_cast at h1
    rw [sub_zero, abs_of_nonneg hy0] at h1
    rcases abs_cases (y - 1) with ⟨e2, _⟩ | ⟨e2, _⟩ <;> rw [e2] at h1 <;> linarith
  · intro hy
    by_contra hm
    have hm' : (1 : ℚ) ≤ m := by exact_mod_cast Nat.one_le_iff_ne_zero.mpr hm
    obtain ⟨h1, h2⟩ := h 0
    push_cast at h1 h2
    rw [sub_zero, abs_of_nonneg hy0, abs_of_nonpos (by linarith)] at h1 h2
    have : m = 1 := by
      have : (m : ℚ) = 1 := by linarith
      exact_mod_cast this
    have := h2 (by rw [this]; push_cast; linarith) (by omega)
    omega

theorem roundHalfEven_spec (a b : ℕ) (hb : 0 < b) : NearInt ((a : ℚ) / b) (roundHalfEven a b) := by
  have hab : b * (a / b) + a % b = a := Nat.div_add_mod a b
  have hr : a % b < b := Nat.mod_lt _ hb
  have key : roundHalfEven a b
      = if (2 * (a % b) > b ∨ (2 * (a % b) = b ∧ (a / b) % 2 = 1)) then a / b + 1 else a / b := by
    unfold roundHalfEven
    simp only [Bool.or_eq_true, Bool.and_eq_true, decide_eq_true_eq, beq_iff_eq]
  rw [key]
  generalize a / b = q at *
  generalize a % b = r at *
  have hbq : (0 : ℚ) < b := by exact_mod_cast hb
  have hy : (a : ℚ) / b = q + r / b := by
    rw [← hab]; push_cast; rw [add_div, mul_div_cancel_left₀ _ hbq.ne']
  rw [hy]
  have hrq : (r : ℚ) < b := by exact_mod_cast hr
  have hr0 : (0 : ℚ) ≤ r := by positivity
  rcases lt_trichotomy (2 * r) b with h | h | h
  · rw [if_neg (by omega)]
    apply nearInt_of_lt
    have : (2 : ℚ) * r < b := by exact_mod_cast h
    rw [add_sub_cancel_left, abs_of_nonneg (by positivity), div_lt_iff₀ hbq]
    linarith
  · have h' : (2 : ℚ) * r = b := by exact_mod_cast h
    have ht : (r : ℚ) / b = 1 / 2 := by
      rw [div_eq_iff hbq.ne']; linarith
    rw [ht]
    by_cases hq : q % 2 = 1
    · rw [if_pos (Or.inr ⟨h, hq⟩)]
      apply nearInt_of_eq _ _ _ (by omega)
      push_cast
      rw [abs_of_nonpos (by linarith)]; ring
    · rw [if_neg (by omega)]
      apply nearInt_of_eq _ _ _ (by omega)
      rw [add_sub_cancel_left]; norm_num
  · rw [if_pos (Or.inl h)]
    apply nearInt_of_lt
    have : (b : ℚ) < 2 * r := by exact_mod_cast h
    have ht : (r : ℚ) / b < 1 := by rw [div_lt_one hbq]; exact hrq
    have ht2 : 1 / 2 < (r : ℚ) / b := by rw [lt_div_iff₀ hbq]; linarith
    push_cast
    rw [abs_of_nonpos (by linarith)]
    linarith


/-! ### the pieces of `roundBits` -/

private theorem two_zpow_toNat (e : ℤ) (h : 0 ≤ e) : (2 : ℚ) ^ e = ((2 ^ e.toNat : ℕ) : ℚ) := by
  have : e = (e.toNat : ℤ) := (Int.toNat_of_nonneg h).symm
  conv_lhs => rw [this]
  rw [zpow_natCast]; push_cast; rfl

private theorem two_zpow_neg_toNat (e : ℤ) (h : e ≤ 0) : (2 : ℚ) ^ e = (((2 ^ (-e).toNat : ℕ) : ℚ))⁻¹ := by
  rw [← two_zpow_toNat (-e) (by omega), zpow_neg, inv_inv]

theorem two_zpow_le_ratio_iff (num den : ℕ) (hd : 0 < den) (e : ℤ) :
    (2 : ℚ) ^ e ≤ (num : ℚ) / den ↔
      if e ≥ 0 then den * 2 ^ e.toNat ≤ num else den ≤ num * 2 ^ (-e).toNat := by
  have hdq : (0 : ℚ) < den := by exact_mod_cast hd
  split
  · rename_i h
    rw [two_zpow_toNat e h, le_div_iff₀ hdq, mul_comm]
    norm_cast
  · rename_i h
    have hP : (0 : ℚ) < ((2 ^ (-e).toNat : ℕ) : ℚ) := by positivity
    rw [two_zpow_neg_toNat e (by omega), le_div_iff₀ hdq, inv_mul_le_iff₀ hP, mul_comm]
    norm_cast

theorem floorLog2Ratio_spec (num den : ℕ) (hn : 0 < num) (hd : 0 < den) :
    (2 : ℚ) ^ (floorLog2Ratio num den) ≤ (num : ℚ) / den ∧
      (num : ℚ) / den < (2 : ℚ) ^ (floorLog2Ratio num den + 1) := by
  have hdq : (0 : ℚ) < den := by exact_mod_cast hd
  have key : floorLog2Ratio num den =
      if (2 : ℚ) ^ ((num.log2 : ℤ) - (den.log2 : ℤ)) ≤ (num : ℚ) / den
      then (num.log2 : ℤ) - (den.log2 : ℤ) else (num.log2 : ℤ) - (den.log2 : ℤ) - 1 := by
    simp only [two_zpow_le_ratio_iff num den hd]
    unfold floorLog2Ratio
    by_cases he : (num.log2 : ℤ) - (den.log2 : ℤ) ≥ 0
    · simp only [he, if_true, decide_eq_true_eq, ge_iff_le]
    · simp only [he, if_false, decide_eq_true_eq, ge_iff_le]
  rw [key]
  have h1 : ((2 ^ num.log2 : ℕ) : ℚ) ≤ num := by exact_mod_cast Nat.log2_self_le hn.ne'
  have h2 : (num : ℚ) < ((2 ^ (num.log2 + 1) : ℕ) : ℚ) := by exact_mod_cast Nat.lt_log2_self
  have h3 : ((2 ^ den.log2 : ℕ) : ℚ) ≤ den := by exact_mod_cast Nat.log2_self_le hd.ne'
  have h4 : (den : ℚ) < ((2 ^ (den.log2 + 1) : ℕ) : ℚ) := by exact_mod_cast Nat.lt_log2_self
  generalize num.log2 = a at *
  generalize den.log2 = c at *
  push_cast at h1 h2 h3 h4
  have two_ne : (2 : ℚ) ≠ 0 := by norm_num
  -- upper bound
  have hup : (num : ℚ) / den < (2 : ℚ) ^ ((a : ℤ) - c + 1) := by
    rw [div_lt_iff₀ hdq]
    have e1 : (2 : ℚ) ^ ((a : ℤ) - c + 1) * (2 : ℚ) ^ c = (2 : ℚ) ^ (a + 1) := by
      rw [← zpow_natCast, ← zpow_natCast, ← zpow_add₀ two_ne]; congr 1; push_cast; ring
    have : (0 : ℚ) < (2 : ℚ) ^ ((a : ℤ) - c + 1) := zpow_pos (by norm_num) _
    nlinarith
  have hlow : (2 : ℚ) ^ ((a : ℤ) - c - 1) ≤ (num : ℚ) / den := by
    rw [le_div_iff₀ hdq]
    have e1 : (2 : ℚ) ^ ((a : ℤ) - c - 1) * (2 : ℚ) ^ (c + 1) = (2 : ℚ) ^ a := by
      rw [← zpow_natCast, ← zpow_natCast (2 : ℚ) a, ← zpow_add₀ two_ne]; congr 1; push_cast; ring
    have : (0 : ℚ) < (2 : ℚ) ^ ((a : ℤ) - c - 1) := zpow_pos (by norm_num) _
    nlinarith
  split
  · rename_i h; exact ⟨h, hup⟩
  · rename_i h
    refine ⟨hlow, ?_⟩
    rw [sub_add_cancel]; exact not_le.mp h

theorem roundScaled_spec (num den : ℕ) (hd : 0 < den) (s : ℤ) :
    NearInt ((num : ℚ) / den / (2 : ℚ) ^ s)
      (if s ≥ 0 then roundHalfEven num (den * 2 ^ s.toNat)
        else roundHalfEven (num * 2 ^ (-s).toNat) den) := by
  split
  · rename_i h
    have := roundHalfEven_spec num (den * 2 ^ s.toNat) (by positivity)
    rw [two_zpow_toNat s h, div_div]
    exact_mod_cast this
  · rename_i h
    have := roundHalfEven_spec (num * 2 ^ (-s).toNat) den hd
    rw [two_zpow_neg_toNat s (by omega), div_inv_eq_mul, div_mul_eq_mul_div]
    exact_mod_cast this

theorem roundBits_char (num den : ℕ) (hn : 0 < num) (hd : 0 < den) :
    ∃ E m : ℕ, roundBits num den = E * 2 ^ 52 + m ∧
      NearInt ((num : ℚ) / den / (2 : ℚ) ^ ((E : ℤ) - 1074)) m ∧
      (num : ℚ) / den < (2 : ℚ) ^ ((E : ℤ) - 1021) ∧
      (1 ≤ E → (2 : ℚ) ^ ((E : ℤ) - 1022) ≤ (num : ℚ) / den) := by
  obtain ⟨hlo, hhi⟩ := floorLog2Ratio_spec num den hn hd
  unfold roundBits
  generalize floorLog2Ratio num den = e at *
  generalize hx : (num : ℚ) / den = x at *
  obtain ⟨eb, heb, hge⟩ : ∃ eb : ℤ, (if e < -1022 then -1022 else e) = eb ∧ -1022 ≤ eb :=
    ⟨_, rfl, by split <;> omega⟩
  simp only [heb]
  have hE : ((eb + 1022).toNat : ℤ) = eb + 1022 := Int.toNat_of_nonneg (by omega)
  refine ⟨(eb + 1022).toNat, _, rfl, ?_, ?_, ?_⟩
  · have : ((eb + 1022).toNat : ℤ) - 1074 = eb - 52 := by omega
    rw [this, ← hx]
    exact roundScaled_spec num den hd (eb - 52)
  · have : e + 1 ≤ ((eb + 1022).toNat : ℤ) - 1021 := by
      rw [hE]; split at heb <;> omega
    exact lt_of_lt_of_le hhi (zpow_le_zpow_right₀ (by norm_num) this)
  · intro h1
    have : ((eb + 1022).toNat : ℤ) - 1022 = e := by
      rw [hE]; split at heb <;> omega
    rw [this]; exact hlo


/-! ### `decodePos` -/


private theorem two_ne : (2 : ℚ) ≠ 0 := by norm_num
private theorem two_zpow_pos (e : ℤ) : (0 : ℚ) < (2 : ℚ) ^ e := zpow_pos (by norm_num) e
private theorem two_zpow_succ (e : ℤ) : (2 : ℚ) ^ (e + 1) = 2 * (2 : ℚ) ^ e := by
  rw [zpow_add_one₀ two_ne, mul_comm]

theorem decodePos_sub (M : ℕ) (hM : M < 2 ^ 52) : decodePos M = (M : ℚ) * (2 : ℚ) ^ (-1074 : ℤ) := by
  unfold decodePos
  rw [if_pos (by omega)]
  have : M % 2 ^ 52 = M := by omega
  rw [this]

theorem decodePos_norm (F M : ℕ) (hF : 1 ≤ F) (hM : M < 2 ^ 52) :
    decodePos (F * 2 ^ 52 + M) = ((2 : ℚ) ^ 52 + M) * (2 : ℚ) ^ ((F : ℤ) - 1075) := by
  unfold decodePos
  have h1 : (F * 2 ^ 52 + M) / 2 ^ 52 = F := by omega
  have h2 : (F * 2 ^ 52 + M) % 2 ^ 52 = M := by omega
  rw [h1, h2, if_neg (by omega)]
  push_cast; rfl

theorem decodePos_enc (E m : ℕ) (h1 : m ≤ 2 ^ 53) (h2 : 1 ≤ E → 2 ^ 52 ≤ m) :
    decodePos (E * 2 ^ 52 + m) = (m : ℚ) * (2 : ℚ) ^ ((E : ℤ) - 1074) := by
  by_cases hm : m < 2 ^ 52
  · have hE : E = 0 := by
      by_contra h; have := h2 (by omega); omega
    subst hE
    rw [Nat.zero_mul, Nat.zero_add, decodePos_sub m hm]
    norm_num
  · by_cases hm2 : m < 2 ^ 53
    · have : E * 2 ^ 52 + m = (E + 1) * 2 ^ 52 + (m - 2 ^ 52) := by omega
      rw [this, decodePos_norm (E + 1) (m - 2 ^ 52) (by omega) (by omega)]
      have e1 : (((E + 1 : ℕ) : ℤ)) - 1075 = (E : ℤ) - 1074 := by push_cast; ring
      have e2 : ((m - 2 ^ 52 : ℕ) : ℚ) = (m : ℚ) - 2 ^ 52 := by
        rw [Nat.cast_sub (by omega)]; norm_num
      rw [e1, e2]; ring
    · have hm3 : m = 2 ^ 53 := by omega
      have : E * 2 ^ 52 + m = (E + 2) * 2 ^ 52 + 0 := by omega
      rw [this, decodePos_norm (E + 2) 0 (by omega) (by omega)]
      have e1 : (((E + 2 : ℕ) : ℤ)) - 1075 = (E : ℤ) - 1074 + 1 := by push_cast; ring
      rw [e1, two_zpow_succ, hm3]
      push_cast; ring

theorem decodePos_lt_succ (b : ℕ) : decodePos b < decodePos (b + 1) := by
  obtain ⟨F, M, hM, rfl⟩ : ∃ F M : ℕ, M < 2 ^ 52 ∧ b = F * 2 ^ 52 + M :=
    ⟨b / 2 ^ 52, b % 2 ^ 52, by omega, by omega⟩
  have hMq : (M : ℚ) < 2 ^ 52 := by exact_mod_cast hM
  by_cases hF : F = 0
  · subst hF
    rw [Nat.zero_mul, Nat.zero_add, decodePos_sub M hM]
    have hu := two_zpow_pos (-1074)
    by_cases hM1 : M + 1 < 2 ^ 52
    · rw [decodePos_sub (M + 1) hM1]
      apply mul_lt_mul_of_pos_right _ hu
      push_cast; linarith
    · have : M + 1 = 1 * 2 ^ 52 + 0 := by omega
      rw [this, decodePos_norm 1 0 (by omega) (by omega)]
      have e1 : (((1 : ℕ) : ℤ)) - 1075 = -1074 := by norm_num
      rw [e1, Nat.cast_zero, add_zero]
      exact mul_lt_mul_of_pos_right hMq hu
  · have hF1 : 1 ≤ F := by omega
    rw [decodePos_norm F M hF1 hM]
    have hu := two_zpow_pos ((F : ℤ) - 1075)
    by_cases hM1 : M + 1 < 2 ^ 52
    · rw [Nat.add_assoc, decodePos_norm F (M + 1) hF1 hM1]
      apply mul_lt_mul_of_pos_right _ hu
      push_cast; linarith
    · have : F * 2 ^ 52 + M + 1 = (F + 1) * 2 ^ 52 + 0 := by omega
      rw [this, decodePos_norm (F + 1) 0 (by omega) (by omega)]
      have e1 : (((F + 1 : ℕ) : ℤ)) - 1075 = (F : ℤ) - 1075 + 1 := by push_cast; ring
      rw [e1, two_zpow_succ, Nat.cast_zero, add_zero, ← mul_assoc]
      apply mul_lt_mul_of_pos_right _ hu
      linarith

/-- 4 -/
theorem decodePos_lt (a b : Nat) (h : a < b) : decodePos a < decodePos b := by
  obtain ⟨d, rfl⟩ : ∃ d, b = a + 1 + d := ⟨b - (a + 1), by omega⟩
  clear h
  induction d with
  | zero => exact decodePos_lt_succ a
  | succ d ih => exact lt_trans ih (decodePos_lt_succ _)

theorem decodePos_injective {a b : ℕ} (h : decodePos a = decodePos b) : a = b := by
  rcases lt_trichotomy a b with hlt | heq | hgt
  · exact absurd h (decodePos_lt a b hlt).ne
  · exact heq
  · exact absurd h (decodePos_lt b a hgt).ne'

theorem decodePos_grid (E b' : ℕ) :
    (∃ k : ℕ, decodePos b' = (k : ℚ) * (2 : ℚ) ^ ((E : ℤ) - 1074)) ∨
      (1 ≤ E ∧ decodePos b' < (2 : ℚ) ^ 52 * (2 : ℚ) ^ ((E : ℤ) - 1074)) := by
  obtain ⟨F, M, hM, rfl⟩ : ∃ F M : ℕ, M < 2 ^ 52 ∧ b' = F * 2 ^ 52 + M :=
    ⟨b' / 2 ^ 52, b' % 2 ^ 52, by omega, by omega⟩
  have hMq : (M : ℚ) < 2 ^ 52 := by exact_mod_cast hM
  have hM0 : (0 : ℚ) ≤ M := by positivity
  by_cases hF : F = 0
  · subst hF
    rw [Nat.zero_mul, Nat.zero_add, decodePos_sub M hM]
    by_cases hE : E = 0
    · subst hE; left; exact ⟨M, by norm_num⟩
    · right
      refine ⟨by omega, ?_⟩
      have h1 : (2 : ℚ) ^ (-1074 : ℤ) ≤ (2 : ℚ) ^ ((E : ℤ) - 1074) :=
        zpow_le_zpow_right₀ (by norm_num) (by omega)
      have := two_zpow_pos (-1074)
      nlinarith
  · have hF1 : 1 ≤ F := by omega
    rw [decodePos_norm F M hF1 hM]
    by_cases hFE : E + 1 ≤ F
    · left
      obtain ⟨d, rfl⟩ : ∃ d, F = E + 1 + d := ⟨F - (E + 1), by omega⟩
      refine ⟨(2 ^ 52 + M) * 2 ^ d, ?_⟩
      have e1 : (((E + 1 + d : ℕ) : ℤ)) - 1075 = (d : ℤ) + ((E : ℤ) - 1074) := by push_cast; ring
      rw [e1, zpow_add₀ two_ne, zpow_natCast]
      push_cast; ring
    · right
      refine ⟨by omega, ?_⟩
      have h1 : (2 : ℚ) ^ ((F : ℤ) - 1075) ≤ (2 : ℚ) ^ ((E : ℤ) - 1075) :=
        zpow_le_zpow_right₀ (by norm_num) (by omega)
      have e1 : (E : ℤ) - 1074 = (E : ℤ) - 1075 + 1 := by ring
      rw [e1, two_zpow_succ]
      have := two_zpow_pos ((F : ℤ) - 1075)
      have h3 := two_zpow_pos ((E : ℤ) - 1075)
      nlinarith


/-! ### the theorems -/

private theorem abs_sub_natCast_mul (x u : ℚ) (hu : 0 < u) (k : ℕ) :
    |x - (k : ℚ) * u| = u * |x / u - k| := by
  have : x - (k : ℚ) * u = u * (x / u - k) := by
    rw [mul_sub, mul_div_cancel₀ _ hu.ne', mul_comm]
  rw [this, abs_mul, abs_of_pos hu]

/-- what `roundBits_char` gives, with the mantissa bounds and the decoded value added -/
theorem roundBits_char' (num den : ℕ) (hn : 0 < num) (hd : 0 < den) :
    ∃ E m : ℕ, roundBits num den = E * 2 ^ 52 + m ∧
      NearInt ((num : ℚ) / den / (2 : ℚ) ^ ((E : ℤ) - 1074)) m ∧
      (num : ℚ) / den < (2 : ℚ) ^ 53 * (2 : ℚ) ^ ((E : ℤ) - 1074) ∧
      (1 ≤ E → (2 : ℚ) ^ 52 * (2 : ℚ) ^ ((E : ℤ) - 1074) ≤ (num : ℚ) / den) ∧
      m ≤ 2 ^ 53 ∧ (1 ≤ E → 2 ^ 52 ≤ m) ∧
      decodePos (roundBits num den) = (m : ℚ) * (2 : ℚ) ^ ((E : ℤ) - 1074) := by
  obtain ⟨E, m, hrb, hnear, hhi, hlo⟩ := roundBits_char num den hn hd
  generalize (num : ℚ) / den = x at *
  have hu := two_zpow_pos ((E : ℤ) - 1074)
  have e1 : (2 : ℚ) ^ ((E : ℤ) - 1021) = (2 : ℚ) ^ 53 * (2 : ℚ) ^ ((E : ℤ) - 1074) := by
    rw [← zpow_natCast (2 : ℚ) 53, ← zpow_add₀ two_ne]; congr 1; push_cast; ring
  have e2 : (2 : ℚ) ^ ((E : ℤ) - 1022) = (2 : ℚ) ^ 52 * (2 : ℚ) ^ ((E : ℤ) - 1074) := by
    rw [← zpow_natCast (2 : ℚ) 52, ← zpow_add₀ two_ne]; congr 1; push_cast; ring
  rw [e1] at hhi
  rw [e2] at hlo
  have hm_hi : m ≤ 2 ^ 53 := by
    apply hnear.le (2 ^ 53)
    rw [div_le_iff₀ hu]; push_cast; exact hhi.le
  have hm_lo : 1 ≤ E → 2 ^ 52 ≤ m := by
    intro h
    apply hnear.ge (2 ^ 52)
    rw [le_div_iff₀ hu]; push_cast; exact hlo h
  refine ⟨E, m, hrb, hnear, hhi, hlo, hm_hi, hm_lo, ?_⟩
  rw [hrb]; exact decodePos_enc E m hm_hi hm_lo

/-- 1 -/
theorem roundBits_nearestEven (num den : Nat) (hn : 0 < num) (hd : 0 < den) :
    NearestEven ((num : ℚ) / den) (roundBits num den) := by
  obtain ⟨E, m, hrb, hnear, hhi, hlo, hm_hi, hm_lo, hdec⟩ := roundBits_char' num den hn hd
  generalize (num : ℚ) / den = x at *
  have hu := two_zpow_pos ((E : ℤ) - 1074)
  intro b'
  rw [hdec]
  rcases decodePos_grid E b' with ⟨k, hk⟩ | ⟨hE, hlt⟩
  · rw [hk, abs_sub_natCast_mul x _ hu, abs_sub_natCast_mul x _ hu]
    obtain ⟨h1, h2⟩ := hnear k
    refine ⟨mul_le_mul_of_nonneg_left h1 hu.le, fun he hne => ?_⟩
    have hkm : k ≠ m := by
      rintro rfl
      exact hne (decodePos_injective (hk.trans hdec.symm))
    have := h2 (mul_left_cancel₀ hu.ne' he) hkm
    rw [hrb]; omega
  · have h52 := hlo hE
    have h1 := (hnear (2 ^ 52)).1
    have h2 : |x - (m : ℚ) * (2 : ℚ) ^ ((E : ℤ) - 1074)|
        ≤ x - (2 : ℚ) ^ 52 * (2 : ℚ) ^ ((E : ℤ) - 1074) := by
      rw [abs_sub_natCast_mul x _ hu]
      have h3 : |x / (2 : ℚ) ^ ((E : ℤ) - 1074) - ((2 ^ 52 : ℕ) : ℚ)|
          = x / (2 : ℚ) ^ ((E : ℤ) - 1074) - (2 : ℚ) ^ 52 := by
        push_cast
        apply abs_of_nonneg
        rw [sub_nonneg, le_div_iff₀ hu]; exact h52
      rw [h3] at h1
      calc _ ≤ (2 : ℚ) ^ ((E : ℤ) - 1074) * (x / (2 : ℚ) ^ ((E : ℤ) - 1074) - (2 : ℚ) ^ 52) :=
            mul_le_mul_of_nonneg_left h1 hu.le
        _ = _ := by rw [mul_sub, mul_div_cancel₀ _ hu.ne', mul_comm]
    have h4 : |x - (m : ℚ) * (2 : ℚ) ^ ((E : ℤ) - 1074)| < |x - decodePos b'| :=
      lt_of_le_of_lt h2 (lt_of_lt_of_le (by linarith) (le_abs_self _))
    exact ⟨h4.le, fun he => absurd he h4.ne⟩

/-- 2: overflow exactly from MaxFloat64 + half an ulp on -/
theorem roundBits_lt_bitsInf_iff (num den : Nat) (hn : 0 < num) (hd : 0 < den) :
    roundBits num den < bitsInf ↔ (num : ℚ) / den < 2 ^ 1024 - 2 ^ 970 := by
  obtain ⟨E, m, hrb, hnear, hhi, hlo, hm_hi, hm_lo, -⟩ := roundBits_char' num den hn hd
  generalize (num : ℚ) / den = x at *
  have hinf : bitsInf = 2047 * 2 ^ 52 := by unfold bitsInf; norm_num
  rw [hrb, hinf]
  have e1024 : (2 : ℚ) ^ 1024 = 2 ^ 54 * 2 ^ 970 := by rw [← pow_add]
  have e971 : (2 : ℚ) ^ 971 = 2 * 2 ^ 970 := by rw [← pow_succ']
  have e972 : (2 : ℚ) ^ (972 : ℤ) = 4 * 2 ^ 970 := by
    have : (972 : ℤ) = ((972 : ℕ) : ℤ) := by norm_num
    rw [this, zpow_natCast, show (972 : ℕ) = 2 + 970 by norm_num, pow_add]; norm_num
  have e970 : (2 : ℚ) ^ (970 : ℤ) = 2 ^ 970 := by
    have : (970 : ℤ) = ((970 : ℕ) : ℤ) := by norm_num
    rw [this, zpow_natCast]
  rw [e1024]
  have hp : (0 : ℚ) < 2 ^ 970 := by positivity
  generalize (2 : ℚ) ^ 970 = p at *
  have hu := two_zpow_pos ((E : ℤ) - 1074)
  rcases lt_trichotomy E 2045 with hE | hE | hE
  · -- everything finite
    have h1 : (2 : ℚ) ^ ((E : ℤ) - 1074) ≤ (2 : ℚ) ^ (970 : ℤ) :=
      zpow_le_zpow_right₀ (by norm_num) (by omega)
    rw [e970] at h1
    generalize (2 : ℚ) ^ ((E : ℤ) - 1074) = u at *
    clear e1024 e971 e972 e970
    constructor
    · intro _; linarith
    · intro _; omega
  · subst hE
    have hE1 : ((2045 : ℕ) : ℤ) - 1074 = ((971 : ℕ) : ℤ) := by norm_num
    rw [hE1, zpow_natCast, e971] at hnear
    have hiff := hnear.le_odd_iff (2 ^ 53 - 1) (by norm_num)
    rw [div_lt_iff₀ (by positivity)] at hiff
    have eN : ((2 ^ 53 - 1 : ℕ) : ℚ) = 2 ^ 53 - 1 := by norm_num
    have e3 : (((2 ^ 53 - 1 : ℕ) : ℚ) + 1 / 2) * (2 * p) = 2 ^ 54 * p - p := by
      rw [eN]; ring
    rw [e3] at hiff
    rw [← hiff]
    omega
  · -- overflow
    have hE' : 1 ≤ E := by omega
    have h1 : (2 : ℚ) ^ (972 : ℤ) ≤ (2 : ℚ) ^ ((E : ℤ) - 1074) :=
      zpow_le_zpow_right₀ (by norm_num) (by omega)
    rw [e972] at h1
    have h2 := hlo hE'
    have := hm_lo hE'
    generalize (2 : ℚ) ^ ((E : ℤ) - 1074) = u at *
    clear e1024 e971 e972 e970
    constructor
    · intro _; omega
    · intro _; linarith

/-- 3: rounds to zero exactly up to half the smallest subnormal (the tie goes to the even
pattern 0) -/
theorem roundBits_eq_zero_iff (num den : Nat) (hn : 0 < num) (hd : 0 < den) :
    roundBits num den = 0 ↔ (num : ℚ) / den ≤ (2 : ℚ) ^ (-1075 : ℤ) := by
  obtain ⟨E, m, hrb, hnear, hhi, hlo, hm_hi, hm_lo, -⟩ := roundBits_char' num den hn hd
  have hx0 : (0 : ℚ) < (num : ℚ) / den := by positivity
  generalize (num : ℚ) / den = x at *
  rw [hrb]
  have e0 : (2 : ℚ) ^ (-1074 : ℤ) = 2 * (2 : ℚ) ^ (-1075 : ℤ) := by
    rw [← two_zpow_succ]; norm_num
  have hv := two_zpow_pos (-1075)
  by_cases hE : E = 0
  · subst hE
    have hE1 : ((0 : ℕ) : ℤ) - 1074 = -1074 := by norm_num
    rw [hE1] at hnear
    have hu := two_zpow_pos (-1074)
    have hiff := hnear.eq_zero_iff (div_nonneg hx0.le hu.le)
    rw [div_le_iff₀ hu, e0] at hiff
    have e1 : (1 : ℚ) / 2 * (2 * (2 : ℚ) ^ (-1075 : ℤ)) = (2 : ℚ) ^ (-1075 : ℤ) := by ring
    rw [e1] at hiff
    rw [← hiff]; omega
  · have hE' : 1 ≤ E := by omega
    have h1 : (2 : ℚ) ^ (-1074 : ℤ) ≤ (2 : ℚ) ^ ((E : ℤ) - 1074) :=
      zpow_le_zpow_right₀ (by norm_num) (by omega)
    have h2 := hlo hE'
    have h3 : (1 : ℚ) ≤ (2 : ℚ) ^ 52 := one_le_pow₀ (by norm_num)
    have := hm_lo hE'
    constructor
    · intro _; omega
    · intro hx
      have hu := two_zpow_pos ((E : ℤ) - 1074)
      nlinarith

/-- 5: the nearest-even pattern is unique -/
theorem nearestEven_unique (x : ℚ) (b₁ b₂ : Nat) (h₁ : NearestEven x b₁) (h₂ : NearestEven x b₂) :
    b₁ = b₂ := by
  by_contra hne
  wlog hlt : b₁ < b₂ generalizing b₁ b₂
  · exact this b₂ b₁ h₂ h₁ (Ne.symm hne) (by omega)
  have heq : |x - decodePos b₁| = |x - decodePos b₂| := le_antisymm (h₁ b₂).1 (h₂ b₁).1
  have e1 := (h₁ b₂).2 heq (Ne.symm hne)
  have e2 := (h₂ b₁).2 heq.symm hne
  have hlt1 : b₁ < b₁ + 1 := by omega
  have hlt2 : b₁ + 1 < b₂ := by omega
  have d1 := decodePos_lt _ _ hlt1
  have d2 := decodePos_lt _ _ hlt2
  have m1 := (h₁ (b₁ + 1)).1
  have m2 := (h₂ (b₁ + 1)).1
  rcases abs_cases (x - decodePos b₁) with ⟨a1, _⟩ | ⟨a1, _⟩ <;>
  rcases abs_cases (x - decodePos b₂) with ⟨a2, _⟩ | ⟨a2, _⟩ <;>
  rcases abs_cases (x - decodePos (b₁ + 1)) with ⟨a3, _⟩ | ⟨a3, _⟩ <;>
  rw [a1, a2] at heq <;> rw [a1, a3] at m1 <;> rw [a2, a3] at m2 <;> linarith

/-! ### literals: `Lit.bits` against the value -/


/-- the rational a decimal literal `mant × 10^exp10` denotes -/
def decValue (m : Nat) (e : Int) : ℚ := (m : ℚ) * (10 : ℚ) ^ e

/-- the rational a hexadecimal literal `mant × 2^exp2` denotes -/
def hexValue (m : Nat) (e : Int) : ℚ := (m : ℚ) * (2 : ℚ) ^ e

set_option exponentiation.threshold 1100 in
private theorem num_fact1 : (2 : ℕ) ^ 1024 ≤ 10 ^ 310 := by norm_num

set_option exponentiation.threshold 1100 in
private theorem num_fact2 : (2 : ℕ) ^ 1075 ≤ 10 ^ 331 := by norm_num

private theorem two_pow_1024_le : (2 : ℚ) ^ 1024 ≤ (10 : ℚ) ^ (310 : ℤ) := by
  have : (310 : ℤ) = ((310 : ℕ) : ℤ) := by norm_num
  rw [this, zpow_natCast]
  exact_mod_cast num_fact1

private theorem ten_zpow_neg331_le : (10 : ℚ) ^ (-331 : ℤ) ≤ (2 : ℚ) ^ (-1075 : ℤ) := by
  have e1 : (-331 : ℤ) = -((331 : ℕ) : ℤ) := by norm_num
  have e2 : (-1075 : ℤ) = -((1075 : ℕ) : ℤ) := by norm_num
  rw [e1, e2, zpow_neg, zpow_neg, zpow_natCast, zpow_natCast]
  apply inv_anti₀ (by positivity)
  exact_mod_cast num_fact2

private theorem one_lt_thr : (1 : ℚ) < 2 ^ 1024 - 2 ^ 970 := by
  have e1024 : (2 : ℚ) ^ 1024 = 2 ^ 54 * 2 ^ 970 := by rw [← pow_add]
  have h1 : (1 : ℚ) ≤ 2 ^ 970 := one_le_pow₀ (by norm_num)
  rw [e1024]
  generalize (2 : ℚ) ^ 970 = p at *
  clear e1024
  norm_num
  linarith

private theorem thr_lt : (2 : ℚ) ^ 1024 - 2 ^ 970 < 2 ^ 1024 := by
  have : (0 : ℚ) < 2 ^ 970 := by positivity
  generalize (2 : ℚ) ^ 970 = p at *
  generalize (2 : ℚ) ^ 1024 = q at *
  linarith

private theorem two_zpow_neg1075_le_one : (2 : ℚ) ^ (-1075 : ℤ) ≤ 1 := by
  have : (2 : ℚ) ^ (-1075 : ℤ) ≤ (2 : ℚ) ^ (0 : ℤ) := zpow_le_zpow_right₀ (by norm_num) (by norm_num)
  rwa [zpow_zero] at this

/-- `roundBits` is fed a fraction equal to `m × B^e` -/
theorem scaled_ratio (B m : ℕ) (hB : 0 < B) (hm : 0 < m) (e : ℤ) :
    ∃ num den : ℕ, 0 < num ∧ 0 < den ∧ (num : ℚ) / den = (m : ℚ) * (B : ℚ) ^ e ∧
      (if e ≥ 0 then roundBits (m * B ^ e.toNat) 1 else roundBits m (B ^ (-e).toNat))
        = roundBits num den := by
  by_cases h : e ≥ 0
  · refine ⟨m * B ^ e.toNat, 1, by positivity, Nat.one_pos, ?_, by rw [if_pos h]⟩
    have : e = (e.toNat : ℤ) := (Int.toNat_of_nonneg h).symm
    conv_rhs => rw [this]
    rw [zpow_natCast]; push_cast; rw [div_one]
  · refine ⟨m, B ^ (-e).toNat, hm, by positivity, ?_, by rw [if_neg h]⟩
    have : e = -((-e).toNat : ℤ) := by omega
    conv_rhs => rw [this]
    rw [zpow_neg, zpow_natCast]; push_cast; rfl

theorem scaled_bounds (B : ℚ) (hB : 1 < B) (m : ℚ) (a b : ℕ) (h1 : B ^ a ≤ m) (h2 : m < B ^ b)
    (e : ℤ) : B ^ ((a : ℤ) + e) ≤ m * B ^ e ∧ m * B ^ e < B ^ ((b : ℤ) + e) := by
  have hB0 : (0 : ℚ) < B := by linarith
  have hu : (0 : ℚ) < B ^ e := zpow_pos hB0 e
  rw [zpow_add₀ hB0.ne', zpow_add₀ hB0.ne', zpow_natCast, zpow_natCast]
  exact ⟨mul_le_mul_of_nonneg_right h1 hu.le, mul_lt_mul_of_pos_right h2 hu⟩

/-- the common shape of the two finite branches of `Lit.bits` -/
theorem bits_spec_core (neg : Bool) (num den : ℕ) (hn : 0 < num) (hd : 0 < den) (x : ℚ)
    (hx : (num : ℚ) / den = x) (ov un : Prop) [Decidable ov] [Decidable un]
    (hov : ov → (2 : ℚ) ^ 1024 ≤ x) (hun : un → x ≤ (2 : ℚ) ^ (-1075 : ℤ)) :
    (x < 2 ^ 1024 - 2 ^ 970 →
        ∃ b, b < bitsInf ∧ NearestEven x b ∧
          (if ov then none else if un then some (withSign neg 0)
            else if roundBits num den ≥ bitsInf then none
            else some (withSign neg (roundBits num den))) = some (withSign neg b)) ∧
    (2 ^ 1024 - 2 ^ 970 ≤ x →
        (if ov then none else if un then some (withSign neg 0)
            else if roundBits num den ≥ bitsInf then none
            else some (withSign neg (roundBits num den))) = (none : Option Nat)) := by
  have hne := roundBits_nearestEven num den hn hd
  have hinf := roundBits_lt_bitsInf_iff num den hn hd
  have hzero := roundBits_eq_zero_iff num den hn hd
  rw [hx] at hne hinf hzero
  have h1 := one_lt_thr
  have h2 := thr_lt
  have h3 := two_zpow_neg1075_le_one
  generalize (2 : ℚ) ^ 1024 - 2 ^ 970 = thr at *
  generalize (2 : ℚ) ^ 1024 = big at *
  generalize (2 : ℚ) ^ (-1075 : ℤ) = tiny at *
  constructor
  · intro hlt
    have hov' : ¬ ov := fun h => by have := hov h; linarith
    rw [if_neg hov']
    by_cases hu : un
    · rw [if_pos hu]
      have hR := hzero.mpr (hun hu)
      rw [hR] at hne
      exact ⟨0, by unfold bitsInf; norm_num, hne, rfl⟩
    · rw [if_neg hu]
      have hR := hinf.mpr hlt
      rw [if_neg (by omega)]
      exact ⟨_, hR, hne, rfl⟩
  · intro hge
    by_cases ho : ov
    · rw [if_pos ho]
    · rw [if_neg ho]
      have hu : ¬ un := fun h => by have := hun h; linarith
      rw [if_neg hu]
      have hR : ¬ roundBits num den < bitsInf := fun h => by have := hinf.mp h; linarith
      rw [if_pos (by omega)]

theorem dec_bits_spec (neg : Bool) (m nd : Nat) (e : Int)
    (hnd : 0 < nd ∧ 10 ^ (nd - 1) ≤ m ∧ m < 10 ^ nd) :
    (decValue m e < 2 ^ 1024 - 2 ^ 970 →
        ∃ b, b < bitsInf ∧ NearestEven (decValue m e) b ∧ (Lit.dec neg m nd e).bits = some (withSign neg b)) ∧
    (2 ^ 1024 - 2 ^ 970 ≤ decValue m e → (Lit.dec neg m nd e).bits = none) := by
  obtain ⟨hnd0, hlo, hhi⟩ := hnd
  have hm : 0 < m := lt_of_lt_of_le (by positivity) hlo
  obtain ⟨num, den, hn, hd, hx, hrb⟩ := scaled_ratio 10 m (by norm_num) hm e
  have hx' : (num : ℚ) / den = decValue m e := by rw [hx]; unfold decValue; norm_num
  have hbits : (Lit.dec neg m nd e).bits =
      if (nd : ℤ) + e > 310 then none else if (nd : ℤ) + e < -330 then some (withSign neg 0)
        else if roundBits num den ≥ bitsInf then none
        else some (withSign neg (roundBits num den)) := by
    rw [Lit.bits, if_neg (by simp only [beq_iff_eq]; omega)]
    simp only [hrb]
  rw [hbits]
  have hb := scaled_bounds (10 : ℚ) (by norm_num) (m : ℚ) (nd - 1) nd
    (by exact_mod_cast hlo) (by exact_mod_cast hhi) e
  apply bits_spec_core neg num den hn hd _ hx'
  · intro hov
    have : (10 : ℚ) ^ (310 : ℤ) ≤ (10 : ℚ) ^ (((nd - 1 : ℕ) : ℤ) + e) :=
      zpow_le_zpow_right₀ (by norm_num) (by omega)
    exact le_trans two_pow_1024_le (le_trans this hb.1)
  · intro hun
    have : (10 : ℚ) ^ ((nd : ℤ) + e) ≤ (10 : ℚ) ^ (-331 : ℤ) :=
      zpow_le_zpow_right₀ (by norm_num) (by omega)
    exact le_trans hb.2.le (le_trans this ten_zpow_neg331_le)

theorem hex_bits_spec (neg : Bool) (m : Nat) (e : Int) (hm : m ≠ 0) :
    (hexValue m e < 2 ^ 1024 - 2 ^ 970 →
        ∃ b, b < bitsInf ∧ NearestEven (hexValue m e) b ∧ (Lit.hex neg m e).bits = some (withSign neg b)) ∧
    (2 ^ 1024 - 2 ^ 970 ≤ hexValue m e → (Lit.hex neg m e).bits = none) := by
  have hm0 : 0 < m := Nat.pos_of_ne_zero hm
  obtain ⟨num, den, hn, hd, hx, hrb⟩ := scaled_ratio 2 m (by norm_num) hm0 e
  have hx' : (num : ℚ) / den = hexValue m e := by rw [hx]; unfold hexValue; norm_num
  have hbits : (Lit.hex neg m e).bits =
      if (m.log2 : ℤ) + 1 + e > 1025 then none
        else if (m.log2 : ℤ) + 1 + e < -1080 then some (withSign neg 0)
        else if roundBits num den ≥ bitsInf then none
        else some (withSign neg (roundBits num den)) := by
    rw [Lit.bits, if_neg (by simp only [beq_iff_eq]; omega)]
    simp only [hrb]
  rw [hbits]
  have hb := scaled_bounds (2 : ℚ) (by norm_num) (m : ℚ) m.log2 (m.log2 + 1)
    (by exact_mod_cast Nat.log2_self_le hm) (by exact_mod_cast Nat.lt_log2_self) e
  apply bits_spec_core neg num den hn hd _ hx'
  · intro hov
    have : (2 : ℚ) ^ (1024 : ℤ) ≤ (2 : ℚ) ^ ((m.log2 : ℤ) + e) :=
      zpow_le_zpow_right₀ (by norm_num) (by omega)
    have e1 : (2 : ℚ) ^ (1024 : ℤ) = 2 ^ 1024 := by
      have : (1024 : ℤ) = ((1024 : ℕ) : ℤ) := by norm_num
      rw [this, zpow_natCast]
    rw [e1] at this
    exact le_trans this hb.1
  · intro hun
    have : (2 : ℚ) ^ (((m.log2 + 1 : ℕ) : ℤ) + e) ≤ (2 : ℚ) ^ (-1075 : ℤ) :=
      zpow_le_zpow_right₀ (by norm_num) (by push_cast; omega)
    exact le_trans hb.2.le this


end Crem.Csv
