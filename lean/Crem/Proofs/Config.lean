import Crem.Model.Config
/-!
Helper lemmas for C19 (`Crem/Properties/C19.lean`): how the loaded configuration and the
validated-or-default parameter store read the structured form.
-/
namespace Crem.Config

/-! ## lookups -/

/-- the entry behind a lookup: written with a key that denotes `k` (in a struct table: up to case folding) -/
theorem get_mem {c : Cfg} {s : Sec} {k : String} {v : Val} (h : get c s k = some v) :
    ∃ k', keyIs s k' k = true ∧ (⟨s, k', v⟩ : Entry) ∈ c := by
  induction c with
  | nil => simp [get] at h
  | cons e r ih =>
    unfold get at h
    split at h
    · rename_i hc
      obtain ⟨h1, h2⟩ := hc
      refine ⟨e.key, h2, ?_⟩
      cases e
      simp_all
    · obtain ⟨k', hk, hm⟩ := ih h
      exact ⟨k', hk, List.mem_cons_of_mem _ hm⟩

/-- the field behind a key depends on the folded key only -/
theorem fieldKind_of_keyIs {s : Sec} {k' k : String} (h : keyIs s k' k = true) : fieldKind s k' = fieldKind s k := by
  unfold keyIs at h
  split at h
  · have : foldKey k' = foldKey k := by simpa using h
    simp [fieldKind, this]
  · have : k' = k := by simpa using h
    rw [this]

/-- in a table decoded into a Go map the keys are kept as written -/
theorem getP_params (c : Cfg) (s : Sec) (k : String) (hs : structSec s = false) : getP (params c s) k = get c s k := by
  induction c with
  | nil => simp [params, getP, get]
  | cons e r ih =>
    unfold params get
    by_cases hs' : e.sec = s
    · by_cases hk : e.key = k
      · simp [hs', hk, getP, keyIs, hs]
      · simp [hs', hk, getP, ih, keyIs, hs]
    · simp [hs', ih]

theorem getP_mem {ps : List (String × Val)} {k : String} {v : Val} (h : getP ps k = some v) :
    (k, v) ∈ ps := by
  induction ps with
  | nil => simp [getP] at h
  | cons kv r ih =>
    obtain ⟨k', v'⟩ := kv
    unfold getP at h
    split at h
    · rename_i hk; cases h; simp [hk]
    · exact List.mem_cons_of_mem _ (ih h)

theorem getP_params_A (c : Cfg) (k : String) : getP (params c .annealerParams) k = get c .annealerParams k :=
  getP_params c _ k rfl
theorem getP_params_M (c : Cfg) (k : String) : getP (params c .modelParams) k = get c .modelParams k :=
  getP_params c _ k rfl
theorem getP_params_L (c : Cfg) (k : String) : getP (params c .logDest) k = get c .logDest k :=
  getP_params c _ k rfl

/-! ## loading -/

theorem load_ok {r : Repairs} {c : Cfg} {l : Loaded} (h : load r c = .ok l) :
    l = mkLoaded c ∧ loadErrors r c = [] := by
  unfold load at h
  split at h
  · rename_i he
    cases h
    exact ⟨rfl, by simpa using he⟩
  · cases h

theorem load_error {r : Repairs} {c : Cfg} {es : List LoadErr} (h : load r c = .error es) : es ≠ [] := by
  unfold load at h
  split at h
  · cases h
  · rename_i he
    cases h
    simpa using he

theorem loadErrors_nil {r : Repairs} {c : Cfg} (h : loadErrors r c = []) :
    c.all entryDecodes = true ∧ c.all entryKnown = true ∧ mandatoryMissing r (mkLoaded c) = [] := by
  unfold loadErrors at h
  split at h
  · cases h
  · rename_i hd
    have hd' : c.all entryDecodes = true := by simpa using hd
    refine ⟨hd', ?_, ?_⟩
    · by_cases hk : c.all entryKnown = true
      · exact hk
      · simp [hk] at h
    · by_cases hm : (mandatoryMissing r (mkLoaded c)).isEmpty = true
      · simpa using hm
      · simp [hm] at h

/-- every entry of a loaded configuration decodes -/
theorem decodes_of_get {c : Cfg} (hd : c.all entryDecodes = true) {s : Sec} {k : String} {v : Val}
    (h : get c s k = some v) : entryDecodes ⟨s, k, v⟩ = true := by
  obtain ⟨k', hk, hm⟩ := get_mem h
  have := List.all_eq_true.mp hd _ hm
  simpa [entryDecodes, fieldKind_of_keyIs hk] using this

/-! ## the parameter store -/

theorem allValid_get {specs : Specs} {ps : List (String × Val)} (h : allValid specs ps = true)
    {k : String} {v : Val} (hg : getP ps k = some v) :
    ∃ s, specOf specs k = some s ∧ validate s.validator v = true := by
  have := List.all_eq_true.mp h _ (getP_mem hg)
  simp only at this
  split at this
  · cases this
  · rename_i s hs; exact ⟨s, hs, this⟩

/-! ## reading fields of the loaded configuration back to the structured form -/

theorem uintField_eq_zero {c : Cfg} {s : Sec} {k : String} (h : uintField c s k 1 = 0) :
    ∃ i, get c s k = some (.int i) ∧ toUint64 i = 0 := by
  unfold uintField at h
  split at h
  · rename_i i hi; exact ⟨i, hi, h⟩
  · cases h

theorem uintField_large {c : Cfg} {s : Sec} {k : String} (h : ¬ uintField c s k 1 < 9223372036854775808) :
    ∃ i, get c s k = some (.int i) ∧ 9223372036854775808 ≤ toUint64 i := by
  unfold uintField at h
  split at h
  · rename_i i hi; exact ⟨i, hi, by omega⟩
  · omega

theorem enumField_eq {c : Cfg} {s : Sec} {k t : String} (ht : t ≠ "") (h : enumField c s k = t) :
    get c s k = some (.str t) := by
  unfold enumField at h
  split at h
  · rename_i t' hg; rw [hg, h]
  · exact absurd h.symm ht

theorem textField_eq_str {c : Cfg} {s : Sec} {k d t : String} (hd : t ≠ d) (h : textField c s k d = .str t) :
    get c s k = some (.str t) := by
  unfold textField at h
  split at h
  · rename_i t' hg; cases h; exact hg
  · cases h
  · cases h; exact absurd rfl hd

theorem textField_eq_path {c : Cfg} {s : Sec} {k d p : String} (h : textField c s k d = .path p) :
    get c s k = some (.path p) := by
  unfold textField at h
  split at h
  · cases h
  · rename_i p' hg; cases h; exact hg
  · cases h

theorem flagField_true {c : Cfg} {s : Sec} {k : String} (h : flagField c s k = true) :
    get c s k = some (.bool true) := by
  unfold flagField at h
  split at h
  · rename_i b hg; rw [hg, h]
  · cases h

theorem spec_maxIterations (l : Loaded) :
    specOf (annealerSpecs l) "MaximumIterations" = some ⟨.nonNegInt, some (.int 0)⟩ := by
  unfold annealerSpecs
  split <;> rfl

theorem maxIterations_pos {c : Cfg} (h : maxIterations (mkLoaded c) ≠ 0) :
    ∃ n, get c .annealerParams "MaximumIterations" = some (.int n) ∧ 1 ≤ n := by
  unfold maxIterations effective at h
  rw [spec_maxIterations] at h
  simp only at h
  have hp : (mkLoaded c).annealerParams = params c .annealerParams := rfl
  rw [hp, getP_params_A] at h
  split at h
  · rename_i n hn
    split at hn
    · rename_i v hv
      split at hn
      · rename_i hval
        cases hn
        refine ⟨n, hv, ?_⟩
        omega
      · cases hn; simp at h
    · cases hn; simp at h
  · exact absurd rfl h

/-! ## the failure sites, one lemma each: the site's precondition holds unless the named finding does -/

theorem site_modulo (c : Cfg) (h : ReportingModuloZero c = false) :
    (mkLoaded c).reportEvery ≠ 0 ∨ annealingDiscarded (mkLoaded c) = true ∨ maxIterations (mkLoaded c) = 0 := by
  by_cases h1 : (mkLoaded c).reportEvery = 0
  · by_cases h2 : annealingDiscarded (mkLoaded c) = true
    · exact .inr (.inl h2)
    · by_cases h3 : maxIterations (mkLoaded c) = 0
      · exact .inr (.inr h3)
      · exfalso
        obtain ⟨i, hi, hz⟩ := uintField_eq_zero (c := c) (s := .reporting) (k := "ReportEveryNumberOfIterations") h1
        obtain ⟨n, hn, hpos⟩ := maxIterations_pos h3
        have h2' : get c .logDest "Annealing" ≠ some (.str "Discarded") := by
          intro hx
          apply h2
          unfold annealingDiscarded
          rw [show (mkLoaded c).logDest = params c .logDest from rfl, getP_params_L, hx]
          simp
        simp [ReportingModuloZero, hi, hz, hn, hpos, h2'] at h
  · exact .inl h1

theorem site_objective (c : Cfg) (h : ObjectiveNotOffered c = false)
    (hk : isKirk (mkLoaded c) = true) :
    lookupSucceeds (mkLoaded c).modelType (objective (mkLoaded c)) = true := by
  have hA : get c .annealer "Type" = some (.str "Kirkpatrick") :=
    enumField_eq (by decide) (of_decide_eq_true hk)
  have hobj : objective (mkLoaded c) =
      match get c .annealerParams "DecisionVariable" with
      | some (.str s) => .str s
      | some (.path p) => .path p
      | _ => .str "ObjectiveValue" := by
    unfold objective effective
    rw [show specOf kirkSpecs "DecisionVariable" = some ⟨.text, some (.str "ObjectiveValue")⟩ from rfl]
    simp only
    rw [show (mkLoaded c).annealerParams = params c .annealerParams from rfl, getP_params_A]
    cases get c .annealerParams "DecisionVariable" with
    | none => rfl
    | some v => cases v <;> simp [validate]
  unfold ObjectiveNotOffered annealerIs modelIs at h
  rw [hA] at h
  unfold lookupSucceeds
  split
  · rename_i hm
    have hM : get c .model "Type" = some (.str "CatchmentModel") := textField_eq_str (by decide) hm
    rw [hM] at h
    rw [hobj]
    cases hg : get c .annealerParams "DecisionVariable" with
    | none => simp [hg] at h
    | some v => cases v <;> simp_all
  · split
    · rename_i hm
      have hM : get c .model "Type" = some (.str "MultiObjectiveDumbModel") := textField_eq_str (by decide) hm
      rw [hM] at h
      rw [hobj]
      cases hg : get c .annealerParams "DecisionVariable" with
      | none => simp [hg] at h
      | some v => cases v <;> simp_all
    · rfl


theorem interpret_nil {r : Repairs} {l : Loaded} (h : interpret r l = []) :
    modelErr l = false ∧ annealerErr l = false ∧ objectiveErr r l = false ∧ scenarioErr r l = false := by
  unfold interpret at h
  cases hm : modelErr l <;> cases ha : annealerErr l <;> cases ho : objectiveErr r l <;>
    cases hs : scenarioErr r l <;> simp_all

theorem mandatory_nil {r : Repairs} {l : Loaded} (h : mandatoryMissing r l = []) :
    l.name ≠ .str "" ∧ ¬ l.runNumber < 1 ∧ l.annealerType ≠ "" ∧ l.modelType ≠ .str "" ∧
    (r.runNumberBounded = true → l.runNumber ≤ maxRunNumber) ∧ (r.reportEveryChecked = true → ¬ l.reportEvery < 1) := by
  unfold mandatoryMissing at h
  simp only [List.append_eq_nil_iff] at h
  obtain ⟨⟨⟨⟨h1, h2⟩, h3⟩, h4⟩, h5⟩ := h
  have f : ∀ {p : Prop} [Decidable p] {n : String}, (if p then [n] else []) = [] → ¬ p := by
    intro p _ n h hp; simp [hp] at h
  refine ⟨f h1, fun hlt => f h2 (.inl hlt), f h4, f h5, ?_, ?_⟩
  · intro hb
    apply Classical.byContradiction
    intro hgt
    exact f h2 (.inr ⟨hb, by omega⟩)
  · intro hb hlt
    exact f h3 ⟨hb, hlt⟩

/-- after loading, the annealer type is one of the three registered names -/
theorem annealer_type_cases {r : Repairs} {c : Cfg} (h : loadErrors r c = []) :
    get c .annealer "Type" = some (.str "Kirkpatrick") ∨ get c .annealer "Type" = some (.str "Suppapitnarm") ∨
    get c .annealer "Type" = some (.str "AveragedSuppapitnarm") := by
  obtain ⟨hd, _, hm⟩ := loadErrors_nil h
  obtain ⟨_, _, h3, _, _, _⟩ := mandatory_nil hm
  have hne : enumField c .annealer "Type" ≠ "" := h3
  unfold enumField at hne
  split at hne
  · rename_i t hg
    have := decodes_of_get hd hg
    have hk : fieldKind .annealer "Type" = some (.enum annealerTypes) := by rfl
    simp only [entryDecodes, hk, compat, Bool.true_and] at this
    have hmem : t ∈ annealerTypes := by simpa using this
    simp [annealerTypes] at hmem
    rcases hmem with h | h | h <;> simp [hg, h]
  · exact absurd rfl hne

theorem isKirk_of_not_multi {r : Repairs} {c : Cfg} (h : loadErrors r c = []) (hm : annealerIsMulti c = false) :
    isKirk (mkLoaded c) = true := by
  have hc := annealer_type_cases h
  unfold annealerIsMulti annealerIs at hm
  rcases hc with h1 | h1 | h1
  · simp [isKirk, mkLoaded, enumField, h1]
  · simp [h1] at hm
  · simp [h1] at hm

theorem site_loopInvariant {r : Repairs} {c : Cfg} (hl : loadErrors r c = []) (h : LoopInvariantWithMultiObjective c = false)
    (hi : (mkLoaded c).loopInvariant = true) : isKirk (mkLoaded c) = true := by
  have hg := flagField_true (c := c) (s := .reporting) (k := "CheckingLoopInvariant") hi
  unfold LoopInvariantWithMultiObjective at h
  rw [hg] at h
  exact isKirk_of_not_multi hl (by simpa using h)

theorem site_platform {c : Cfg} (h : ExcelOutput c = false) : (mkLoaded c).outputType ≠ "EXCEL" := by
  intro hj
  have hg := enumField_eq (c := c) (s := .scenario) (k := "OutputType") (t := "EXCEL") (by decide) hj
  simp [ExcelOutput, hg] at h

theorem site_realModel {c : Cfg} (h : NullModelUnderRealAnnealer c = false) :
    (mkLoaded c).modelType ≠ .str "NullModel" := by
  intro hm
  have hg := textField_eq_str (c := c) (s := .model) (k := "Type") (d := "") (t := "NullModel") (by decide) hm
  simp [NullModelUnderRealAnnealer, modelIs, hg] at h

theorem site_outputPath {c : Cfg} (h : OutputPathNotADirectory c = false) (hu : OutputPathNotUsable c = false) (p : String)
    (hp : (mkLoaded c).outputPath = .path p) : pathKind p = .dir ∨ pathKind p = .missing := by
  have hg := textField_eq_path (c := c) (s := .scenario) (k := "OutputPath") (d := ".") hp
  have h1 : existsNotDir (pathKind p) = false := by simpa [OutputPathNotADirectory, hg] using h
  have h2 : (pathKind p == .underFile) = false := by simpa [OutputPathNotUsable, hg] using hu
  cases hk : pathKind p <;> simp_all [existsNotDir]

theorem site_cpuProfile {c : Cfg} (h : CpuProfilePathNotCreatable c = false) (hd : CpuProfilePathIsDirectory c = false)
    (p : String) (hp : (mkLoaded c).cpuProfilePath = .path p) : creatable p = true := by
  have hg := textField_eq_path (c := c) (s := .scenario) (k := "CpuProfilePath") (d := "") hp
  have h1 : parentIsDirectory p = true := by simpa [CpuProfilePathNotCreatable, hg] using h
  have h2 : (pathKind p == .dir) = false := by simpa [CpuProfilePathIsDirectory, hg] using hd
  simp [creatable, h1, bne, h2]

theorem site_runNumber {c : Cfg} (h : RunNumberOutOfRange c = false) :
    (mkLoaded c).runNumber < 9223372036854775808 := by
  apply Classical.byContradiction
  intro hn
  obtain ⟨i, hi, hb⟩ := uintField_large (c := c) (s := .scenario) (k := "RunNumber") hn
  simp [RunNumberOutOfRange, hi, hb] at h

theorem site_concurrency {c : Cfg} (h : ConcurrencyOutOfRange c = false) :
    (mkLoaded c).maxConcurrent < 9223372036854775808 := by
  apply Classical.byContradiction
  intro hn
  obtain ⟨i, hi, hb⟩ := uintField_large (c := c) (s := .scenario) (k := "MaximumConcurrentRunNumber") hn
  simp [ConcurrencyOutOfRange, hi, hb] at h


theorem isCatchment_get {c : Cfg} (hc : isCatchment (mkLoaded c) = true) :
    get c .model "Type" = some (.str "CatchmentModel") :=
  textField_eq_str (c := c) (s := .model) (k := "Type") (d := "") (by decide) (of_decide_eq_true hc)

theorem catchment_allValid {c : Cfg} (hc : isCatchment (mkLoaded c) = true) (hm : modelErr (mkLoaded c) = false) :
    allValid catchmentSpecs (params c .modelParams) = true := by
  have ht : (mkLoaded c).modelType = .str "CatchmentModel" := of_decide_eq_true hc
  unfold modelErr at hm
  rw [ht] at hm
  simp at hm
  exact hm.1

/-- the store's data source: the user's value when it is a readable path -/
theorem effective_dataSource (c : Cfg) :
    effective catchmentSpecs (params c .modelParams) "DataSourcePath" =
      match get c .modelParams "DataSourcePath" with
      | some (.path p) => if readable p then some (.path p) else some (.str "")
      | _ => some (.str "") := by
  unfold effective
  rw [show specOf catchmentSpecs "DataSourcePath" = some ⟨.readableFile, some (.str "")⟩ from rfl]
  simp only
  rw [getP_params_M]
  cases get c .modelParams "DataSourcePath" with
  | none => rfl
  | some v =>
    cases v with
    | path p => by_cases hr : readable p = true <;> simp [validate, hr]
    | _ => simp [validate]

theorem dataSet_cfg {c : Cfg} {ds : String} (h : dataSet (mkLoaded c) = some ds) : cfgDataSet c = some ds := by
  unfold dataSet at h
  rw [show (mkLoaded c).modelParams = params c .modelParams from rfl, effective_dataSource] at h
  unfold cfgDataSet
  cases hg : get c .modelParams "DataSourcePath" with
  | none => simp [hg] at h
  | some v =>
    cases v with
    | path p =>
      simp only [hg] at h ⊢
      by_cases hr : readable p = true
      · simpa [hr] using h
      · simp [hr] at h
    | _ => simp [hg] at h

theorem site_dataSource {c : Cfg} (hm : modelErr (mkLoaded c) = false)
    (h5 : CatchmentWithoutDataSource c = false) (h5b : CatchmentDataSourceNotLoadable c = false)
    (hc : isCatchment (mkLoaded c) = true) : (dataSet (mkLoaded c)).isSome = true := by
  have hM := isCatchment_get hc
  have hv := catchment_allValid hc hm
  unfold dataSet
  rw [show (mkLoaded c).modelParams = params c .modelParams from rfl, effective_dataSource]
  cases hg : get c .modelParams "DataSourcePath" with
  | none => simp [CatchmentWithoutDataSource, modelIs, hM, hg] at h5
  | some v =>
    obtain ⟨s, hs, hval⟩ := allValid_get hv (by rw [getP_params_M]; exact hg)
    rw [show specOf catchmentSpecs "DataSourcePath" = some ⟨.readableFile, some (.str "")⟩ from rfl] at hs
    cases hs
    cases v with
    | path p =>
      have hr : readable p = true := by simpa [validate] using hval
      have hk : pathKind p = .dataset := by
        simpa [CatchmentDataSourceNotLoadable, modelIs, hM, hg] using h5b
      simp [hr, hk]
    | _ => simp [validate] at hval

theorem limit_spec {k : String} (hk : k ∈ limitKeys) :
    specOf catchmentSpecs k = some ⟨.nonNegDecimal, none⟩ := by
  simp [limitKeys] at hk
  rcases hk with rfl | rfl | rfl | rfl | rfl | rfl <;> rfl

theorem effective_limit {c : Cfg} {k : String} (hk : k ∈ limitKeys) {v : Val}
    (h : effective catchmentSpecs (params c .modelParams) k = some v) : get c .modelParams k = some v := by
  unfold effective at h
  rw [limit_spec hk] at h
  simp only at h
  rw [getP_params_M] at h
  cases hg : get c .modelParams k with
  | none => simp [hg] at h
  | some w =>
    simp only [hg] at h
    split at h
    · exact h
    · cases h

theorem site_limits {c : Cfg} (env : Env) (h3 : LimitNeverBinds env c = false)
    (hc : isCatchment (mkLoaded c) = true) : limitsBind env (mkLoaded c) = true := by
  have hM := isCatchment_get hc
  unfold LimitNeverBinds at h3
  rw [show modelIs c "CatchmentModel" = true by simp [modelIs, hM], Bool.true_and] at h3
  have h3' := List.any_eq_false.mp h3
  unfold limitsBind
  rw [List.all_eq_true]
  intro k hk
  rw [show (mkLoaded c).modelParams = params c .modelParams from rfl]
  cases he : effective catchmentSpecs (params c .modelParams) k with
  | none => rfl
  | some v =>
    cases hd : dataSet (mkLoaded c) with
    | none => cases v <;> rfl
    | some ds =>
      have hg := effective_limit hk he
      have hcd := dataSet_cfg hd
      have := h3' k hk
      rw [hg, hcd] at this
      cases v with
      | flt m =>
        simp only at this ⊢
        cases hz : env.zone ds k with
        | none => simp [hz] at this
        | some z => simpa [hz] using this
      | _ => rfl


theorem tooLargeFor_mono {a b : Nat} (hab : a ≤ b) {m : Int} (h : tooLargeFor a m = true) : tooLargeFor b m = true := by
  unfold tooLargeFor at h ⊢
  simp only [decide_eq_true_eq] at h ⊢
  exact Nat.lt_of_lt_of_le h (Nat.mul_le_mul_left _ (Nat.pow_le_pow_right (by omega) hab))

theorem two_le_roundDigits (b : Bool) : 2 ≤ roundDigits b := by cases b <;> decide

theorem two_le_modumbDigits (b : Bool) (t v : String) : 2 ≤ modumbDigits b t v := by
  unfold modumbDigits
  split
  · omega
  · split <;> omega

theorem outputType_cfg (c : Cfg) : (mkLoaded c).outputType = enumField c .scenario "OutputType" := rfl
theorem outputLevel_cfg (c : Cfg) : (mkLoaded c).outputLevel = enumField c .scenario "OutputLevel" := rfl

theorem userDecimal_cfg (c : Cfg) (k : String) : userDecimal (mkLoaded c).modelParams k = cfgDecimal c .modelParams k := by
  unfold userDecimal cfgDecimal
  rw [show (mkLoaded c).modelParams = params c .modelParams from rfl, getP_params_M]

theorem userDecimal_cfgA (c : Cfg) (k : String) : userDecimal (mkLoaded c).annealerParams k = cfgDecimal c .annealerParams k := by
  unfold userDecimal cfgDecimal
  rw [show (mkLoaded c).annealerParams = params c .annealerParams from rfl, getP_params_A]

theorem annealingDiscarded_cfg (c : Cfg) : annealingDiscarded (mkLoaded c) = cfgDiscarded c := by
  unfold annealingDiscarded cfgDiscarded
  rw [show (mkLoaded c).logDest = params c .logDest from rfl, getP_params_L]

theorem isKirk_cfg (c : Cfg) : isKirk (mkLoaded c) = annealerIs c "Kirkpatrick" := by
  unfold isKirk annealerIs
  show decide (enumField c .annealer "Type" = "Kirkpatrick") = decide (get c .annealer "Type" = some (.str "Kirkpatrick"))
  unfold enumField
  cases hg : get c .annealer "Type" with
  | none => simp
  | some v => cases v <;> simp

theorem modelIs_of_type {c : Cfg} {t : String} (ht : t ≠ "") (h : (mkLoaded c).modelType = .str t) : modelIs c t = true := by
  have := textField_eq_str (c := c) (s := .model) (k := "Type") (d := "") ht h
  simp [modelIs, this]

theorem runOverflows_false {c : Cfg} (h : ValueTooLargeToRound c = false) : runOverflows (mkLoaded c) = false := by
  unfold ValueTooLargeToRound at h
  simp only [Bool.or_eq_false_iff] at h
  obtain ⟨⟨h1, h2⟩, h3⟩ := h
  unfold runOverflows
  simp only [Bool.or_eq_false_iff, annealingDiscarded_cfg, isKirk_cfg, outputType_cfg, outputLevel_cfg]
  refine ⟨⟨?_, ?_⟩, ?_⟩
  · by_cases hm : (mkLoaded c).modelType = .str "DumbModel"
    · rw [modelIs_of_type (by decide) hm, Bool.true_and] at h1
      simp [userDecimal_cfg, h1]
    · simp [hm]
  · by_cases hm : (mkLoaded c).modelType = .str "MultiObjectiveDumbModel"
    · rw [modelIs_of_type (by decide) hm, Bool.true_and] at h2
      simp only [hm, decide_true, Bool.true_and]
      simpa [userDecimal_cfg] using h2
    · simp [hm]
  · simpa [userDecimal_cfgA] using h3

theorem initialiseOverflows_false {c : Cfg} (h : ValueTooLargeToRound c = false) :
    initialiseOverflows (mkLoaded c) = false := by
  have hr := runOverflows_false h
  unfold runOverflows at hr
  simp only [Bool.or_eq_false_iff] at hr
  unfold initialiseOverflows
  by_cases hm : (mkLoaded c).modelType = .str "MultiObjectiveDumbModel"
  · have h2 := hr.1.2
    simp only [hm, decide_true, Bool.true_and] at h2 ⊢
    rw [List.any_eq_false] at h2 ⊢
    intro k hk hlarge
    exact h2 k hk (tooLargeFor_mono (two_le_modumbDigits _ _ _) hlarge)
  · simp [hm]

theorem interpretPanics_false {c : Cfg} (h : CatchmentDataSourceNotLoadable c = false) (hv : ValueTooLargeToRound c = false) :
    interpretPanics (mkLoaded c) = false := by
  have hio := initialiseOverflows_false hv
  cases hc : isCatchment (mkLoaded c) with
  | false => simp [interpretPanics, hc, hio]
  | true =>
    have hM := isCatchment_get hc
    have hb : dataSourceBroken (mkLoaded c) = false := by
      unfold dataSourceBroken
      rw [show (mkLoaded c).modelParams = params c .modelParams from rfl, effective_dataSource]
      cases hg : get c .modelParams "DataSourcePath" with
      | none => rfl
      | some v =>
        cases v with
        | path p =>
          have hk : pathKind p = .dataset := by
            simpa [CatchmentDataSourceNotLoadable, modelIs, hM, hg] using h
          by_cases hr : readable p = true <;> simp [hr, hk]
        | _ => rfl
    simp [interpretPanics, hb, hio]


/-! ## conversely: each finding breaks its site's precondition -/

theorem unsafe_modulo {c : Cfg} (r : Repairs) (env : Env) (h : ReportingModuloZero c = true) : ¬ RunSafe r env (mkLoaded c) := by
  intro hs
  unfold ReportingModuloZero at h
  simp only [Bool.and_eq_true] at h
  obtain ⟨⟨h1, h2⟩, h3⟩ := h
  have hre : (mkLoaded c).reportEvery = 0 := by
    show uintField c .reporting "ReportEveryNumberOfIterations" 1 = 0
    unfold uintField
    cases hg : get c .reporting "ReportEveryNumberOfIterations" with
    | none => simp [hg] at h1
    | some v => cases v <;> simp_all
  have hd : annealingDiscarded (mkLoaded c) = false := by
    unfold annealingDiscarded
    rw [show (mkLoaded c).logDest = params c .logDest from rfl, getP_params_L]
    simpa using h2
  have hmi : maxIterations (mkLoaded c) ≠ 0 := by
    unfold maxIterations effective
    rw [spec_maxIterations]
    simp only
    rw [show (mkLoaded c).annealerParams = params c .annealerParams from rfl, getP_params_A]
    cases hg : get c .annealerParams "MaximumIterations" with
    | none => simp [hg] at h3
    | some v =>
      cases v with
      | int n =>
        have hpos : 1 ≤ n := by simpa [hg] using h3
        have hv : validate .nonNegInt (.int n) = true := by simp [validate]; omega
        simp only [hv, if_true]
        omega
      | _ => simp [hg] at h3
  rcases hs.modulo with h | h | h
  · exact h hre
  · rw [hd] at h; cases h
  · exact hmi h

theorem isKirk_of_get {c : Cfg} (h : get c .annealer "Type" = some (.str "Kirkpatrick")) :
    isKirk (mkLoaded c) = true := by
  simp [isKirk, mkLoaded, enumField, h]

theorem not_isKirk_of_multi {c : Cfg} (h : annealerIsMulti c = true) : isKirk (mkLoaded c) = false := by
  unfold annealerIsMulti annealerIs at h
  simp only [Bool.or_eq_true, decide_eq_true_eq] at h
  rcases h with h | h <;> simp [isKirk, mkLoaded, enumField, h]

theorem modelType_of_get {c : Cfg} {t : String} (h : get c .model "Type" = some (.str t)) :
    (mkLoaded c).modelType = .str t := by
  simp [mkLoaded, textField, h]

theorem objective_eq (c : Cfg) : objective (mkLoaded c) =
      match get c .annealerParams "DecisionVariable" with
      | some (.str s) => .str s
      | some (.path p) => .path p
      | _ => .str "ObjectiveValue" := by
  unfold objective effective
  rw [show specOf kirkSpecs "DecisionVariable" = some ⟨.text, some (.str "ObjectiveValue")⟩ from rfl]
  simp only
  rw [show (mkLoaded c).annealerParams = params c .annealerParams from rfl, getP_params_A]
  cases get c .annealerParams "DecisionVariable" with
  | none => rfl
  | some v => cases v <;> simp [validate]

theorem unsafe_objective {c : Cfg} (r : Repairs) (env : Env) (h : ObjectiveNotOffered c = true) : ¬ RunSafe r env (mkLoaded c) := by
  intro hs
  unfold ObjectiveNotOffered annealerIs modelIs at h
  simp only [Bool.and_eq_true, Bool.or_eq_true, decide_eq_true_eq] at h
  obtain ⟨hA, h⟩ := h
  have := hs.objective (isKirk_of_get hA)
  rw [objective_eq] at this
  rcases h with ⟨hM, hv⟩ | ⟨hM, hv⟩
  · rw [modelType_of_get hM] at this
    cases hg : get c .annealerParams "DecisionVariable" with
    | none => simp [hg, lookupSucceeds, catchmentVariables] at this
    | some v => cases v <;> simp_all [lookupSucceeds, catchmentVariables]
  · rw [modelType_of_get hM] at this
    cases hg : get c .annealerParams "DecisionVariable" with
    | none => simp [hg, lookupSucceeds, modumbVariables] at this
    | some v => cases v <;> simp_all [lookupSucceeds, modumbVariables]

theorem unsafe_loopInvariant {c : Cfg} (r : Repairs) (env : Env) (hr : r.loopInvariantGuarded = false)
    (h : LoopInvariantWithMultiObjective c = true) :
    ¬ RunSafe r env (mkLoaded c) := by
  intro hs
  unfold LoopInvariantWithMultiObjective at h
  simp only [Bool.and_eq_true, decide_eq_true_eq] at h
  have hi : (mkLoaded c).loopInvariant = true := by simp [mkLoaded, flagField, h.1]
  rcases hs.loopInvariant with hg | hg
  · rw [hr] at hg; cases hg
  · have := hg hi
    rw [not_isKirk_of_multi h.2] at this
    cases this

theorem unsafe_excel {c : Cfg} (r : Repairs) (env : Env) (h : ExcelOutput c = true) : ¬ RunSafe r env (mkLoaded c) := by
  intro hs
  have hg : get c .scenario "OutputType" = some (.str "EXCEL") := by simpa [ExcelOutput] using h
  exact hs.platform (by simp [mkLoaded, enumField, hg])

theorem unsafe_nullModel {c : Cfg} (r : Repairs) (env : Env) (h : NullModelUnderRealAnnealer c = true) :
    ¬ RunSafe r env (mkLoaded c) := by
  intro hs
  have hg : get c .model "Type" = some (.str "NullModel") := by simpa [NullModelUnderRealAnnealer, modelIs] using h
  exact hs.realModel (modelType_of_get hg)

theorem unsafe_outputPath {c : Cfg} (r : Repairs) (env : Env) (h : OutputPathNotADirectory c = true) :
    ¬ RunSafe r env (mkLoaded c) := by
  intro hs
  unfold OutputPathNotADirectory at h
  cases hg : get c .scenario "OutputPath" with
  | none => simp [hg] at h
  | some v =>
    cases v with
    | path p =>
      have hk : existsNotDir (pathKind p) = true := by simpa [hg] using h
      rcases hs.outputPath p (by simp [mkLoaded, textField, hg]) with hd | hd <;> simp [hd, existsNotDir] at hk
    | _ => simp [hg] at h

theorem unsafe_outputPathStat {c : Cfg} (r : Repairs) (env : Env) (h : OutputPathNotUsable c = true) :
    ¬ RunSafe r env (mkLoaded c) := by
  intro hs
  unfold OutputPathNotUsable at h
  cases hg : get c .scenario "OutputPath" with
  | none => simp [hg] at h
  | some v =>
    cases v with
    | path p =>
      have hk : (pathKind p == .underFile) = true := by simpa [hg] using h
      rcases hs.outputPath p (by simp [mkLoaded, textField, hg]) with hd | hd <;> simp [hd] at hk
    | _ => simp [hg] at h

theorem unsafe_roundable {c : Cfg} (r : Repairs) (env : Env) (h : ValueTooLargeToRound c = true) :
    ¬ RunSafe r env (mkLoaded c) := by
  intro hs
  have hr := hs.roundable
  unfold runOverflows at hr
  simp only [Bool.or_eq_false_iff, annealingDiscarded_cfg, isKirk_cfg, outputType_cfg, outputLevel_cfg] at hr
  unfold ValueTooLargeToRound modelIs at h
  simp only [Bool.or_eq_true, Bool.and_eq_true, decide_eq_true_eq] at h
  rcases h with (⟨hM, hv⟩ | ⟨hM, hv⟩) | ⟨hd, hv⟩
  · have h1 := hr.1.1
    simp [modelType_of_get hM, userDecimal_cfg, hv] at h1
  · have h2 := hr.1.2
    simp only [modelType_of_get hM, decide_true, Bool.true_and] at h2
    rw [List.any_eq_false] at h2
    rw [List.any_eq_true] at hv
    obtain ⟨k, hk, hlarge⟩ := hv
    exact h2 k hk (by rw [userDecimal_cfg]; exact hlarge)
  · have h3 := hr.2
    simp [userDecimal_cfgA, hd, hv] at h3

theorem unsafe_resultFile {c : Cfg} (r : Repairs) (env : Env) (h : ResultFileNotWritten r c = true) :
    ¬ RunSafe r env (mkLoaded c) := by
  intro hs
  have := hs.resultNameable
  simp [ResultFileNotWritten, this] at h

theorem unsafe_cpuProfile {c : Cfg} (r : Repairs) (env : Env) (h : CpuProfilePathNotCreatable c = true) :
    ¬ RunSafe r env (mkLoaded c) := by
  intro hs
  unfold CpuProfilePathNotCreatable at h
  cases hg : get c .scenario "CpuProfilePath" with
  | none => simp [hg] at h
  | some v =>
    cases v with
    | path p =>
      have hk : parentIsDirectory p = false := by simpa [hg] using h
      have := hs.cpuProfile p (by simp [mkLoaded, textField, hg])
      simp [creatable, hk] at this
    | _ => simp [hg] at h

theorem unsafe_cpuProfileDir {c : Cfg} (r : Repairs) (env : Env) (h : CpuProfilePathIsDirectory c = true) :
    ¬ RunSafe r env (mkLoaded c) := by
  intro hs
  unfold CpuProfilePathIsDirectory at h
  cases hg : get c .scenario "CpuProfilePath" with
  | none => simp [hg] at h
  | some v =>
    cases v with
    | path p =>
      have hk : (pathKind p == .dir) = true := by simpa [hg] using h
      have := hs.cpuProfile p (by simp [mkLoaded, textField, hg])
      simp [creatable, bne, hk] at this
    | _ => simp [hg] at h

theorem unsafe_runNumber {c : Cfg} (r : Repairs) (env : Env) (h : RunNumberOutOfRange c = true) :
    ¬ RunSafe r env (mkLoaded c) := by
  intro hs
  unfold RunNumberOutOfRange at h
  cases hg : get c .scenario "RunNumber" with
  | none => simp [hg] at h
  | some v =>
    cases v with
    | int i =>
      have hk : 9223372036854775808 ≤ toUint64 i := by simpa [hg] using h
      have := hs.runNumber
      simp [mkLoaded, uintField, hg] at this
      omega
    | _ => simp [hg] at h

theorem unsafe_concurrency {c : Cfg} (r : Repairs) (env : Env) (hr : r.concurrencyCapped = false)
    (h : ConcurrencyOutOfRange c = true) :
    ¬ RunSafe r env (mkLoaded c) := by
  intro hs
  unfold ConcurrencyOutOfRange at h
  cases hg : get c .scenario "MaximumConcurrentRunNumber" with
  | none => simp [hg] at h
  | some v =>
    cases v with
    | int i =>
      have hk : 9223372036854775808 ≤ toUint64 i := by simpa [hg] using h
      rcases hs.concurrency with hc | hc
      · rw [hr] at hc; cases hc
      · simp [mkLoaded, uintField, hg] at hc
        omega
    | _ => simp [hg] at h

theorem isCatchment_of_get {c : Cfg} (h : get c .model "Type" = some (.str "CatchmentModel")) :
    isCatchment (mkLoaded c) = true := by
  simp [isCatchment, modelType_of_get h]

theorem unsafe_noDataSource {c : Cfg} (r : Repairs) (env : Env) (h : CatchmentWithoutDataSource c = true) :
    ¬ RunSafe r env (mkLoaded c) := by
  intro hs
  unfold CatchmentWithoutDataSource modelIs at h
  simp only [Bool.and_eq_true, decide_eq_true_eq] at h
  have := hs.dataSource (isCatchment_of_get h.1)
  unfold dataSet at this
  rw [show (mkLoaded c).modelParams = params c .modelParams from rfl, effective_dataSource, h.2] at this
  simp at this

theorem unsafe_dataSourceNotLoadable {c : Cfg} (r : Repairs) (env : Env) (h : CatchmentDataSourceNotLoadable c = true) :
    ¬ RunSafe r env (mkLoaded c) := by
  intro hs
  unfold CatchmentDataSourceNotLoadable modelIs at h
  simp only [Bool.and_eq_true, decide_eq_true_eq] at h
  have := hs.dataSource (isCatchment_of_get h.1)
  unfold dataSet at this
  rw [show (mkLoaded c).modelParams = params c .modelParams from rfl, effective_dataSource] at this
  cases hg : get c .modelParams "DataSourcePath" with
  | none => simp [hg] at h
  | some v =>
    cases v with
    | path p =>
      have hk : pathKind p ≠ .dataset := by simpa [hg] using h.2
      by_cases hr : readable p = true <;> simp [hg, hr, hk] at this
    | _ => simp [hg] at h

theorem malformed_notLoadable {c : Cfg} (h : CatchmentDataSetMalformed c = true) : CatchmentDataSourceNotLoadable c = true := by
  unfold CatchmentDataSetMalformed at h
  unfold CatchmentDataSourceNotLoadable
  simp only [Bool.and_eq_true] at h ⊢
  refine ⟨h.1, ?_⟩
  cases hg : get c .modelParams "DataSourcePath" with
  | none => simp [hg] at h
  | some v =>
    cases v with
    | path p =>
      have hk : (pathKind p == .malformedDataset) = true := by simpa [hg] using h.2
      have : pathKind p = .malformedDataset := by simpa using hk
      simp [this]
    | _ => simp [hg] at h

/-- needs acceptance: a negative limit is a `flt` too, but it is rejected, not stored -/
theorem unsafe_limit {c : Cfg} (r : Repairs) (env : Env) (hm : modelErr (mkLoaded c) = false)
    (h : LimitNeverBinds env c = true) : ¬ RunSafe r env (mkLoaded c) := by
  intro hs
  unfold LimitNeverBinds modelIs at h
  simp only [Bool.and_eq_true, decide_eq_true_eq, List.any_eq_true] at h
  obtain ⟨hM, k, hk, hf⟩ := h
  have hc := isCatchment_of_get hM
  have hv := catchment_allValid hc hm
  have hb := hs.limits hc
  unfold limitsBind at hb
  have hbk := List.all_eq_true.mp hb k hk
  rw [show (mkLoaded c).modelParams = params c .modelParams from rfl] at hbk
  cases hg : get c .modelParams k with
  | none => simp [hg] at hf
  | some v =>
    cases v with
    | flt m =>
      cases hd : cfgDataSet c with
      | none => simp [hg, hd] at hf
      | some ds =>
        -- the store holds the limit …
        obtain ⟨s, hs', hval⟩ := allValid_get hv (by rw [getP_params_M]; exact hg)
        rw [limit_spec hk] at hs'
        cases hs'
        have he : effective catchmentSpecs (params c .modelParams) k = some (.flt m) := by
          unfold effective
          rw [limit_spec hk]
          simp only
          rw [getP_params_M, hg]
          simp only [hval, if_true]
        -- … and the data set is the one named
        have hds : dataSet (mkLoaded c) = some ds := by
          unfold cfgDataSet at hd
          unfold dataSet
          rw [show (mkLoaded c).modelParams = params c .modelParams from rfl, effective_dataSource]
          cases hp : get c .modelParams "DataSourcePath" with
          | none => simp [hp] at hd
          | some w =>
            cases w with
            | path p =>
              by_cases hkind : pathKind p = .dataset
              · have hr : readable p = true := by simp [readable, hkind]
                have : p = ds := by simpa [hp, hkind] using hd
                subst this
                simp [hr, hkind]
              · simp [hp, hkind] at hd
            | _ => simp [hp] at hd
        rw [he, hds] at hbk
        simp only [hg, hd] at hf
        cases hz : env.zone ds k with
        | none => simp [hz] at hbk
        | some z =>
          simp only [hz] at hbk hf
          simp_all
    | _ => simp [hg] at hf



/-! ## declared repairs make their findings impossible on accepted configurations -/

theorem repaired_modulo {r : Repairs} {c : Cfg} (hr : r.reportEveryChecked = true) (h : loadErrors r c = []) :
    ReportingModuloZero c = false := by
  obtain ⟨_, _, hm⟩ := loadErrors_nil h
  obtain ⟨_, _, _, _, _, h6⟩ := mandatory_nil hm
  cases hz : ReportingModuloZero c with
  | false => rfl
  | true =>
    exfalso
    apply h6 hr
    unfold ReportingModuloZero at hz
    simp only [Bool.and_eq_true] at hz
    obtain ⟨⟨h1, _⟩, _⟩ := hz
    show uintField c .reporting "ReportEveryNumberOfIterations" 1 < 1
    unfold uintField
    cases hg : get c .reporting "ReportEveryNumberOfIterations" with
    | none => simp [hg] at h1
    | some v =>
      cases v with
      | int i =>
        have : toUint64 i = 0 := by simpa [hg] using h1
        simp [this]
      | _ => simp [hg] at h1

theorem repaired_runNumber {r : Repairs} {c : Cfg} (hr : r.runNumberBounded = true) (h : loadErrors r c = []) :
    RunNumberOutOfRange c = false := by
  obtain ⟨_, _, hm⟩ := loadErrors_nil h
  obtain ⟨_, _, _, _, h5, _⟩ := mandatory_nil hm
  have hb : uintField c .scenario "RunNumber" 1 ≤ 2147483647 := h5 hr
  unfold RunNumberOutOfRange
  cases hg : get c .scenario "RunNumber" with
  | none => rfl
  | some v =>
    cases v with
    | int i =>
      simp only [uintField, hg] at hb
      simp only [decide_eq_false_iff_not]
      omega
    | _ => rfl

theorem repaired_outputPath {r : Repairs} {c : Cfg} (hr : r.outputPathChecked = true)
    (hs : scenarioErr r (mkLoaded c) = false) : OutputPathNotADirectory c = false := by
  unfold scenarioErr at hs
  rw [hr] at hs
  simp only [Bool.or_eq_false_iff, Bool.true_and] at hs
  have h2 := hs.1.1.2
  unfold OutputPathNotADirectory
  cases hg : get c .scenario "OutputPath" with
  | none => rfl
  | some v =>
    cases v with
    | path p =>
      have ho : (mkLoaded c).outputPath = .path p := by simp [mkLoaded, textField, hg]
      rw [ho] at h2
      simpa using h2
    | _ => rfl

theorem repaired_outputPathStat {r : Repairs} {c : Cfg} (hr : r.outputPathStatChecked = true)
    (hs : scenarioErr r (mkLoaded c) = false) : OutputPathNotUsable c = false := by
  unfold scenarioErr at hs
  rw [hr] at hs
  simp only [Bool.or_eq_false_iff, Bool.true_and] at hs
  have h2 := hs.1.2
  unfold OutputPathNotUsable
  cases hg : get c .scenario "OutputPath" with
  | none => rfl
  | some v =>
    cases v with
    | path p =>
      have ho : (mkLoaded c).outputPath = .path p := by simp [mkLoaded, textField, hg]
      rw [ho] at h2
      simpa using h2
    | _ => rfl

theorem repaired_cpuProfile {r : Repairs} {c : Cfg} (hr : r.cpuProfilePathChecked = true)
    (hs : scenarioErr r (mkLoaded c) = false) : CpuProfilePathNotCreatable c = false := by
  unfold scenarioErr at hs
  rw [hr] at hs
  simp only [Bool.or_eq_false_iff, Bool.true_and] at hs
  have h2 := hs.2
  unfold CpuProfilePathNotCreatable
  cases hg : get c .scenario "CpuProfilePath" with
  | none => rfl
  | some v =>
    cases v with
    | path p =>
      have ho : (mkLoaded c).cpuProfilePath = .path p := by simp [mkLoaded, textField, hg]
      rw [ho] at h2
      simpa using h2
    | _ => rfl

theorem objectiveNotOffered_spec {c : Cfg} (h : ObjectiveNotOffered c = true) :
    isKirk (mkLoaded c) = true ∧ offered (mkLoaded c) = false := by
  unfold ObjectiveNotOffered annealerIs modelIs at h
  simp only [Bool.and_eq_true, Bool.or_eq_true, decide_eq_true_eq] at h
  obtain ⟨hA, h⟩ := h
  refine ⟨isKirk_of_get hA, ?_⟩
  unfold offered
  rw [objective_eq]
  rcases h with ⟨hM, hv⟩ | ⟨hM, hv⟩
  · rw [modelType_of_get hM]
    cases hg : get c .annealerParams "DecisionVariable" with
    | none => simp [lookupSucceeds, catchmentVariables]
    | some v => cases v <;> simp_all [lookupSucceeds, catchmentVariables]
  · rw [modelType_of_get hM]
    cases hg : get c .annealerParams "DecisionVariable" with
    | none => simp [lookupSucceeds, modumbVariables]
    | some v => cases v <;> simp_all [lookupSucceeds, modumbVariables]

theorem repaired_objective {r : Repairs} {c : Cfg} (hr : r.objectiveChecked = true)
    (hm : modelErr (mkLoaded c) = false) (ha : annealerErr (mkLoaded c) = false)
    (ho : objectiveErr r (mkLoaded c) = false) : ObjectiveNotOffered c = false := by
  cases hf : ObjectiveNotOffered c with
  | false => rfl
  | true =>
    obtain ⟨hk, hoff⟩ := objectiveNotOffered_spec hf
    simp [objectiveErr, hr, hm, ha, hk, hoff] at ho


end Crem.Config
