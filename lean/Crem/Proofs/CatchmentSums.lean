import Crem.Proofs.Catchment
/-!
Consequences of `Canon` for aggregates: each total is the sum of the per-unit values over the
planning units of the dataset; total nitrogen is particulate + dissolved in every unit.
-/
namespace Crem.Catchment

theorem CanonP.total_eq_sum {v : VarKind} {acts : List Action} {c0 : List (PU × Ctx)} {bs : List Bool}
    {s : PVar} (hc : CanonP v acts c0 bs s) (hd : pusDistinct c0 = true) :
    s.total = ((c0.map (·.1)).map (unitValP s)).sum := by
  have hd' : pusDistinct (mapC (fun _ (c : Cell) => c.val) s.cells) = true := by
    rw [pusDistinct_mapC, hc.cells, canonCells, pusDistinct_mapC]; exact hd
  have hk : (mapC (fun _ (c : Cell) => c.val) s.cells).map (·.1) = c0.map (·.1) := by
    rw [keys_mapC, hc.cells, canonCells, keys_mapC]
  rw [hc.total, sumVals_eq_sumS, sumS_eq_sum_units hd', hk]
  congr 1
  apply List.map_congr_left
  intro p _
  rw [getC_mapC]; rfl

theorem CanonS.total_eq_sum {α : Type} {c0 : List (PU × α)} {g : PU → α → Rat} {s : SVar}
    (hc : CanonS (mapC g c0) s) (hd : pusDistinct c0 = true) :
    s.total = ((c0.map (·.1)).map (unitValS s)).sum := by
  have hd' : pusDistinct s.cells = true := by rw [hc.cells, pusDistinct_mapC]; exact hd
  have hk : s.cells.map (·.1) = c0.map (·.1) := by rw [hc.cells, keys_mapC]
  rw [hc.total, sumS_eq_sum_units hd', hk]
  rfl

/-- total nitrogen of a unit is particulate + dissolved nitrogen of that unit (0 = 0 + 0 for an
id that is not a planning unit) -/
theorem Canon.unit_tn {D : Data} {s : State} (hI : InitFacts D) (hc : Canon D s) (p : PU) :
    unitValS s.tn p = unitValP s.pn p + unitValP s.dn p := by
  rw [unitValP_of_cells hc.pn.cells, unitValP_of_cells hc.dn.cells]
  unfold unitValS
  rw [hc.tn.cells, canonTNCells, getC_mapC]
  cases hg : getC D.pn0 p with
  | some x => rfl
  | none =>
    have hdn : getC D.dn0 p = none := by
      have := getC_isSome_of_keys_eq (hI.kpn.symm.trans hI.kdn) p
      rw [hg] at this
      cases h : getC D.dn0 p with
      | none => rfl
      | some y => rw [h] at this; simp at this
    simp [canonVal, hg, hdn]

/-- every total of a canonical state lies on its reporting grid -/
theorem Canon.total_onGrid {D : Data} {s : State} (hc : Canon D s) (v : VarId) :
    OnGrid (reportingPrecision v) (total s v) := by
  cases v
  · exact hc.sed.onGrid
  · exact hc.pn.onGrid
  · exact hc.dn.onGrid
  · show OnGrid 3 s.tn.total
    rw [hc.tn.total, hc.tn.cells]
    apply sumS_onGrid
    intro c hcm
    obtain ⟨x, _, h⟩ := mem_mapC hcm
    rw [h]; exact (canonVal_onGrid _ _ _ _ _).add (canonVal_onGrid _ _ _ _ _)
  · show OnGrid 2 s.ic.total
    rw [hc.ic.total, hc.ic.cells]
    apply sumS_onGrid
    intro c hcm
    obtain ⟨x, _, h⟩ := mem_mapC hcm
    rw [h]; exact costSum_onGrid _ _ _ _
  · show OnGrid 2 s.oc.total
    rw [hc.oc.total, hc.oc.cells]
    apply sumS_onGrid
    intro c hcm
    obtain ⟨x, _, h⟩ := mem_mapC hcm
    rw [h]; exact costSum_onGrid _ _ _ _

end Crem.Catchment
