import Crem.Proofs.Store
/-!
The canonical attribute record / cost of a planning unit for an activity assignment, and how
they move when one flag is set.  Generic in the pollutant variable `v : VarKind`.
-/
namespace Crem.Catchment

/-! ### laws of `setP` -/

/-- setting an action type's fields twice: the last one wins -/
theorem setP_overwrite (v : VarKind) (t : ActType) (b b' : Bool) (k : Consts) (x : Ctx) :
    setP v t b k (setP v t b' k x) = setP v t b k x := by
  cases v <;> cases t <;> simp [setP]

/-- different action types control disjoint fields -/
theorem setP_comm (v : VarKind) {t t' : ActType} (h : t ≠ t') (b b' : Bool) (k k' : Consts) (x : Ctx) :
    setP v t b k (setP v t' b' k' x) = setP v t' b' k' (setP v t b k x) := by
  cases v <;> cases t <;> cases t' <;> simp_all [setP]

theorem evalP_onGrid (v : VarKind) (c : Ctx) : OnGrid 3 (evalP v c) := rnd_onGrid _ _

/-! ### key distinctness -/

theorem keysDistinct_cons (a : Action) (as : List Action) :
    keysDistinct (a :: as) = true ↔
      (∀ a' ∈ as, ¬ (a'.pu = a.pu ∧ a'.typ = a.typ)) ∧ keysDistinct as = true := by
  simp only [keysDistinct, Bool.and_eq_true, List.all_eq_true]
  constructor
  · rintro ⟨h1, h2⟩
    refine ⟨fun a' ha' => ?_, h2⟩
    have := h1 a' ha'
    rintro ⟨e1, e2⟩
    simp [e1, e2] at this
  · rintro ⟨h1, h2⟩
    refine ⟨fun a' ha' => ?_, h2⟩
    have := h1 a' ha'
    simp only [Bool.not_eq_true', Bool.and_eq_false_iff, decide_eq_false_iff_not]
    by_cases e1 : a.pu = a'.pu
    · right; intro e2; exact this ⟨e1.symm, e2.symm⟩
    · left; exact e1

/-! ### canonical attribute record -/

/-- canonical context of unit `p`: the base record with every action of that unit applied with its flag -/
def canonCtx (v : VarKind) (p : PU) : List Action → List Bool → Ctx → Ctx
  | a :: as, b :: bs, x => canonCtx v p as bs (if a.pu = p then setP v a.typ b a.k x else x)
  | _, _, x => x

/-- pushing a `setP` of a key that does not occur in `as` through the canonical fold -/
theorem canonCtx_set_comm (v : VarKind) (p : PU) (t : ActType) (b : Bool) (k : Consts) :
    ∀ (as : List Action) (bs : List Bool) (x : Ctx),
      (∀ a ∈ as, ¬ (a.pu = p ∧ a.typ = t)) →
      canonCtx v p as bs (setP v t b k x) = setP v t b k (canonCtx v p as bs x)
  | [], _, _, _ => by simp [canonCtx]
  | _ :: _, [], _, _ => by simp [canonCtx]
  | a :: as, c :: bs, x, h => by
    simp only [canonCtx]
    have ha := h a (by simp)
    have hrest : ∀ a' ∈ as, ¬ (a'.pu = p ∧ a'.typ = t) := fun a' h' => h a' (by simp [h'])
    by_cases hp : a.pu = p
    · have hne : a.typ ≠ t := fun e => ha ⟨hp, e⟩
      simp only [hp, if_true]
      rw [setP_comm v hne c b a.k k x]
      exact canonCtx_set_comm v p t b k as bs _ hrest
    · simp only [hp, if_false]
      exact canonCtx_set_comm v p t b k as bs _ hrest

/-- setting flag i re-sets exactly that action's fields in its own unit's canonical context -/
theorem canonCtx_set_flag (v : VarKind) :
    ∀ (as : List Action) (bs : List Bool) (i : Nat) (a : Action) (w : Bool) (x : Ctx),
      keysDistinct as = true → as[i]? = some a → i < bs.length →
      canonCtx v a.pu as (bs.set i w) x = setP v a.typ w a.k (canonCtx v a.pu as bs x)
  | [], _, _, _, _, _, _, h, _ => by simp at h
  | _ :: _, [], _, _, _, _, _, _, h => by simp at h
  | a0 :: as, c :: bs, 0, a, w, x, hk, h, _ => by
    simp only [List.getElem?_cons_zero, Option.some.injEq] at h
    subst h
    simp only [List.set_cons_zero, canonCtx, if_true]
    have hrest := ((keysDistinct_cons a0 as).mp hk).1
    rw [canonCtx_set_comm v a0.pu a0.typ w a0.k as bs _ hrest,
        canonCtx_set_comm v a0.pu a0.typ c a0.k as bs _ hrest, setP_overwrite]
  | a0 :: as, c :: bs, i+1, a, w, x, hk, h, hl => by
    simp only [List.getElem?_cons_succ] at h
    simp only [List.set_cons_succ, canonCtx]
    exact canonCtx_set_flag v as bs i a w _ ((keysDistinct_cons a0 as).mp hk).2 h (by simpa using hl)

/-- other units' canonical contexts do not move -/
theorem canonCtx_set_flag_other (v : VarKind) :
    ∀ (as : List Action) (bs : List Bool) (i : Nat) (a : Action) (w : Bool) (p : PU) (x : Ctx),
      as[i]? = some a → a.pu ≠ p →
      canonCtx v p as (bs.set i w) x = canonCtx v p as bs x
  | [], _, _, _, _, _, _, h, _ => by simp at h
  | _ :: _, [], _, _, _, _, _, _, _ => by simp [canonCtx]
  | a0 :: as, c :: bs, 0, a, w, p, x, h, hp => by
    simp only [List.getElem?_cons_zero, Option.some.injEq] at h
    subst h
    simp [canonCtx, hp]
  | a0 :: as, c :: bs, i+1, a, w, p, x, h, hp => by
    simp only [List.getElem?_cons_succ] at h
    simp only [List.set_cons_succ, canonCtx]
    exact canonCtx_set_flag_other v as bs i a w p _ h hp

/-- setting a key to its *current* flag is the identity on the canonical context -/
theorem canonCtx_reset_current (v : VarKind)
    (as : List Action) (bs : List Bool) (i : Nat) (a : Action) (c : Bool) (x : Ctx)
    (hk : keysDistinct as = true) (ha : as[i]? = some a) (hb : bs[i]? = some c) :
    setP v a.typ c a.k (canonCtx v a.pu as bs x) = canonCtx v a.pu as bs x := by
  have hl : i < bs.length := by
    rcases Nat.lt_or_ge i bs.length with h | h
    · exact h
    · simp [List.getElem?_eq_none h] at hb
  have := canonCtx_set_flag v as bs i a c x hk ha hl
  rw [← this]
  have hc : c = bs[i] := by
    have := List.getElem?_eq_getElem hl
    rw [this] at hb; exact (Option.some.inj hb).symm
  rw [hc, List.set_getElem_self hl]

/-- with every flag false and consistent initial data the canonical record is the initial record -/
theorem canonCtx_all_false (v : VarKind) (p : PU) (as : List Action) (x : Ctx)
    (h : ∀ a ∈ as, a.pu = p → setP v a.typ false a.k x = x) :
    canonCtx v p as (as.map fun _ => false) x = x := by
  induction as with
  | nil => rfl
  | cons a as ih =>
    simp only [List.map_cons, canonCtx]
    by_cases hp : a.pu = p
    · simp only [hp, if_true]
      rw [h a (by simp) hp]
      exact ih fun a' ha' => h a' (by simp [ha'])
    · simp only [hp, if_false]
      exact ih fun a' ha' => h a' (by simp [ha'])

/-! ### canonical cost of a unit -/

/-- sum of the rounded costs of the active actions of unit `p` -/
def costSum (sel : Consts → Rat) (p : PU) : List Action → List Bool → Rat
  | a :: as, b :: bs => (if a.pu = p ∧ b = true then rnd 2 (sel a.k) else 0) + costSum sel p as bs
  | _, _ => 0

theorem costSum_onGrid (sel : Consts → Rat) (p : PU) :
    ∀ (as : List Action) (bs : List Bool), OnGrid 2 (costSum sel p as bs)
  | [], _ => by simp [costSum, OnGrid.zero]
  | _ :: _, [] => by simp [costSum, OnGrid.zero]
  | a :: as, b :: bs => by
    simp only [costSum]
    refine OnGrid.add ?_ (costSum_onGrid sel p as bs)
    split
    · exact rnd_onGrid _ _
    · exact OnGrid.zero 2

theorem costSum_all_false (sel : Consts → Rat) (p : PU) (as : List Action) :
    costSum sel p as (as.map fun _ => false) = 0 := by
  induction as with
  | nil => rfl
  | cons a as ih =>
    simp only [List.map_cons, costSum, ih]
    simp

/-- flipping flag i from `!w` to `w` moves the unit's cost by ± the rounded cost of that action -/
theorem costSum_set_flag (sel : Consts → Rat) :
    ∀ (as : List Action) (bs : List Bool) (i : Nat) (a : Action) (w : Bool),
      as[i]? = some a → bs[i]? = some (!w) →
      costSum sel a.pu as (bs.set i w) =
        costSum sel a.pu as bs + (if w = true then rnd 2 (sel a.k) else - rnd 2 (sel a.k))
  | [], _, _, _, _, h, _ => by simp at h
  | _ :: _, [], _, _, _, _, h => by simp at h
  | a0 :: as, c :: bs, 0, a, w, h, hb => by
    simp only [List.getElem?_cons_zero, Option.some.injEq] at h hb
    subst h; subst hb
    cases w <;> simp [costSum]; ring
  | a0 :: as, c :: bs, i+1, a, w, h, hb => by
    simp only [List.getElem?_cons_succ] at h hb
    simp only [List.set_cons_succ, costSum]
    rw [costSum_set_flag sel as bs i a w h hb]
    ring

theorem costSum_set_flag_other (sel : Consts → Rat) :
    ∀ (as : List Action) (bs : List Bool) (i : Nat) (a : Action) (w : Bool) (p : PU),
      as[i]? = some a → a.pu ≠ p →
      costSum sel p as (bs.set i w) = costSum sel p as bs
  | [], _, _, _, _, _, h, _ => by simp at h
  | _ :: _, [], _, _, _, _, _, _ => by simp [costSum]
  | a0 :: as, c :: bs, 0, a, w, p, h, hp => by
    simp only [List.getElem?_cons_zero, Option.some.injEq] at h
    subst h
    simp [costSum, hp]
  | a0 :: as, c :: bs, i+1, a, w, p, h, hp => by
    simp only [List.getElem?_cons_succ] at h
    simp only [List.set_cons_succ, costSum]
    rw [costSum_set_flag_other sel as bs i a w p h hp]

end Crem.Catchment
