import Crem.Model.Params
/-! Helper lemmas for C18 (core Lean only). -/
namespace Crem.Params

/-! ### the invariant -/

/-- Every stored entry belongs to a specification and is related to it by `R`;
every non-optional specification has an entry. -/
def Inv (R : Spec → Value → Prop) (p : Params) : Prop :=
  (∀ k v, p.get k = some v → ∃ s, p.specs.find k = some s ∧ R s v) ∧
  (∀ k s, p.specs.find k = some s → s.optional = false → ∃ v, p.get k = some v)

/-- the relation "the value satisfies the specification's validator" -/
def Sat (env : Env) (s : Spec) (v : Value) : Prop := validates env s.validator v = true

/-- the relation "the value has the dynamic type the specification's validator demands" -/
def HasSpecTy (s : Spec) (v : Value) : Prop := v.hasTy s.validator.ty = true

/-- a validator only ever accepts values of the dynamic type it demands -/
theorem validates_hasTy (env : Env) (val : Validator) (v : Value) (h : validates env val v = true) :
    v.hasTy val.ty = true := by
  cases val <;> cases v <;> simp_all [validates, Value.hasTy, Validator.ty]

/-! ### specification lookup -/

theorem find_some {specs : Specs} {k : String} {s : Spec} (h : specs.find k = some s) :
    s ∈ specs ∧ s.key = k := by
  induction specs with
  | nil => simp [Specs.find] at h
  | cons a rest ih =>
    simp only [Specs.find] at h
    split at h
    · rename_i hk
      cases h
      exact ⟨List.mem_cons_self, hk⟩
    · have := ih h
      exact ⟨List.mem_cons_of_mem _ this.1, this.2⟩

theorem find_none {specs : Specs} {k : String} (h : specs.find k = none) : k ∉ specs.keys := by
  induction specs with
  | nil => simp [Specs.keys]
  | cons a rest ih =>
    simp only [Specs.find] at h
    split at h
    · cases h
    · rename_i hk
      have := ih h
      simp only [Specs.keys, List.map_cons, List.mem_cons, not_or] at this ⊢
      exact ⟨fun e => hk e.symm, this⟩

theorem nodupKeys_cons {k : String} {rest : List String} (h : nodupKeys (k :: rest) = true) :
    k ∉ rest ∧ nodupKeys rest = true := by
  simp only [nodupKeys, Bool.and_eq_true, Bool.not_eq_true', List.contains_eq_mem,
    decide_eq_false_iff_not] at h
  exact h

theorem nodupKeys_iff (l : List String) : nodupKeys l = true ↔ l.Nodup := by
  induction l with
  | nil => simp [nodupKeys]
  | cons a rest ih => simp [nodupKeys, List.nodup_cons, ih]

theorem find_of_mem {specs : Specs} (hn : nodupKeys specs.keys = true) {s : Spec} (hs : s ∈ specs) :
    specs.find s.key = some s := by
  induction specs with
  | nil => cases hs
  | cons a rest ih =>
    have hn' := nodupKeys_cons (k := a.key) (rest := Specs.keys rest) hn
    simp only [Specs.find]
    rcases List.mem_cons.mp hs with h | h
    · subst h; simp
    · split
      · rename_i hk
        exfalso
        apply hn'.1
        rw [hk]
        exact List.mem_map.mpr ⟨s, h, rfl⟩
      · exact ih hn'.2 h

/-! ### defaults -/

theorem getKey_defaultsOf {specs : Specs} {k : String} {v : Value}
    (h : getKey (defaultsOf specs) k = some v) :
    ∃ s, s ∈ specs ∧ s.key = k ∧ s.optional = false ∧ s.default = v := by
  induction specs with
  | nil => simp [defaultsOf, getKey] at h
  | cons a rest ih =>
    simp only [defaultsOf] at h
    split at h
    · obtain ⟨s, hs, r⟩ := ih h
      exact ⟨s, List.mem_cons_of_mem _ hs, r⟩
    · rename_i hopt
      simp only [getKey] at h
      split at h
      · rename_i hk
        cases h
        exact ⟨a, List.mem_cons_self, hk, by simpa using hopt, rfl⟩
      · obtain ⟨s, hs, r⟩ := ih h
        exact ⟨s, List.mem_cons_of_mem _ hs, r⟩

theorem getKey_defaultsOf_present {specs : Specs} {s : Spec} (hs : s ∈ specs) (ho : s.optional = false) :
    ∃ v, getKey (defaultsOf specs) s.key = some v := by
  induction specs with
  | nil => cases hs
  | cons a rest ih =>
    simp only [defaultsOf]
    rcases List.mem_cons.mp hs with h | h
    · subst h
      simp [ho, getKey]
    · split
      · exact ih h
      · simp only [getKey]
        split
        · exact ⟨_, rfl⟩
        · exact ih h

/-- a freshly created parameter set satisfies the invariant when every non-optional default
is related to its own specification and keys are distinct -/
theorem createDefaults_inv {R : Spec → Value → Prop} {specs : Specs}
    (hn : nodupKeys specs.keys = true)
    (hd : ∀ s, s ∈ specs → s.optional = false → R s s.default) :
    Inv R (createDefaults specs) := by
  constructor
  · intro k v h
    obtain ⟨s, hs, hk, ho, hv⟩ := getKey_defaultsOf (specs := specs) h
    refine ⟨s, ?_, ?_⟩
    · show Specs.find specs k = some s
      rw [← hk]; exact find_of_mem hn hs
    · rw [← hv]; exact hd s hs ho
  · intro k s h ho
    obtain ⟨hs, hk⟩ := find_some (specs := specs) h
    rw [← hk]
    exact getKey_defaultsOf_present hs ho

/-! ### one assignment -/

@[simp] theorem assignOne_specs (env : Env) (p : Params) (kv : String × Value) :
    (assignOne env p kv).specs = p.specs := by
  unfold assignOne validateParam
  cases errOf (verdict env p.specs kv.1 kv.2) kv.1 <;> simp

theorem assignOne_valid (env : Env) (p : Params) (k : String) (v : Value)
    (h : verdict env p.specs k v = .valid) :
    assignOne env p (k, v) = { p with map := (k, v) :: p.map } := by
  simp [assignOne, validateParam, h, errOf]

theorem assignOne_invalid (env : Env) (p : Params) (k : String) (v : Value)
    (h : verdict env p.specs k v = .invalid) :
    assignOne env p (k, v) = { p with errors := p.errors ++ [.invalid k] } := by
  simp [assignOne, validateParam, h, errOf]

theorem assignOne_unsupported (env : Env) (p : Params) (k : String) (v : Value)
    (h : verdict env p.specs k v = .unsupported) :
    assignOne env p (k, v) = { p with errors := p.errors ++ [.unsupported k] } := by
  simp [assignOne, validateParam, h, errOf]

theorem assignOne_get (env : Env) (p : Params) (k : String) (v : Value) (k' : String) :
    (assignOne env p (k, v)).get k' =
      if verdict env p.specs k v = .valid ∧ k = k' then some v else p.get k' := by
  cases hv : verdict env p.specs k v
  · rw [assignOne_valid env p k v hv]
    simp only [Params.get, getKey, true_and]
  · rw [assignOne_invalid env p k v hv]; simp [Params.get]
  · rw [assignOne_unsupported env p k v hv]; simp [Params.get]

theorem assignOne_errors (env : Env) (p : Params) (k : String) (v : Value) :
    (assignOne env p (k, v)).errors = p.errors ++ (errOf (verdict env p.specs k v) k).toList := by
  cases hv : verdict env p.specs k v
  · rw [assignOne_valid env p k v hv]; simp [errOf]
  · rw [assignOne_invalid env p k v hv]; simp [errOf]
  · rw [assignOne_unsupported env p k v hv]; simp [errOf]

theorem verdict_valid_iff (env : Env) (specs : Specs) (k : String) (v : Value) :
    verdict env specs k v = .valid ↔ ∃ s, specs.find k = some s ∧ validates env s.validator v = true := by
  unfold verdict
  cases h : Specs.find specs k with
  | none => simp
  | some s =>
    simp only [Option.some.injEq, exists_eq_left']
    split <;> simp_all

theorem assignOne_inv {R : Spec → Value → Prop} (env : Env)
    (hR : ∀ s v, validates env s.validator v = true → R s v)
    (p : Params) (kv : String × Value) (h : Inv R p) : Inv R (assignOne env p kv) := by
  obtain ⟨k, v⟩ := kv
  constructor
  · intro k' v' hg
    rw [assignOne_get] at hg
    rw [assignOne_specs]
    split at hg
    · rename_i hc
      obtain ⟨hv, hk⟩ := hc
      have hvv : v = v' := by injection hg
      obtain ⟨s, hs, hval⟩ := (verdict_valid_iff env p.specs k v).mp hv
      exact ⟨s, hk ▸ hs, hvv ▸ hR s v hval⟩
    · exact h.1 k' v' hg
  · intro k' s hs ho
    rw [assignOne_specs] at hs
    rw [assignOne_get]
    split
    · exact ⟨_, rfl⟩
    · exact h.2 k' s hs ho

/-! ### the two loops -/

@[simp] theorem assignAll_specs (env : Env) (p : Params) (user : List (String × Value)) :
    (assignAll env p user).specs = p.specs := by
  induction user generalizing p with
  | nil => rfl
  | cons kv rest ih => simp only [assignAll, List.foldl_cons] at ih ⊢; rw [ih]; simp

theorem assignAll_inv {R : Spec → Value → Prop} (env : Env)
    (hR : ∀ s v, validates env s.validator v = true → R s v)
    (p : Params) (user : List (String × Value)) (h : Inv R p) : Inv R (assignAll env p user) := by
  induction user generalizing p with
  | nil => exact h
  | cons kv rest ih =>
    simp only [assignAll, List.foldl_cons] at ih ⊢
    exact ih _ (assignOne_inv env hR p kv h)

@[simp] theorem enforceOne_specs (env : Env) (user : List (String × Value)) (p : Params) (k : String) :
    (enforceOne env user p k).specs = p.specs := by
  unfold enforceOne
  split <;> simp

theorem enforceOne_inv {R : Spec → Value → Prop} (env : Env)
    (hR : ∀ s v, validates env s.validator v = true → R s v)
    (user : List (String × Value)) (p : Params) (k : String) (h : Inv R p) :
    Inv R (enforceOne env user p k) := by
  unfold enforceOne
  split
  · exact assignOne_inv env hR p _ h
  · exact h

theorem foldl_enforceOne_specs (env : Env) (user : List (String × Value)) (ks : List String) (p : Params) :
    (ks.foldl (enforceOne env user) p).specs = p.specs := by
  induction ks generalizing p with
  | nil => rfl
  | cons k rest ih => simp only [List.foldl_cons]; rw [ih]; simp

@[simp] theorem assignEnforced_specs (env : Env) (p : Params) (user : List (String × Value)) :
    (assignEnforced env p user).specs = p.specs :=
  foldl_enforceOne_specs env user _ p

theorem foldl_enforceOne_inv {R : Spec → Value → Prop} (env : Env)
    (hR : ∀ s v, validates env s.validator v = true → R s v)
    (user : List (String × Value)) (ks : List String) (p : Params) (h : Inv R p) :
    Inv R (ks.foldl (enforceOne env user) p) := by
  induction ks generalizing p with
  | nil => exact h
  | cons k rest ih =>
    simp only [List.foldl_cons]
    exact ih _ (enforceOne_inv env hR user p k h)

theorem assignEnforced_inv {R : Spec → Value → Prop} (env : Env)
    (hR : ∀ s v, validates env s.validator v = true → R s v)
    (p : Params) (user : List (String × Value)) (h : Inv R p) : Inv R (assignEnforced env p user) :=
  foldl_enforceOne_inv env hR user _ p h

/-! ### component level -/

@[simp] theorem applyPost_map (env : Env) (post : Post) (p : Params) : (applyPost env post p).map = p.map := by
  unfold applyPost
  cases post with
  | none => rfl
  | atMostOneOf keys => simp only; split <;> rfl
  | offered key =>
    simp only
    split
    · split <;> rfl
    · rfl

@[simp] theorem applyPost_specs (env : Env) (post : Post) (p : Params) : (applyPost env post p).specs = p.specs := by
  unfold applyPost
  cases post with
  | none => rfl
  | atMostOneOf keys => simp only; split <;> rfl
  | offered key =>
    simp only
    split
    · split <;> rfl
    · rfl

theorem applyPost_errors_prefix (env : Env) (post : Post) (p : Params) :
    ∃ extra, (applyPost env post p).errors = p.errors ++ extra ∧ ∀ e ∈ extra, ∃ t, e = Err.message t := by
  unfold applyPost
  cases post with
  | none => exact ⟨[], by simp⟩
  | atMostOneOf keys =>
    simp only
    split
    · exact ⟨[.message "only-one-limit"], rfl, by simp⟩
    · exact ⟨[], by simp⟩
  | offered key =>
    simp only
    split
    · split
      · exact ⟨[], by simp⟩
      · exact ⟨[.message "variable-not-offered"], rfl, by simp⟩
    · exact ⟨[], by simp⟩

theorem inv_of_map_specs {R : Spec → Value → Prop} {p q : Params} (hm : q.map = p.map) (hs : q.specs = p.specs)
    (h : Inv R p) : Inv R q := by
  unfold Inv Params.get at *
  rw [hm, hs]; exact h

theorem assign_inv {R : Spec → Value → Prop} (env : Env)
    (hR : ∀ s v, validates env s.validator v = true → R s v)
    (mode : Mode) (p : Params) (user : List (String × Value)) (h : Inv R p) : Inv R (assign env mode p user) := by
  cases mode
  · exact assignAll_inv env hR p user h
  · exact assignEnforced_inv env hR p user h

@[simp] theorem assign_specs (env : Env) (mode : Mode) (p : Params) (user : List (String × Value)) :
    (assign env mode p user).specs = p.specs := by
  cases mode <;> simp [assign]

theorem setParameters_inv {R : Spec → Value → Prop} (env : Env)
    (hR : ∀ s v, validates env s.validator v = true → R s v)
    (c : Component) (p : Params) (user : List (String × Value)) (h : Inv R p) :
    Inv R (setParameters env c p user) :=
  inv_of_map_specs (applyPost_map env c.post _) (applyPost_specs env c.post _) (assign_inv env hR c.mode p user h)

@[simp] theorem setParameters_specs (env : Env) (c : Component) (p : Params) (user : List (String × Value)) :
    (setParameters env c p user).specs = p.specs := by
  simp [setParameters]

theorem foldl_setParameters_inv {R : Spec → Value → Prop} (env : Env)
    (hR : ∀ s v, validates env s.validator v = true → R s v)
    (c : Component) (users : List (List (String × Value))) (p : Params) (h : Inv R p) :
    Inv R (users.foldl (setParameters env c) p) := by
  induction users generalizing p with
  | nil => exact h
  | cons u rest ih =>
    simp only [List.foldl_cons]
    exact ih _ (setParameters_inv env hR c p u h)

theorem foldl_setParameters_specs (env : Env) (c : Component) (users : List (List (String × Value))) (p : Params) :
    (users.foldl (setParameters env c) p).specs = p.specs := by
  induction users generalizing p with
  | nil => rfl
  | cons u rest ih => simp only [List.foldl_cons]; rw [ih]; simp

/-! ### well-formedness as Props -/

theorem specsWellFormed_iff (env : Env) (specs : Specs) :
    specsWellFormed env specs = true ↔
      nodupKeys specs.keys = true ∧ ∀ s, s ∈ specs → s.optional = false → validates env s.validator s.default = true := by
  simp only [specsWellFormed, specWellFormed, Bool.and_eq_true, List.all_eq_true, Bool.or_eq_true]
  constructor
  · rintro ⟨h1, h2⟩
    refine ⟨h1, fun s hs ho => ?_⟩
    rcases h2 s hs with h | h
    · rw [ho] at h; cases h
    · exact h
  · rintro ⟨h1, h2⟩
    refine ⟨h1, fun s hs => ?_⟩
    cases ho : s.optional
    · exact Or.inr (h2 s hs ho)
    · exact Or.inl rfl

theorem specsTypeWellFormed_iff (specs : Specs) :
    specsTypeWellFormed specs = true ↔
      nodupKeys specs.keys = true ∧ ∀ s, s ∈ specs → s.optional = false → s.default.hasTy s.validator.ty = true := by
  simp only [specsTypeWellFormed, specTypeWellFormed, Bool.and_eq_true, List.all_eq_true, Bool.or_eq_true]
  constructor
  · rintro ⟨h1, h2⟩
    refine ⟨h1, fun s hs ho => ?_⟩
    rcases h2 s hs with h | h
    · rw [ho] at h; cases h
    · exact h
  · rintro ⟨h1, h2⟩
    refine ⟨h1, fun s hs => ?_⟩
    cases ho : s.optional
    · exact Or.inr (h2 s hs ho)
    · exact Or.inl rfl

/-- full well-formedness implies the type-level one -/
theorem specsTypeWellFormed_of_wellFormed (env : Env) (specs : Specs) (h : specsWellFormed env specs = true) :
    specsTypeWellFormed specs = true := by
  rw [specsWellFormed_iff] at h
  rw [specsTypeWellFormed_iff]
  exact ⟨h.1, fun s hs ho => validates_hasTy env _ _ (h.2 s hs ho)⟩

/-! ### characterisation of the two loops -/

theorem getKey_none_of_not_mem {l : List (String × Value)} {k : String} (h : k ∉ l.map (·.1)) :
    getKey l k = none := by
  induction l with
  | nil => rfl
  | cons a rest ih =>
    obtain ⟨k', v⟩ := a
    simp only [List.map_cons, List.mem_cons, not_or] at h
    simp only [getKey]
    split
    · rename_i hk; exact absurd hk.symm h.1
    · exact ih h.2

theorem getKey_some_mem {l : List (String × Value)} {k : String} {v : Value} (h : getKey l k = some v) :
    (k, v) ∈ l := by
  induction l with
  | nil => simp [getKey] at h
  | cons a rest ih =>
    obtain ⟨k', v'⟩ := a
    simp only [getKey] at h
    split at h
    · rename_i hk; cases h; subst hk; exact List.mem_cons_self
    · exact List.mem_cons_of_mem _ (ih h)

theorem getKey_of_mem_nodup {l : List (String × Value)} (hn : nodupKeys (l.map (·.1)) = true)
    {k : String} {v : Value} (h : (k, v) ∈ l) : getKey l k = some v := by
  induction l with
  | nil => cases h
  | cons a rest ih =>
    obtain ⟨k', v'⟩ := a
    have hn' := nodupKeys_cons (k := k') (rest := rest.map (fun x : String × Value => x.1)) hn
    simp only [getKey]
    rcases List.mem_cons.mp h with e | e
    · cases e; simp
    · split
      · rename_i hk
        exfalso; apply hn'.1; rw [hk]
        exact List.mem_map.mpr ⟨(k, v), e, rfl⟩
      · exact ih hn'.2 e

/-- errors appended by `AssignAllUserValues`: one per rejected user entry, in iteration order -/
theorem assignAll_errors (env : Env) (p : Params) (user : List (String × Value)) :
    (assignAll env p user).errors =
      p.errors ++ user.filterMap (fun kv => errOf (verdict env p.specs kv.1 kv.2) kv.1) := by
  induction user generalizing p with
  | nil => simp [assignAll]
  | cons kv rest ih =>
    obtain ⟨k, v⟩ := kv
    simp only [assignAll, List.foldl_cons] at ih ⊢
    rw [ih, assignOne_specs, assignOne_errors, List.filterMap_cons]
    cases errOf (verdict env p.specs k v) k <;> simp

/-- the map after `AssignAllUserValues` of a user map (distinct keys) -/
theorem assignAll_get (env : Env) (p : Params) (user : List (String × Value))
    (hn : nodupKeys (user.map (·.1)) = true) (k : String) :
    (assignAll env p user).get k =
      match getKey user k with
      | some v => if verdict env p.specs k v = .valid then some v else p.get k
      | none => p.get k := by
  induction user generalizing p with
  | nil => simp [assignAll, getKey]
  | cons kv rest ih =>
    obtain ⟨k0, v0⟩ := kv
    have hn' := nodupKeys_cons (k := k0) (rest := rest.map (fun x : String × Value => x.1)) hn
    simp only [assignAll, List.foldl_cons] at ih ⊢
    rw [ih _ hn'.2, assignOne_specs, assignOne_get]
    simp only [getKey]
    by_cases hk : k0 = k
    · subst hk
      rw [getKey_none_of_not_mem hn'.1]
      simp
    · simp only [hk, and_false, if_false]

theorem foldl_enforceOne_errors (env : Env) (user : List (String × Value)) (ks : List String) (p : Params) :
    (ks.foldl (enforceOne env user) p).errors =
      p.errors ++ ks.filterMap (fun k => match getKey user k with
        | some v => errOf (verdict env p.specs k v) k
        | none => none) := by
  induction ks generalizing p with
  | nil => simp
  | cons k rest ih =>
    simp only [List.foldl_cons]
    rw [ih, enforceOne_specs, List.filterMap_cons]
    unfold enforceOne
    cases hu : getKey user k with
    | none => simp
    | some v =>
      simp only
      rw [assignOne_errors]
      cases errOf (verdict env p.specs k v) k <;> simp

theorem foldl_enforceOne_get (env : Env) (user : List (String × Value)) (ks : List String) (p : Params)
    (hn : nodupKeys ks = true) (k : String) :
    (ks.foldl (enforceOne env user) p).get k =
      if k ∈ ks then
        match getKey user k with
        | some v => if verdict env p.specs k v = .valid then some v else p.get k
        | none => p.get k
      else p.get k := by
  induction ks generalizing p with
  | nil => simp
  | cons k0 rest ih =>
    have hn' := nodupKeys_cons hn
    simp only [List.foldl_cons]
    rw [ih _ hn'.2, enforceOne_specs]
    by_cases hk : k0 = k
    · subst hk
      simp only [hn'.1, if_false, List.mem_cons, true_or, if_true]
      unfold enforceOne
      cases hu : getKey user k0 with
      | none => rfl
      | some v => simp only; rw [assignOne_get]; simp
    · have hget : (enforceOne env user p k0).get k = p.get k := by
        unfold enforceOne
        cases hu : getKey user k0 with
        | none => rfl
        | some v => simp only; rw [assignOne_get]; simp [hk]
      have hk' : ¬ k = k0 := fun e => hk e.symm
      simp only [hget, List.mem_cons, hk', false_or]

/-! ### what a key holds after a whole history (round 3) -/

/-- the value a user map offers for `k`, if the key's specification accepts it -/
def validOffer (env : Env) (specs : Specs) (k : String) (u : List (String × Value)) : Option Value :=
  match getKey u k with
  | some v => if verdict env specs k v = .valid then some v else none
  | none => none

/-- what `CreatingDefaults` stores under `k`: the default of a non-optional specification, nothing otherwise -/
def defaultEntry (specs : Specs) (k : String) : Option Value :=
  match specs.find k with
  | some s => if s.optional then none else some s.default
  | none => none

theorem getKey_defaultsOf_none {specs : Specs} {k : String} (h : k ∉ specs.keys) :
    getKey (defaultsOf specs) k = none := by
  cases hg : getKey (defaultsOf specs) k with
  | none => rfl
  | some v =>
    obtain ⟨s, hs, hk, _, _⟩ := getKey_defaultsOf hg
    exact absurd (List.mem_map.mpr ⟨s, hs, hk⟩) h

theorem createDefaults_get {specs : Specs} (hn : nodupKeys specs.keys = true) (k : String) :
    (createDefaults specs).get k = defaultEntry specs k := by
  show getKey (defaultsOf specs) k = defaultEntry specs k
  unfold defaultEntry
  induction specs with
  | nil => rfl
  | cons a rest ih =>
    have hn' := nodupKeys_cons (k := a.key) (rest := Specs.keys rest) hn
    simp only [Specs.find, defaultsOf]
    by_cases hk : a.key = k
    · subst hk
      simp only [if_true]
      cases ho : a.optional
      · simp [getKey]
      · simpa using getKey_defaultsOf_none hn'.1
    · simp only [hk, if_false]
      cases ho : a.optional
      · simp only [Bool.false_eq_true, if_false, getKey, hk]
        exact ih hn'.2
      · simpa using ih hn'.2

theorem verdict_valid_mem_keys {env : Env} {specs : Specs} {k : String} {v : Value}
    (h : verdict env specs k v = .valid) : k ∈ specs.keys := by
  obtain ⟨s, hs, _⟩ := (verdict_valid_iff env specs k v).mp h
  obtain ⟨hmem, hkey⟩ := find_some hs
  exact List.mem_map.mpr ⟨s, hmem, hkey⟩

@[simp] theorem applyPost_get (env : Env) (post : Post) (p : Params) (k : String) :
    (applyPost env post p).get k = p.get k := by
  unfold Params.get; rw [applyPost_map]

/-- one `SetParameters`, either mode: a key takes the offered value if its specification accepts it,
else keeps what it had -/
theorem setParameters_get (env : Env) (c : Component) (p : Params) (u : List (String × Value))
    (hn : nodupKeys p.specs.keys = true) (hu : nodupKeys (u.map (·.1)) = true) (k : String) :
    (setParameters env c p u).get k = (validOffer env p.specs k u).or (p.get k) := by
  unfold setParameters
  rw [applyPost_get]
  unfold validOffer
  cases hm : c.mode
  · simp only [assign]
    rw [assignAll_get env p u hu k]
    cases getKey u k with
    | none => simp
    | some v => simp only; split <;> simp
  · simp only [assign]
    unfold assignEnforced
    rw [foldl_enforceOne_get env u _ p hn k]
    cases hg : getKey u k with
    | none => simp
    | some v =>
      simp only
      by_cases hv : verdict env p.specs k v = .valid
      · simp [hv, verdict_valid_mem_keys hv]
      · simp [hv]

/-- a whole history from any state: the latest accepted offer, else what the state held -/
theorem foldl_setParameters_get (env : Env) (c : Component) (users : List (List (String × Value)))
    (p : Params) (hs : p.specs = c.specs) (hn : nodupKeys c.specs.keys = true)
    (hu : ∀ u ∈ users, nodupKeys (u.map (·.1)) = true) (k : String) :
    (users.foldl (setParameters env c) p).get k =
      (users.reverse.findSome? (validOffer env c.specs k)).or (p.get k) := by
  induction users generalizing p with
  | nil => simp
  | cons u rest ih =>
    simp only [List.foldl_cons, List.reverse_cons, List.findSome?_append]
    rw [ih _ (by rw [setParameters_specs, hs]) (fun u' h' => hu u' (List.mem_cons_of_mem _ h'))]
    rw [setParameters_get env c p u (hs ▸ hn) (hu u List.mem_cons_self) k, hs]
    have h1 : List.findSome? (validOffer env c.specs k) [u] = validOffer env c.specs k u := by
      cases h : validOffer env c.specs k u <;> simp [List.findSome?, h]
    rw [h1]
    cases List.findSome? (validOffer env c.specs k) rest.reverse <;> simp

/-! ### errors only grow -/

theorem assign_errors_prefix (env : Env) (mode : Mode) (p : Params) (u : List (String × Value)) :
    ∃ extra, (assign env mode p u).errors = p.errors ++ extra := by
  cases mode
  · exact ⟨_, assignAll_errors env p u⟩
  · exact ⟨_, foldl_enforceOne_errors env u _ p⟩

theorem setParameters_errors_prefix' (env : Env) (c : Component) (p : Params) (u : List (String × Value)) :
    ∃ extra, (setParameters env c p u).errors = p.errors ++ extra := by
  unfold setParameters
  obtain ⟨e2, h2, _⟩ := applyPost_errors_prefix env c.post (assign env c.mode p u)
  obtain ⟨e1, h1⟩ := assign_errors_prefix env c.mode p u
  exact ⟨e1 ++ e2, by rw [h2, h1, List.append_assoc]⟩

theorem foldl_setParameters_errors_prefix (env : Env) (c : Component) (users : List (List (String × Value)))
    (p : Params) : ∃ extra, (users.foldl (setParameters env c) p).errors = p.errors ++ extra := by
  induction users generalizing p with
  | nil => exact ⟨[], by simp⟩
  | cons u rest ih =>
    simp only [List.foldl_cons]
    obtain ⟨e1, h1⟩ := setParameters_errors_prefix' env c p u
    obtain ⟨e2, h2⟩ := ih (setParameters env c p u)
    exact ⟨e1 ++ e2, by rw [h2, h1, List.append_assoc]⟩

/-- `AssignAllUserValues` components: an unsupported key of any map of the history is in the final errors -/
theorem foldl_setParameters_reports_unsupported (env : Env) (c : Component) (hm : c.mode = .all)
    (users : List (List (String × Value))) (p : Params) (hs : p.specs = c.specs)
    (u : List (String × Value)) (hu : u ∈ users) (k : String) (v : Value) (hmem : (k, v) ∈ u)
    (hk : k ∉ c.specs.keys) :
    Err.unsupported k ∈ (users.foldl (setParameters env c) p).errors := by
  induction users generalizing p with
  | nil => cases hu
  | cons u' rest ih =>
    simp only [List.foldl_cons]
    rcases List.mem_cons.mp hu with h | h
    · subst h
      obtain ⟨extra, he⟩ := foldl_setParameters_errors_prefix env c rest (setParameters env c p u)
      rw [he]
      apply List.mem_append_left
      unfold setParameters
      obtain ⟨e2, h2, _⟩ := applyPost_errors_prefix env c.post (assign env c.mode p u)
      rw [h2]
      apply List.mem_append_left
      simp only [assign, hm]
      rw [assignAll_errors]
      apply List.mem_append_right
      rw [List.mem_filterMap]
      refine ⟨(k, v), hmem, ?_⟩
      have : Specs.find p.specs k = none := by
        cases hf : Specs.find p.specs k with
        | none => rfl
        | some s =>
          exfalso; apply hk
          obtain ⟨hs', hkey⟩ := find_some hf
          rw [← hs]
          exact List.mem_map.mpr ⟨s, hs', hkey⟩
      simp [verdict, this, errOf]
    · exact ih _ (by rw [setParameters_specs, hs]) h

/-! ### fan-out (round 3) -/

theorem verdict_invalid_mem_keys {env : Env} {specs : Specs} {k : String} {v : Value}
    (h : verdict env specs k v = .invalid) : k ∈ specs.keys := by
  unfold verdict at h
  cases hf : Specs.find specs k with
  | none => rw [hf] at h; cases h
  | some s =>
    obtain ⟨hmem, hkey⟩ := find_some hf
    exact List.mem_map.mpr ⟨s, hmem, hkey⟩

/-- an offered value that the key's specification rejects is reported by `SetParameters`, either mode -/
theorem setParameters_reports_invalid (env : Env) (c : Component) (p : Params) (u : List (String × Value))
    (k : String) (v : Value) (hoffer : getKey u k = some v) (hv : verdict env p.specs k v = .invalid) :
    Err.invalid k ∈ (setParameters env c p u).errors := by
  unfold setParameters
  obtain ⟨e2, h2, _⟩ := applyPost_errors_prefix env c.post (assign env c.mode p u)
  rw [h2]
  apply List.mem_append_left
  cases hm : c.mode
  · simp only [assign]
    rw [assignAll_errors]
    apply List.mem_append_right
    rw [List.mem_filterMap]
    exact ⟨(k, v), getKey_some_mem hoffer, by simp [hv, errOf]⟩
  · simp only [assign]
    unfold assignEnforced
    rw [foldl_enforceOne_errors]
    apply List.mem_append_right
    rw [List.mem_filterMap]
    exact ⟨k, verdict_invalid_mem_keys hv, by simp [hoffer, hv, errOf]⟩

theorem mem_mergedErrors {parts : List Part} {e : Err} :
    e ∈ mergedErrors parts ↔ ∃ pt ∈ parts, e ∈ pt.p.errors := by
  simp [mergedErrors, List.mem_flatMap]

theorem reportsErrors_iff (parts : List Part) :
    reportsErrors parts = true ↔ ∃ pt ∈ parts, pt.p.errors ≠ [] := by
  unfold reportsErrors
  rw [Bool.not_eq_true', List.isEmpty_eq_false_iff_exists_mem]
  constructor
  · rintro ⟨e, he⟩
    obtain ⟨pt, hpt, hmem⟩ := mem_mergedErrors.mp he
    exact ⟨pt, hpt, List.ne_nil_of_mem hmem⟩
  · rintro ⟨pt, hpt, hne⟩
    obtain ⟨e, he⟩ := List.exists_mem_of_ne_nil _ hne
    exact ⟨e, mem_mergedErrors.mpr ⟨pt, hpt, he⟩⟩

theorem foldl_fanOut (users : List (List (String × Value))) (parts : List Part) :
    users.foldl fanOut parts =
      parts.map fun pt => { pt with p := users.foldl (setParameters pt.env pt.comp) pt.p } := by
  induction users generalizing parts with
  | nil => simp
  | cons u rest ih =>
    simp only [List.foldl_cons]
    rw [ih]
    simp [fanOut, Part.set, List.map_map, Function.comp_def]

end Crem.Params
