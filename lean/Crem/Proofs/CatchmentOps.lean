import Crem.Proofs.Catchment
/-!
`Canon` is preserved by every whole transaction of the catchment model:
accepted toggle, reverted toggle, `setAction`, `setAll`, `initialising`, `initialise`,
`allActive`, `randomizeUnbounded`, `seekLimit`, `randomize`.
-/
namespace Crem.Catchment

/-- the state after an observed toggle of action `a` (index `i`) to activity `b` has been accepted -/
def toggled (a : Action) (b : Bool) (i : Nat) (s : State) : State :=
  { flags := s.flags.set i b, last := some i,
    sed := doP .sed (observeP .sed a b s.sed),
    pn := doP .pn (observeP .pn a b s.pn),
    dn := doP .dn (observeP .dn a b s.dn),
    tn := doS 3 (observeS 3 a.pu
      (rnd 3 (rnd 3 (changeP (observeP .pn a b s.pn)) + rnd 3 (changeP (observeP .dn a b s.dn)))) s.tn),
    ic := doS 2 (observeS 2 a.pu (costChange b a.k.implCost) s.ic),
    oc := doS 2 (observeS 2 a.pu (costChange b a.k.oppCost) s.oc) }

/-- the state while that toggle is only proposed -/
def observed (a : Action) (b : Bool) (i : Nat) (s : State) : State :=
  observeAll a b { s with flags := s.flags.set i b, last := some i }

theorem toggleObserved_eq {D : Data} {s : State} {i : Nat} {b : Bool} {a : Action}
    (ha : D.acts[i]? = some a) : toggleObserved D s i b = observed a b i s := by
  unfold toggleObserved; rw [ha]; rfl

theorem accept_observed (a : Action) (b : Bool) (i : Nat) (s : State) :
    accept (observed a b i s) = toggled a b i s := rfl

theorem costChange_eq (b : Bool) (c : Rat) :
    costChange b c = if b = true then rnd 2 c else - rnd 2 c := by
  cases b <;> simp [costChange, rnd_neg]

theorem costChange_onGrid (b : Bool) (c : Rat) : OnGrid 2 (costChange b c) := rnd_onGrid _ _

theorem getElem?_of_canon {D : Data} {s : State} (hc : Canon D s) {i : Nat} {cur : Bool}
    (hf : s.flags[i]? = some cur) : ∃ a, D.acts[i]? = some a := by
  have hl : i < s.flags.length := by
    rcases Nat.lt_or_ge i s.flags.length with h | h
    · exact h
    · simp [List.getElem?_eq_none h] at hf
  rw [hc.len] at hl
  exact ⟨D.acts[i], List.getElem?_eq_getElem hl⟩

/-- everything the properties need about one accepted observed toggle -/
structure StepFacts (D : Data) (s : State) (a : Action) (b : Bool) (i : Nat) : Prop where
  canon : Canon D (toggled a b i s)
  total : ∀ v, total (toggled a b i s) v = total s v + change (observed a b i s) v
  other : ∀ v p, p ≠ a.pu → unitVal (toggled a b i s) v p = unitVal s v p

theorem unitValP_putC_other (c : Cell) {p q : PU} (h : q ≠ p)
    (s s' : PVar) (hs : s'.cells = putC s.cells p c) : unitValP s' q = unitValP s q := by
  unfold unitValP; rw [hs, getC_putC_other _ _ h]

theorem unitValS_putC_other (c : Rat) {p q : PU} (h : q ≠ p)
    (s s' : SVar) (hs : s'.cells = putC s.cells p c) : unitValS s' q = unitValS s q := by
  unfold unitValS; rw [hs, getC_putC_other _ _ h]

theorem toggled_facts {D : Data} {s : State} {a : Action} {b : Bool} {i : Nat}
    (hI : InitFacts D) (hK : keysDistinct D.acts = true) (hc : Canon D s)
    (ha : D.acts[i]? = some a) (hb : s.flags[i]? = some (!b)) : StepFacts D s a b i := by
  have mem : a ∈ D.acts := List.mem_of_getElem? ha
  obtain ⟨xs, hxs, _⟩ := hI.sed a mem
  obtain ⟨xp, hxp, _⟩ := hI.pn a mem
  obtain ⟨xd, hxd, _⟩ := hI.dn a mem
  obtain ⟨s1, s2, s3, s4⟩ := hc.sed.step hK hI.dsed ha hb hxs
  obtain ⟨p1, p2, p3, p4⟩ := hc.pn.step hK hI.dpn ha hb hxp
  obtain ⟨d1, d2, d3, d4⟩ := hc.dn.step hK hI.ddn ha hb hxd
  -- total nitrogen
  have hch : rnd 3 (rnd 3 (changeP (observeP .pn a b s.pn)) + rnd 3 (changeP (observeP .dn a b s.dn)))
      = (canonVal .pn D.acts (s.flags.set i b) D.pn0 a.pu - canonVal .pn D.acts s.flags D.pn0 a.pu)
        + (canonVal .dn D.acts (s.flags.set i b) D.dn0 a.pu - canonVal .dn D.acts s.flags D.dn0 a.pu) := by
    rw [p3, d3]
    have g1 := (canonVal_onGrid .pn D.acts (s.flags.set i b) D.pn0 a.pu).sub
      (canonVal_onGrid .pn D.acts s.flags D.pn0 a.pu)
    have g2 := (canonVal_onGrid .dn D.acts (s.flags.set i b) D.dn0 a.pu).sub
      (canonVal_onGrid .dn D.acts s.flags D.dn0 a.pu)
    rw [rnd_of_onGrid g1, rnd_of_onGrid g2, rnd_of_onGrid (g1.add g2)]
  obtain ⟨t1, t2, t3, t4⟩ := CanonS.step (prec := 3)
    (g := fun p => canonVal .pn D.acts s.flags D.pn0 p + canonVal .dn D.acts s.flags D.dn0 p)
    (g' := fun p => canonVal .pn D.acts (s.flags.set i b) D.pn0 p
                    + canonVal .dn D.acts (s.flags.set i b) D.dn0 p)
    (ch := rnd 3 (rnd 3 (changeP (observeP .pn a b s.pn)) + rnd 3 (changeP (observeP .dn a b s.dn))))
    hc.tn hI.dpn hxp
    (fun q => (canonVal_onGrid _ _ _ _ _).add (canonVal_onGrid _ _ _ _ _))
    (rnd_onGrid _ _)
    (by rw [hch]; ring)
    (fun q hq => by
      show canonVal .pn D.acts (s.flags.set i b) D.pn0 q + canonVal .dn D.acts (s.flags.set i b) D.dn0 q
        = canonVal .pn D.acts s.flags D.pn0 q + canonVal .dn D.acts s.flags D.dn0 q
      rw [canonVal_set_flag_other .pn D.acts s.flags D.pn0 b ha (fun e => hq e.symm),
          canonVal_set_flag_other .dn D.acts s.flags D.dn0 b ha (fun e => hq e.symm)])
  -- costs
  have cost : ∀ (sel : Consts → Rat) (sv : SVar), CanonS (canonCostCells sel D s.flags) sv →
      CanonS (canonCostCells sel D (s.flags.set i b)) (doS 2 (observeS 2 a.pu (costChange b (sel a.k)) sv)) ∧
      (doS 2 (observeS 2 a.pu (costChange b (sel a.k)) sv)).cells
        = putC sv.cells a.pu (costSum sel a.pu D.acts s.flags + costChange b (sel a.k)) ∧
      changeS (observeS 2 a.pu (costChange b (sel a.k)) sv) = costChange b (sel a.k) ∧
      (doS 2 (observeS 2 a.pu (costChange b (sel a.k)) sv)).total = sv.total + costChange b (sel a.k) := by
    intro sel sv hsv
    exact CanonS.step (prec := 2)
      (g := fun p => costSum sel p D.acts s.flags)
      (g' := fun p => costSum sel p D.acts (s.flags.set i b))
      hsv hI.dsed hxs (fun q => costSum_onGrid _ _ _ _) (costChange_onGrid _ _)
      (by show costSum sel a.pu D.acts (s.flags.set i b) = _
          rw [costSum_set_flag sel D.acts s.flags i a b ha hb, costChange_eq])
      (fun q hq => costSum_set_flag_other sel D.acts s.flags i a b q ha (fun e => hq e.symm))
  obtain ⟨i1, i2, i3, i4⟩ := cost (·.implCost) s.ic hc.ic
  obtain ⟨o1, o2, o3, o4⟩ := cost (·.oppCost) s.oc hc.oc
  refine ⟨⟨?_, s1, p1, d1, t1, i1, o1⟩, ?_, ?_⟩
  · show (s.flags.set i b).length = _
    rw [List.length_set]; exact hc.len
  · intro v
    cases v
    · exact s4
    · exact p4
    · exact d4
    · exact t4.trans (congrArg (s.tn.total + ·) t3.symm)
    · exact i4.trans (congrArg (s.ic.total + ·) i3.symm)
    · exact o4.trans (congrArg (s.oc.total + ·) o3.symm)
  · intro v p hp
    cases v
    · exact unitValP_putC_other _ hp _ _ s2
    · exact unitValP_putC_other _ hp _ _ p2
    · exact unitValP_putC_other _ hp _ _ d2
    · exact unitValS_putC_other _ hp _ _ t2
    · exact unitValS_putC_other _ hp _ _ i2
    · exact unitValS_putC_other _ hp _ _ o2

/-! ### proposal only -/

theorem observed_sameVals (a : Action) (b : Bool) (i : Nat) (s : State) :
    (observed a b i s).sed.cells = s.sed.cells ∧ (observed a b i s).sed.total = s.sed.total ∧
    (observed a b i s).pn.cells = s.pn.cells ∧ (observed a b i s).pn.total = s.pn.total ∧
    (observed a b i s).dn.cells = s.dn.cells ∧ (observed a b i s).dn.total = s.dn.total ∧
    (observed a b i s).tn.cells = s.tn.cells ∧ (observed a b i s).tn.total = s.tn.total ∧
    (observed a b i s).ic.cells = s.ic.cells ∧ (observed a b i s).ic.total = s.ic.total ∧
    (observed a b i s).oc.cells = s.oc.cells ∧ (observed a b i s).oc.total = s.oc.total :=
  ⟨observeP_cells _ _ _ _, observeP_total _ _ _ _, observeP_cells _ _ _ _, observeP_total _ _ _ _,
   observeP_cells _ _ _ _, observeP_total _ _ _ _, rfl, rfl, rfl, rfl, rfl, rfl⟩

/-! ### reverted toggle -/

theorem flipFlag_set {flags : List Bool} {i : Nat} {cur : Bool} (h : flags[i]? = some cur) :
    flipFlag (flags.set i (!cur)) i = flags := by
  have hl : i < flags.length := by
    rcases Nat.lt_or_ge i flags.length with h' | h'
    · exact h'
    · simp [List.getElem?_eq_none h'] at h
  have hc : cur = flags[i] := by
    rw [List.getElem?_eq_getElem hl] at h; exact (Option.some.inj h).symm
  unfold flipFlag
  rw [List.getElem?_set_self hl]
  simp only [List.set_set, Bool.not_not]
  rw [hc, List.set_getElem_self hl]

theorem isSome_getC_canonCells {v : VarKind} {acts : List Action} {c0 : List (PU × Ctx)}
    {bs : List Bool} {s : PVar} (hc : CanonP v acts c0 bs s) {p : PU} {x : Ctx}
    (hx : getC c0 p = some x) : (getC s.cells p).isSome = true := by
  rw [hc.cells, canonCells, getC_mapC, hx]; rfl

/-- reverting a proposal restores flags, all cells and all totals -/
theorem revert_observed_sameVals {D : Data} {s : State} {a : Action} {i : Nat} {cur : Bool}
    (hI : InitFacts D) (hc : Canon D s) (ha : D.acts[i]? = some a) (hf : s.flags[i]? = some cur) :
    SameVals s (revert (observed a (!cur) i s)) := by
  have mem : a ∈ D.acts := List.mem_of_getElem? ha
  obtain ⟨xs, hxs, _⟩ := hI.sed a mem
  obtain ⟨xp, hxp, _⟩ := hI.pn a mem
  obtain ⟨xd, hxd, _⟩ := hI.dn a mem
  have e1 := undoP_observeP .sed a (!cur) s.sed (isSome_getC_canonCells hc.sed hxs)
  have e2 := undoP_observeP .pn a (!cur) s.pn (isSome_getC_canonCells hc.pn hxp)
  have e3 := undoP_observeP .dn a (!cur) s.dn (isSome_getC_canonCells hc.dn hxd)
  have hrev : revert (observed a (!cur) i s) =
      { (observed a (!cur) i s) with flags := flipFlag (s.flags.set i (!cur)) i } := by
    simp only [revert, observed, observeAll, rejectAll, e1, e2, e3, undoS_observeS]
  rw [hrev, flipFlag_set hf]
  obtain ⟨h1, h2, h3, h4, h5, h6, h7, h8, h9, h10, h11, h12⟩ := observed_sameVals a (!cur) i s
  exact ⟨rfl, h1, h2, h3, h4, h5, h6, h7, h8, h9, h10, h11, h12⟩

/-! ### transactions preserve `Canon` -/

section ops
variable {D : Data} (hI : InitFacts D) (hK : keysDistinct D.acts = true)
include hI hK

/-- the one-step lemma: an accepted observed toggle of action `i` from `!b` to `b` -/
theorem accept_toggleObserved_canon {s : State} (hc : Canon D s) {i : Nat} {b : Bool}
    (hi : i < D.acts.length) (hb : s.flags[i]? = some (!b)) :
    Canon D (accept (toggleObserved D s i b)) := by
  have ha : D.acts[i]? = some D.acts[i] := List.getElem?_eq_getElem hi
  rw [toggleObserved_eq ha, accept_observed]
  exact (toggled_facts hI hK hc ha hb).canon

theorem accept_propose_canon {s : State} (hc : Canon D s) {i : Nat} (hi : i < D.acts.length) :
    Canon D (accept (propose D s i)) := by
  have hl : i < s.flags.length := by rw [hc.len]; exact hi
  have hf : s.flags[i]? = some s.flags[i] := List.getElem?_eq_getElem hl
  have ha : D.acts[i]? = some D.acts[i] := List.getElem?_eq_getElem hi
  unfold propose
  rw [hf]
  simp only
  rw [toggleObserved_eq ha, accept_observed]
  exact (toggled_facts hI hK hc ha (by rw [hf, Bool.not_not])).canon

omit hK in
theorem revert_propose_sameVals {s : State} (hc : Canon D s) {i : Nat} (hi : i < D.acts.length) :
    SameVals s (revert (propose D s i)) := by
  have hl : i < s.flags.length := by rw [hc.len]; exact hi
  have hf : s.flags[i]? = some s.flags[i] := List.getElem?_eq_getElem hl
  have ha : D.acts[i]? = some D.acts[i] := List.getElem?_eq_getElem hi
  unfold propose
  rw [hf]
  simp only
  rw [toggleObserved_eq ha]
  exact revert_observed_sameVals hI hc ha hf

omit hK in
theorem revert_propose_canon {s : State} (hc : Canon D s) {i : Nat} (hi : i < D.acts.length) :
    Canon D (revert (propose D s i)) :=
  hc.of_sameVals (revert_propose_sameVals hI hc hi)

theorem setAction_canon {s : State} (hc : Canon D s) (i : Nat) (b : Bool) :
    Canon D (setAction D s i b) := by
  unfold setAction
  split
  · exact hc
  · rename_i cur hf
    split
    · exact hc
    · rename_i hne
      obtain ⟨a, ha⟩ := getElem?_of_canon hc hf
      rw [toggleObserved_eq ha, accept_observed]
      have : cur = !b := by cases cur <;> cases b <;> simp_all
      exact (toggled_facts hI hK hc ha (by rw [hf, this])).canon

omit hI hK in
theorem foldl_inv {σ β : Type} (P : σ → Prop) (f : σ → β → σ) (hf : ∀ s x, P s → P (f s x)) :
    ∀ (l : List β) (s : σ), P s → P (l.foldl f s)
  | [], _, h => h
  | x :: xs, s, h => foldl_inv P f hf xs (f s x) (hf s x h)

theorem setAll_canon {s : State} (hc : Canon D s) (bits : List Bool) :
    Canon D (setAll D s bits) := by
  unfold setAll
  exact foldl_inv (Canon D) _ (fun s x h => setAction_canon hI hK h x.2 x.1) _ _ hc

omit hI hK in
theorem initialising_eq {s : State} {i : Nat} {b cur : Bool} {a : Action}
    (hf : s.flags[i]? = some cur) (ha : D.acts[i]? = some a) (hne : ¬ cur = b) :
    initialising D s i b = { toggled a b i s with last := s.last } := by
  unfold initialising
  rw [hf, ha]
  simp only [hne, if_false, changeP_doP, toggled]

omit hI hK in
theorem Canon.with_last {s : State} (hc : Canon D s) (l : Option Nat) :
    Canon D { s with last := l } :=
  hc.of_sameVals (by constructor <;> rfl)

theorem initialising_canon {s : State} (hc : Canon D s) (i : Nat) (b : Bool) :
    Canon D (initialising D s i b) := by
  cases hf : s.flags[i]? with
  | none => unfold initialising; rw [hf]; exact hc
  | some cur =>
    obtain ⟨a, ha⟩ := getElem?_of_canon hc hf
    by_cases hne : cur = b
    · unfold initialising; rw [hf, ha]; simp only [hne, if_true]; exact hc
    · rw [initialising_eq hf ha hne]
      have : cur = !b := by cases cur <;> cases b <;> simp_all
      exact ((toggled_facts hI hK hc ha (by rw [hf, this])).canon).with_last _

theorem allActive_canon {s : State} (hc : Canon D s) : Canon D (allActive D s) := by
  unfold allActive
  exact foldl_inv (Canon D) _ (fun s i h => initialising_canon hI hK h i true) _ _ hc

theorem randomizeUnbounded_canon {s : State} (hc : Canon D s) (draws : List Nat) :
    Canon D (randomizeUnbounded D s draws) := by
  unfold randomizeUnbounded
  refine foldl_inv (Canon D) _ (fun s x h => ?_) _ _ hc
  simp only
  split
  · exact initialising_canon hI hK (h.with_last _) _ _
  · exact h

end ops

/-- the state an outcome of the limit-seeking loops carries -/
def LoopOutcome.state : LoopOutcome → State
  | .found s => s
  | .attemptLimit s => s
  | .outOfDraws s => s

section ops2
variable {D : Data} (hI : InitFacts D) (hK : keysDistinct D.acts = true)
include hI hK

theorem seekLimit_canon (b : Bool) :
    ∀ (draws : List Nat) (n : Nat) (s : State), Canon D s → Canon D (seekLimit D b draws n s).state := by
  intro draws
  induction draws with
  | nil =>
    intro n s hc
    cases n <;> simpa [seekLimit, LoopOutcome.state] using hc
  | cons d ds ih =>
    intro n s hc
    cases n with
    | zero => simpa [seekLimit, LoopOutcome.state] using hc
    | succ n =>
      simp only [seekLimit]
      split
      · exact hc
      · split
        · exact ih _ _ hc
        · have h1 := initialising_canon hI hK (hc.with_last (some d)) d b
          split
          · exact ih _ _ h1
          · have h2 := initialising_canon hI hK h1 d (!b)
            split <;> exact h2

theorem randomize_canon {s : State} (hc : Canon D s) (draws : List Nat) :
    Canon D (randomize D s draws).state := by
  unfold randomize
  split
  · exact seekLimit_canon hI hK _ _ _ _ hc
  · split
    · exact seekLimit_canon hI hK _ _ _ _ hc
    · exact randomizeUnbounded_canon hI hK hc draws

end ops2

theorem initialise_canon {D : Data} (h : InitConsistent D) (hK : keysDistinct D.acts = true)
    (k : InitKind) : Canon D (initialise D k) := by
  unfold initialise
  cases k with
  | asIs => exact canon_init h
  | unchanged => exact canon_init h
  | random =>
    simp only
    split
    · exact canon_init h
    · split
      · exact allActive_canon h.facts hK (canon_init h)
      · exact canon_init h

/-! ### observables of states that agree -/

theorem SameVals.total_eq {s s' : State} (h : SameVals s s') (v : VarId) : total s' v = total s v := by
  cases v
  · exact h.sedT
  · exact h.pnT
  · exact h.dnT
  · exact h.tnT
  · exact h.icT
  · exact h.ocT

theorem SameVals.unitVal_eq {s s' : State} (h : SameVals s s') (v : VarId) (p : PU) :
    unitVal s' v p = unitVal s v p := by
  cases v
  · show unitValP _ _ = unitValP _ _; unfold unitValP; rw [h.sedC]
  · show unitValP _ _ = unitValP _ _; unfold unitValP; rw [h.pnC]
  · show unitValP _ _ = unitValP _ _; unfold unitValP; rw [h.dnC]
  · show unitValS _ _ = unitValS _ _; unfold unitValS; rw [h.tnC]
  · show unitValS _ _ = unitValS _ _; unfold unitValS; rw [h.icC]
  · show unitValS _ _ = unitValS _ _; unfold unitValS; rw [h.ocC]


/-! ### flags after `setAction` / `setAll` -/

theorem setAction_flags {D : Data} {s : State} (hc : Canon D s) (i : Nat) (b : Bool) :
    (setAction D s i b).flags = s.flags.set i b := by
  unfold setAction
  split
  · rename_i hf
    rw [List.getElem?_eq_none_iff] at hf
    rw [List.set_eq_of_length_le hf]
  · rename_i cur hf
    have hl : i < s.flags.length := by
      rcases Nat.lt_or_ge i s.flags.length with h | h
      · exact h
      · simp [List.getElem?_eq_none h] at hf
    split
    · rename_i he
      rw [List.getElem?_eq_getElem hl] at hf
      rw [← he, ← Option.some.inj hf, List.set_getElem_self hl]
    · obtain ⟨a, ha⟩ := getElem?_of_canon hc hf
      rw [toggleObserved_eq ha, accept_observed]; rfl

theorem setAll_flags_aux {D : Data} (hI : InitFacts D) (hK : keysDistinct D.acts = true) :
    ∀ (bits : List Bool) (k : Nat) (s : State) (pre rest : List Bool), Canon D s →
      s.flags = pre ++ rest → pre.length = k → rest.length = bits.length →
      ((bits.zipIdx k).foldl (fun s (x : Bool × Nat) => setAction D s x.2 x.1) s).flags = pre ++ bits
  | [], _, s, pre, rest, _, hf, _, hr => by
    have : rest = [] := List.eq_nil_of_length_eq_zero hr
    simpa [this] using hf
  | b :: bs, k, s, pre, rest, hc, hf, hp, hr => by
    match rest, hr with
    | r :: rs, hr =>
      simp only [List.zipIdx_cons, List.foldl_cons]
      have h1 : (setAction D s k b).flags = (pre ++ [b]) ++ rs := by
        rw [setAction_flags hc, hf, ← hp]
        simp
      have := setAll_flags_aux hI hK bs (k + 1) (setAction D s k b) (pre ++ [b]) rs
        (setAction_canon hI hK hc k b) h1 (by simp [hp]) (by simpa using hr)
      rw [this]; simp


/-! ### proposals -/

theorem observed_total (a : Action) (b : Bool) (i : Nat) (s : State) (v : VarId) :
    total (observed a b i s) v = total s v := by
  obtain ⟨h1, h2, h3, h4, h5, h6, h7, h8, h9, h10, h11, h12⟩ := observed_sameVals a b i s
  cases v
  · exact h2
  · exact h4
  · exact h6
  · exact h8
  · exact h10
  · exact h12

theorem observed_unitVal (a : Action) (b : Bool) (i : Nat) (s : State) (v : VarId) (p : PU) :
    unitVal (observed a b i s) v p = unitVal s v p := by
  obtain ⟨h1, h2, h3, h4, h5, h6, h7, h8, h9, h10, h11, h12⟩ := observed_sameVals a b i s
  cases v
  · show unitValP _ _ = unitValP _ _; unfold unitValP; rw [h1]
  · show unitValP _ _ = unitValP _ _; unfold unitValP; rw [h3]
  · show unitValP _ _ = unitValP _ _; unfold unitValP; rw [h5]
  · rfl
  · rfl
  · rfl

/-- a proposal either does nothing (index outside the flags or the action list) or is the
observation of the action with the negated flag -/
theorem propose_cases (D : Data) (s : State) (i : Nat) :
    propose D s i = s ∨
    ∃ a cur, D.acts[i]? = some a ∧ s.flags[i]? = some cur ∧ propose D s i = observed a (!cur) i s := by
  unfold propose
  cases hf : s.flags[i]? with
  | none => exact Or.inl rfl
  | some cur =>
    cases ha : D.acts[i]? with
    | none => left; simp only [toggleObserved, ha]
    | some a => right; exact ⟨a, cur, rfl, rfl, toggleObserved_eq ha⟩

theorem propose_of_canon {D : Data} {s : State} (hc : Canon D s) {i : Nat} (hi : i < D.acts.length) :
    ∃ a cur, D.acts[i]? = some a ∧ s.flags[i]? = some cur ∧ propose D s i = observed a (!cur) i s := by
  have hl : i < s.flags.length := by rw [hc.len]; exact hi
  have hf : s.flags[i]? = some s.flags[i] := List.getElem?_eq_getElem hl
  have ha : D.acts[i]? = some D.acts[i] := List.getElem?_eq_getElem hi
  refine ⟨_, _, ha, hf, ?_⟩
  unfold propose
  rw [hf]
  exact toggleObserved_eq ha

/-- the facts about accepting the proposal of action `i` in a canonical state -/
theorem propose_stepFacts {D : Data} {s : State} (hI : InitFacts D) (hK : keysDistinct D.acts = true)
    (hc : Canon D s) {i : Nat} (hi : i < D.acts.length) :
    ∃ a cur, D.acts[i]? = some a ∧ s.flags[i]? = some cur ∧ propose D s i = observed a (!cur) i s ∧
      accept (propose D s i) = toggled a (!cur) i s ∧ StepFacts D s a (!cur) i := by
  obtain ⟨a, cur, ha, hf, hp⟩ := propose_of_canon hc hi
  refine ⟨a, cur, ha, hf, hp, by rw [hp, accept_observed], ?_⟩
  exact toggled_facts hI hK hc ha (by rw [hf, Bool.not_not])

theorem mem_allVars (v : VarId) : v ∈ allVars := by cases v <;> simp [allVars]

theorem flipFlag_length (fl : List Bool) (i : Nat) : (flipFlag fl i).length = fl.length := by
  unfold flipFlag; split <;> simp

end Crem.Catchment
