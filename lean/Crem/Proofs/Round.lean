import Crem.Model.Round
import Mathlib.Data.Rat.Floor
import Mathlib.Tactic.Ring
import Mathlib.Tactic.NormNum
import Mathlib.Tactic.Linarith
import Mathlib.Tactic.Positivity
/-!
Helper lemmas about `rnd` (round half away from zero on the 10^-p grid, exact on ℚ).
The "grid lemma" `rnd_sub_rnd` is what every delta command of the catchment model relies on.
-/
namespace Crem

theorem roundHA_intCast (n : Int) : roundHA (n : Rat) = n := by
  unfold roundHA
  have h1 : ∀ m : Int, ((m : Rat) + 1/2).floor = m := by
    intro m
    show ⌊((m:ℚ) + 1/2)⌋ = m
    rw [Int.floor_eq_iff]
    constructor <;> norm_num
  split
  · exact h1 n
  · have := h1 (-n)
    push_cast at this
    rw [this]; ring

/-- `math.Round` is odd -/
theorem roundHA_neg (x : Rat) : roundHA (-x) = -roundHA x := by
  unfold roundHA
  rcases lt_trichotomy x 0 with h | h | h
  · have h1 : (0 : Rat) ≤ -x := by linarith
    have h2 : ¬ (0 : Rat) ≤ x := by linarith
    simp only [h1, h2, if_true, if_false, neg_neg]
  · subst h
    have h0 : ((0 : Rat) + 1/2).floor = 0 := by
      show ⌊((0:ℚ) + 1/2)⌋ = 0
      rw [Int.floor_eq_iff]
      constructor <;> norm_num
    simp only [neg_zero, le_refl, if_true, h0]
  · have h1 : ¬ (0 : Rat) ≤ -x := by linarith
    have h2 : (0 : Rat) ≤ x := by linarith
    simp only [h1, h2, if_true, if_false, neg_neg]

theorem pow10_ne_zero (p : Nat) : ((10^p : Nat) : Rat) ≠ 0 := by positivity

theorem rnd_grid (p : Nat) (k : Int) :
    rnd p ((k : Rat) / (10^p : Nat)) = (k : Rat) / (10^p : Nat) := by
  unfold rnd
  rw [div_mul_cancel₀ _ (pow10_ne_zero p), roundHA_intCast]

/-- `x` is a multiple of `10^-p` -/
def OnGrid (p : Nat) (x : Rat) : Prop := ∃ k : Int, x = (k : Rat) / (10^p : Nat)

theorem rnd_onGrid (p : Nat) (x : Rat) : OnGrid p (rnd p x) := ⟨_, rfl⟩

theorem rnd_of_onGrid {p : Nat} {x : Rat} (h : OnGrid p x) : rnd p x = x := by
  obtain ⟨k, rfl⟩ := h; exact rnd_grid p k

theorem OnGrid.zero (p : Nat) : OnGrid p 0 := ⟨0, by simp⟩

theorem OnGrid.sub {p : Nat} {x y : Rat} (hx : OnGrid p x) (hy : OnGrid p y) : OnGrid p (x - y) := by
  obtain ⟨a, rfl⟩ := hx; obtain ⟨b, rfl⟩ := hy
  exact ⟨a - b, by push_cast; ring⟩

theorem OnGrid.add {p : Nat} {x y : Rat} (hx : OnGrid p x) (hy : OnGrid p y) : OnGrid p (x + y) := by
  obtain ⟨a, rfl⟩ := hx; obtain ⟨b, rfl⟩ := hy
  exact ⟨a + b, by push_cast; ring⟩

theorem OnGrid.neg {p : Nat} {x : Rat} (hx : OnGrid p x) : OnGrid p (-x) := by
  obtain ⟨a, rfl⟩ := hx
  exact ⟨-a, by push_cast; ring⟩

/-- round-half-away is odd -/
theorem rnd_neg (p : Nat) (x : Rat) : rnd p (-x) = -rnd p x := by
  unfold rnd
  rw [neg_mul, roundHA_neg]
  push_cast; ring

theorem rnd_zero (p : Nat) : rnd p 0 = 0 := rnd_of_onGrid (OnGrid.zero p)

theorem rnd_rnd (p : Nat) (x : Rat) : rnd p (rnd p x) = rnd p x := rnd_of_onGrid (rnd_onGrid p x)

/-- the grid lemma: a difference of rounded values is not moved by rounding -/
theorem rnd_sub_rnd (p : Nat) (a b : Rat) : rnd p (rnd p a - rnd p b) = rnd p a - rnd p b :=
  rnd_of_onGrid ((rnd_onGrid p a).sub (rnd_onGrid p b))

theorem rnd_add_rnd (p : Nat) (a b : Rat) : rnd p (rnd p a + rnd p b) = rnd p a + rnd p b :=
  rnd_of_onGrid ((rnd_onGrid p a).add (rnd_onGrid p b))

/-- an integer perturbed by less than one half rounds back to the integer -/
theorem roundHA_absorbs (k : Int) {d : Rat} (h1 : -(1/2) < d) (h2 : d < 1/2) : roundHA ((k : Rat) + d) = k := by
  unfold roundHA
  split
  · show ⌊((k : ℚ) + d + 1/2)⌋ = k
    rw [Int.floor_eq_iff]
    constructor <;> linarith
  · have : ⌊(-((k : ℚ) + d) + 1/2)⌋ = -k := by
      rw [Int.floor_eq_iff]
      push_cast
      constructor <;> linarith
    show -⌊(-((k : ℚ) + d) + 1/2)⌋ = k
    rw [this]; ring

/-- **re-rounding absorbs any error below half a grid unit**: an on-grid value `g` perturbed by `e` with
`|e| · 10^p < 1/2` rounds back to `g` exactly -/
theorem rnd_absorbs {p : Nat} {g e : Rat} (hg : OnGrid p g)
    (h1 : -(1/2) < e * (10^p : Nat)) (h2 : e * (10^p : Nat) < 1/2) : rnd p (g + e) = g := by
  obtain ⟨k, rfl⟩ := hg
  unfold rnd
  have : ((k : Rat) / (10^p : Nat) + e) * (10^p : Nat) = (k : Rat) + e * (10^p : Nat) := by
    rw [add_mul, div_mul_cancel₀ _ (pow10_ne_zero p)]
  rw [this, roundHA_absorbs k h1 h2]

/-- `math.Round` is a NEAREST integer: never further than one half -/
theorem roundHA_nearest (x : Rat) : -(1/2) ≤ (roundHA x : Rat) - x ∧ (roundHA x : Rat) - x ≤ 1/2 := by
  unfold roundHA
  split
  · have h1 : ((⌊x + 1/2⌋ : Int) : ℚ) ≤ x + 1/2 := Int.floor_le _
    have h2 : x + 1/2 < ((⌊x + 1/2⌋ : Int) : ℚ) + 1 := Int.lt_floor_add_one _
    show -(1/2) ≤ ((⌊x + 1/2⌋ : Int) : ℚ) - x ∧ ((⌊x + 1/2⌋ : Int) : ℚ) - x ≤ 1/2
    constructor <;> linarith
  · have h1 : ((⌊-x + 1/2⌋ : Int) : ℚ) ≤ -x + 1/2 := Int.floor_le _
    have h2 : -x + 1/2 < ((⌊-x + 1/2⌋ : Int) : ℚ) + 1 := Int.lt_floor_add_one _
    show -(1/2) ≤ ((-(⌊-x + 1/2⌋ : Int) : Int) : ℚ) - x ∧ ((-(⌊-x + 1/2⌋ : Int) : Int) : ℚ) - x ≤ 1/2
    push_cast
    constructor <;> linarith

/-- **`RoundFloat` is a nearest grid point**: the rounded value is never further than half a grid unit from the value -/
theorem rnd_nearest (p : Nat) (x : Rat) :
    -(1/2) ≤ (rnd p x - x) * (10^p : Nat) ∧ (rnd p x - x) * (10^p : Nat) ≤ 1/2 := by
  have h := roundHA_nearest (x * (10^p : Nat))
  have e : (rnd p x - x) * (10^p : Nat) = (roundHA (x * (10^p : Nat)) : Rat) - x * (10^p : Nat) := by
    unfold rnd
    rw [sub_mul, div_mul_cancel₀ _ (pow10_ne_zero p)]
  rw [e]
  exact h

/-- … and among the (at most two) nearest grid points of a tie it is the one AWAY from zero: a value exactly half way
between two grid points, `(k + 1/2)/10^p` with `k ≥ 0`, goes up to `(k+1)/10^p`; its mirror image goes down -/
theorem rnd_tie_away (p : Nat) (k : Nat) :
    rnd p ((((k : Int) : Rat) + 1/2) / (10^p : Nat)) = (((k : Int) + 1 : Int) : Rat) / (10^p : Nat) ∧
    rnd p (-((((k : Int) : Rat) + 1/2) / (10^p : Nat))) = -((((k : Int) + 1 : Int) : Rat) / (10^p : Nat)) := by
  have h1 : rnd p ((((k : Int) : Rat) + 1/2) / (10^p : Nat)) = (((k : Int) + 1 : Int) : Rat) / (10^p : Nat) := by
    unfold rnd
    rw [div_mul_cancel₀ _ (pow10_ne_zero p)]
    congr 1
    unfold roundHA
    have hk : (0 : Rat) ≤ ((k : Int) : Rat) + 1/2 := by positivity
    rw [if_pos hk]
    have : ⌊(((k : Int) : ℚ) + 1/2 + 1/2)⌋ = (k : Int) + 1 := by
      rw [Int.floor_eq_iff]
      push_cast
      constructor <;> linarith
    exact_mod_cast this
  refine ⟨h1, ?_⟩
  rw [rnd_neg, h1]

/-- the integer order key of an on-grid value (`value · 10^p`, floored) reads back as the value -/
theorem floor_key_of_onGrid {p : Nat} {x : Rat} (h : OnGrid p x) :
    (((x * (10^p : Nat)).floor : Int) : Rat) / (10^p : Nat) = x := by
  obtain ⟨k, rfl⟩ := h
  rw [div_mul_cancel₀ _ (pow10_ne_zero p)]
  have : ((k : Rat)).floor = k := by
    show ⌊(k : ℚ)⌋ = k
    exact Int.floor_intCast k
  rw [this]

end Crem
