import Crem.Model.Csv
/-!
Helper lemmas for C20 (and the `render`/`renderQ` round trips used by C13).  Core Lean only.

* `Good`, `scan_inv`: the record reader's invariant — every record it returns is non-empty
  and has the field count of the first; every mode other than "at the start of a line" is
  inside a record, so it returns at least one more record.
* `scan_blank`, `scan_same_length`: a text yields no record iff it consists of empty lines.
* `deriveRows_uniform`: on uniform records the unguarded indexing of `assignTableContent` is
  in range and the cells are the casts of the fields, position by position.
* `scan_row`, `scan_rows`, `scan_rowQ`, `scan_rowsQ`: the reader run over rendered rows.
-/
namespace Crem.Csv

instance instDecidableEqExcept {ε α : Type} [DecidableEq ε] [DecidableEq α] : DecidableEq (Except ε α)
  | .ok a, .ok b => if h : a = b then isTrue (by rw [h]) else isFalse (by intro h'; cases h'; exact h rfl)
  | .error a, .error b => if h : a = b then isTrue (by rw [h]) else isFalse (by intro h'; cases h'; exact h rfl)
  | .ok _, .error _ => isFalse (by intro h; cases h)
  | .error _, .ok _ => isFalse (by intro h; cases h)

/-! ## reader invariant -/

/-- all records non-empty and as long as the first -/
def Good (recs : List (List Bytes)) : Prop :=
  ∀ r ∈ recs, r ≠ [] ∧ ∀ h ∈ recs.head?, r.length = h.length

theorem good_nil : Good [] := by intro r hr; simp at hr

theorem good_cons {hdr : List Bytes} {rows : List (List Bytes)} (h : Good (hdr :: rows)) :
    hdr ≠ [] ∧ ∀ r ∈ rows, r.length = hdr.length := by
  refine ⟨(h hdr (by simp)).1, fun r hr => ?_⟩
  have := (h r (by simp [hr])).2
  simpa using this

@[simp] theorem push_recs (st : St) (b : UInt8) : (st.push b).recs = st.recs := rfl
@[simp] theorem endField_recs (st : St) : st.endField.recs = st.recs := rfl

theorem endRec_ok {recs : List (List Bytes)} {r : List Bytes} {st' : St} (h : endRec recs r = .ok st')
    (hg : Good recs) (hr : r ≠ []) :
    Good st'.recs ∧ st'.recs.length = recs.length + 1 ∧ st'.field = [] ∧ st'.fields = [] := by
  unfold endRec at h
  split at h
  · simp only [Except.ok.injEq] at h
    subst h
    simp [Good, hr]
  · rename_i first tl
    split at h
    · rename_i hlen
      simp only [Except.ok.injEq] at h
      subst h
      refine ⟨?_, by simp, rfl, rfl⟩
      intro r' hr'
      simp only [List.mem_append, List.mem_singleton] at hr'
      rcases hr' with hr' | hr'
      · have := hg r' hr'
        simpa using this
      · subst hr'
        simp at hlen
        simp [hlen, hr]
    · simp at h

theorem endRecord_ok {st st' : St} (h : st.endRecord = .ok st') (hg : Good st.recs) :
    Good st'.recs ∧ st'.recs.length = st.recs.length + 1 ∧ st'.field = [] ∧ st'.fields = [] :=
  endRec_ok h hg (by simp)

theorem finish_ok {st : St} {rs} (h : finish st = .ok rs) (hg : Good st.recs) :
    Good rs ∧ rs.length = st.recs.length + 1 := by
  unfold finish at h
  split at h
  · simp at h
  · rename_i st' heq
    simp only [Except.ok.injEq] at h
    subst h
    have := endRecord_ok heq hg
    exact ⟨this.1, this.2.1⟩

/-- The reader's invariant, for every mode, state and input. -/
theorem scan_inv (m : Mode) (st : St) (bs : Bytes) :
    ∀ rs, scan m st bs = .ok rs → Good st.recs →
      Good rs ∧ st.recs.length ≤ rs.length ∧ (m ≠ .start true → st.recs.length < rs.length) := by
  fun_induction scan m st bs <;> intro rs h hg
  all_goals first
    | (simp_all; done)
    | (have := finish_ok h hg; exact ⟨this.1, by omega, fun _ => by omega⟩)
    | (rename_i ih; have := ih rs h (by simpa using hg)
       simp only [push_recs, endField_recs] at this
       exact ⟨this.1, this.2.1, fun _ => this.2.2 (by simp)⟩)
    | (rename_i st' heq ih; have e := endRecord_ok heq hg; have := ih rs h e.1
       exact ⟨this.1, by omega, fun _ => by omega⟩)

theorem readAll_good {text : Bytes} {rs} (h : readAll text = .ok rs) : Good rs :=
  (scan_inv _ _ _ rs h good_nil).1


/-! ## the reader's errors are encoding/csv's -/

theorem endRec_ne_noRecords (recs : List (List Bytes)) (r : List Bytes) : endRec recs r ≠ .error .noRecords := by
  unfold endRec
  split
  · simp
  · split <;> simp

theorem finish_ne_noRecords (st : St) : finish st ≠ .error .noRecords := by
  unfold finish
  split
  · rename_i e heq
    intro h
    simp only [Except.error.injEq] at h
    subst h
    exact endRec_ne_noRecords _ _ heq
  · simp

theorem scan_ne_noRecords (m : Mode) (st : St) (bs : Bytes) : scan m st bs ≠ .error .noRecords := by
  fun_induction scan m st bs
  all_goals first
    | (simp; done)
    | assumption
    | exact finish_ne_noRecords _
    | (rename_i e heq; intro h; simp only [Except.error.injEq] at h; subst h
       exact endRec_ne_noRecords _ _ heq)

theorem readAll_ne_noRecords (text : Bytes) : readAll text ≠ .error .noRecords :=
  scan_ne_noRecords _ _ _

/-! ## texts without records -/

theorem scan_blank (bs : Bytes) (h : bs.all (· == bNL) = true) (st : St) :
    scan (.start true) st bs = .ok st.recs := by
  induction bs with
  | nil => simp [scan]
  | cons b rest ih =>
    simp only [List.all_cons, Bool.and_eq_true] at h
    simp [scan, h.1, ih h.2]

theorem scan_same_length (bs : Bytes) : ∀ (st : St) rs, scan (.start true) st bs = .ok rs → Good st.recs →
    rs.length = st.recs.length → bs.all (· == bNL) = true := by
  induction bs with
  | nil => simp
  | cons b rest ih =>
    intro st rs h hg hlen
    rcases Bool.eq_false_or_eq_true (b == bNL) with hb | hb
    · simp only [scan, hb, Bool.and_true, ↓reduceIte] at h
      simp [hb, ih st rs h hg hlen]
    · exfalso
      simp only [scan, hb, Bool.and_false, Bool.false_eq_true, ↓reduceIte] at h
      repeat' split at h
      all_goals first
        | (have := scan_inv _ _ _ rs h (by simpa using hg); simp at this; omega)
        | (rename_i st' heq; have e := endRecord_ok heq hg; have := scan_inv _ _ _ rs h e.1; omega)
        | simp at h

theorem readAll_nil_iff (text : Bytes) : readAll text = .ok [] ↔ noRecords text = true := by
  unfold readAll noRecords
  constructor
  · intro h
    exact scan_same_length _ _ _ h good_nil rfl
  · intro h
    exact scan_blank _ h _

/-! ## table derivation on uniform records -/

theorem deriveRow_length (r : List Bytes) : deriveRow r.length r = some (r.map cast) := by
  induction r with
  | nil => rfl
  | cons f fs ih => simp [deriveRow, ih]

theorem deriveRows_uniform (n : Nat) (rows : List (List Bytes)) (h : ∀ r ∈ rows, r.length = n) :
    deriveRows n rows = some (rows.map (·.map cast)) := by
  induction rows with
  | nil => rfl
  | cons r rs ih =>
    have hr : r.length = n := h r (by simp)
    have := deriveRow_length r
    rw [hr] at this
    simp [deriveRows, this, ih (fun x hx => h x (by simp [hx]))]

theorem deriveTable_good {hdr : List Bytes} {rows : List (List Bytes)} (h : Good (hdr :: rows)) :
    deriveTable (hdr :: rows) = .ok { header := hdr, cells := rows.map (·.map cast) } := by
  simp [deriveTable, deriveRows_uniform hdr.length rows (good_cons h).2]

theorem load_of_readAll {text : Bytes} {hdr : List Bytes} {rows : List (List Bytes)}
    (hr : readAll text = .ok (hdr :: rows)) :
    load text = .ok { header := hdr, cells := rows.map (·.map cast) } := by
  unfold load
  rw [hr]
  exact deriveTable_good (readAll_good hr)

/-! ## cast -/

theorem cast_eq_specCell (f : Bytes) (h : boolSpelled f = false) : cast f = specCell f := by
  unfold cast specCell
  unfold boolSpelled isNumeric at h
  cases hp : parseFloat f with
  | some b => rfl
  | none =>
    simp only [hp, Option.isSome_none, Bool.not_false, Bool.true_and] at h
    cases hb : parseBool f with
    | none => rfl
    | some b => simp [hb] at h

theorem cast_bool_iff (f : Bytes) : (∃ b, cast f = .bool b) ↔ boolSpelled f = true := by
  unfold cast boolSpelled isNumeric
  cases hp : parseFloat f with
  | some b => simp
  | none =>
    cases hb : parseBool f with
    | none => simp
    | some b => simp

theorem cast_text (f s : Bytes) (h : cast f = .text s) : s = f := by
  unfold cast at h
  cases hp : parseFloat f with
  | some b => simp [hp] at h
  | none =>
    cases hb : parseBool f with
    | none => simp [hp, hb] at h; exact h.symm
    | some b => simp [hp, hb] at h

/-! ## the reader over `render` output -/

theorem normalize_noCR (bs : Bytes) (h : ∀ b ∈ bs, b ≠ bCR) : normalize bs = bs := by
  induction bs with
  | nil => rfl
  | cons b rest ih =>
    have hb : (b == bCR) = false := by simpa using h b (by simp)
    simp only [normalize, hb, Bool.false_eq_true, ↓reduceIte]
    rw [ih (fun x hx => h x (by simp [hx]))]

/-- a run of bytes of a non-quoted field -/
theorem scan_unquoted_run (f : Bytes) (hf : ∀ b ∈ f, b ≠ bComma ∧ b ≠ bNL ∧ b ≠ bQuote) (st : St) (rest : Bytes) :
    scan .unquoted st (f ++ rest) = scan .unquoted { st with field := st.field ++ f } rest := by
  induction f generalizing st with
  | nil => simp
  | cons b f ih =>
    have hb := hf b (by simp)
    simp only [List.cons_append, scan]
    simp only [beq_iff_eq, hb.1, hb.2.1, hb.2.2, ↓reduceIte]
    rw [ih (fun x hx => hf x (by simp [hx]))]
    simp [St.push]

/-- a field that does not start with a Unicode space still does not when `\n` or `,` follows it
(those bytes cannot complete a multi-byte space) -/
theorem spaceLen_append (b : UInt8) (f : Bytes) (c : UInt8) (rest : Bytes)
    (h : spaceLen (b :: f) = 0) (hc : c = bNL ∨ c = bComma) : spaceLen (b :: (f ++ c :: rest)) = 0 := by
  have hc1 : (c == 0x85) = false ∧ (c == 0xA0) = false ∧ (c == 0x9A) = false ∧ (c == 0x80) = false ∧ (c == 0x81) = false
      ∧ (c == 0x9F) = false ∧ (c == 0xA8) = false ∧ (c == 0xA9) = false ∧ (c == 0xAF) = false ∧ (0x80 ≤ c) = false := by
    rcases hc with rfl | rfl <;> decide
  obtain ⟨h1, h2, h3, h4, h5, h6, h7, h8, h9, h10⟩ := hc1
  match f, h with
  | [], h =>
    simp only [spaceLen] at h ⊢
    simp only [List.nil_append]
    repeat' split
    all_goals first
      | (simp_all; done)
      | (simp_all; rename_i hh; exact absurd hh.2.1 (UInt8.not_le.mpr h10))
  | [b1], h =>
    simp only [spaceLen] at h ⊢
    simp only [List.cons_append, List.nil_append]
    repeat' split
    all_goals first
      | (simp_all; done)
      | (simp_all; rename_i hh; exact absurd hh.2.1 (UInt8.not_le.mpr h10))
  | b1 :: b2 :: t, h =>
    simpa [spaceLen] using h

theorem plainField_iff (f : Bytes) : plainField f = true ↔
    (∀ b ∈ f, b ≠ bComma ∧ b ≠ bQuote ∧ b ≠ bNL ∧ b ≠ bCR) ∧ spaceLen f = 0 := by
  simp [plainField, List.all_eq_true, and_assoc]

/-- a non-empty plain field read from the start of a field up to its terminator `c` -/
theorem scan_start_plain (first : Bool) (st : St) (b : UInt8) (f rest : Bytes) (c : UInt8)
    (hp : plainField (b :: f) = true) (hc : c = bNL ∨ c = bComma) :
    scan (.start first) st (b :: (f ++ c :: rest)) =
      scan .unquoted { st with field := st.field ++ b :: f } (c :: rest) := by
  rw [plainField_iff] at hp
  obtain ⟨hall, hsp⟩ := hp
  have hb := hall b (by simp)
  have hk := spaceLen_append b f c rest hsp hc
  have h1 : (b == bNL) = false := by simpa using hb.2.2.1
  have h2 : (b == bQuote) = false := by simpa using hb.2.1
  have h3 : (b == bComma) = false := by simpa using hb.1
  rw [scan]
  simp only [h1, h2, h3, hk, Bool.and_false, Bool.false_eq_true, ↓reduceIte, beq_self_eq_true]
  rw [scan_unquoted_run f (fun x hx => by have := hall x (by simp [hx]); exact ⟨this.1, this.2.2.1, this.2.1⟩)]
  simp [St.push]

theorem spaceLen_space (rest : Bytes) : spaceLen (bSpace :: rest) = 1 := by
  simp [spaceLen, isSpace1, bSpace]
theorem spaceLen_nl (rest : Bytes) : spaceLen (bNL :: rest) = 1 := by
  simp [spaceLen, isSpace1, bNL]
theorem spaceLen_comma (rest : Bytes) : spaceLen (bComma :: rest) = 0 := by
  simp [spaceLen, isSpace1, bComma]
theorem spaceLen_quote (rest : Bytes) : spaceLen (bQuote :: rest) = 0 := by
  simp [spaceLen, isSpace1, bQuote]

/-- a trimmed ASCII space at the start of a field -/
theorem scan_space_start (st : St) (rest : Bytes) :
    scan (.start false) st (bSpace :: rest) = scan (.start false) st rest := by
  rw [scan]
  have : (bSpace == bNL) = false := by decide
  simp [spaceLen_space, this]

/-- `, ` between two fields: the comma ends the field, the space is trimmed -/
theorem scan_sep_unquoted (st : St) (rest : Bytes) :
    scan .unquoted st (bComma :: bSpace :: rest) = scan (.start false) st.endField rest := by
  rw [scan]
  simp only [beq_self_eq_true, ↓reduceIte]
  exact scan_space_start _ _

theorem scan_sep_start (first : Bool) (st : St) (rest : Bytes) :
    scan (.start first) st (bComma :: bSpace :: rest) = scan (.start false) st.endField rest := by
  rw [scan]
  have h1 : (bComma == bNL) = false := by decide
  have h2 : (bComma == bQuote) = false := by decide
  simp only [h1, h2, spaceLen_comma, Bool.and_false, Bool.false_eq_true, ↓reduceIte, beq_self_eq_true]
  exact scan_space_start _ _

/-- what follows the end of a record -/
def afterRecord (r : Except CsvErr St) (rest : Bytes) : Except CsvErr (List (List Bytes)) :=
  match r with
  | .error e => .error e
  | .ok st' => scan (.start true) st' rest

theorem scan_nl_unquoted (st : St) (rest : Bytes) :
    scan .unquoted st (bNL :: rest) = afterRecord st.endRecord rest := by
  rw [scan]
  have : (bNL == bComma) = false := by decide
  simp only [this, Bool.false_eq_true, ↓reduceIte, beq_self_eq_true]
  rfl

theorem scan_nl_start (st : St) (rest : Bytes) :
    scan (.start false) st (bNL :: rest) = afterRecord st.endRecord rest := by
  rw [scan]
  simp only [spaceLen_nl, Bool.false_and, Bool.false_eq_true, ↓reduceIte, beq_self_eq_true]
  rfl

/-- one rendered row, read from the start of its first field -/
theorem scan_row (r : List Bytes) (hp : ∀ f ∈ r, plainField f = true) :
    ∀ (first : Bool) (done : List Bytes) (recs : List (List Bytes)) (rest : Bytes),
      r ≠ [] → (first = true → r ≠ [[]]) →
      scan (.start first) { field := [], fields := done, recs := recs } (renderRow r ++ bNL :: rest) =
        afterRecord (endRec recs (done ++ r)) rest := by
  induction r with
  | nil => intro _ _ _ _ h; exact absurd rfl h
  | cons f fs ih =>
    intro first done recs rest _ hfirst
    have hpf := hp f (by simp)
    cases fs with
    | nil =>
      cases f with
      | nil =>
        have : first = false := by
          rcases Bool.eq_false_or_eq_true first with h | h
          · exact absurd rfl (hfirst h)
          · exact h
        subst this
        simp only [renderRow, List.nil_append]
        rw [scan_nl_start]
        rfl
      | cons b f' =>
        simp only [renderRow, List.cons_append]
        rw [scan_start_plain first _ b f' rest bNL hpf (Or.inl rfl), scan_nl_unquoted]
        rfl
    | cons g gs =>
      have ih' := ih (fun x hx => hp x (by simp [hx])) false (done ++ [f]) recs rest (by simp) (by simp)
      have hassoc : done ++ [f] ++ g :: gs = done ++ f :: g :: gs := by simp
      rw [hassoc] at ih'
      cases f with
      | nil =>
        simp only [renderRow, List.nil_append, List.cons_append]
        rw [scan_sep_start]
        exact ih'
      | cons b f' =>
        simp only [renderRow, List.cons_append, List.append_assoc]
        rw [scan_start_plain first _ b f' _ bComma hpf (Or.inr rfl), scan_sep_unquoted]
        exact ih'

/-- after any row reader lemma of the shape of `scan_row`: all rows -/
theorem scan_rows_of_row (rend : List (List Bytes) → Bytes) (rendRow : List Bytes → Bytes)
    (hnil : rend [] = []) (hcons : ∀ r rs, rend (r :: rs) = rendRow r ++ bNL :: rend rs)
    (n : Nat) (rows : List (List Bytes)) (P : List Bytes → Prop)
    (hrow : ∀ r, P r → ∀ (recs : List (List Bytes)) (rest : Bytes),
      scan (.start true) { field := [], fields := [], recs := recs } (rendRow r ++ bNL :: rest) =
        afterRecord (endRec recs r) rest)
    (hw : ∀ r ∈ rows, r.length = n ∧ P r) :
    ∀ recs : List (List Bytes), (∀ r ∈ recs, r.length = n) →
      scan (.start true) { field := [], fields := [], recs := recs } (rend rows) = .ok (recs ++ rows) := by
  induction rows with
  | nil => intro recs _; simp [hnil, scan]
  | cons r rs ih =>
    intro recs hrecs
    obtain ⟨hlen, hp⟩ := hw r (by simp)
    rw [hcons, hrow r hp recs (rend rs)]
    cases recs with
    | nil =>
      simp only [endRec, afterRecord]
      rw [ih (fun x hx => hw x (by simp [hx])) [r] (by simpa using hlen)]
      simp
    | cons first tl =>
      have : r.length = first.length := by rw [hlen, hrecs first (by simp)]
      simp only [endRec, this, beq_self_eq_true, ↓reduceIte, afterRecord]
      rw [ih (fun x hx => hw x (by simp [hx])) (first :: tl ++ [r])]
      · simp
      · intro x hx
        simp only [List.mem_append, List.mem_singleton] at hx
        rcases hx with hx | hx
        · exact hrecs x hx
        · rw [hx, hlen]

theorem renderRow_noCR (r : List Bytes) (h : ∀ f ∈ r, ∀ b ∈ f, b ≠ bCR) : ∀ b ∈ renderRow r, b ≠ bCR := by
  induction r with
  | nil => simp [renderRow]
  | cons f fs ih =>
    cases fs with
    | nil => simpa [renderRow] using h f (by simp)
    | cons g gs =>
      intro b hb
      simp only [renderRow, List.mem_append, List.mem_cons] at hb
      rcases hb with hb | hb | hb | hb
      · exact h f (by simp) b hb
      · subst hb; decide
      · subst hb; decide
      · exact ih (fun x hx => h x (by simp [hx])) b hb

theorem render_noCR (rows : List (List Bytes)) (h : ∀ r ∈ rows, ∀ f ∈ r, ∀ b ∈ f, b ≠ bCR) :
    ∀ b ∈ render rows, b ≠ bCR := by
  induction rows with
  | nil => simp [render]
  | cons r rs ih =>
    intro b hb
    simp only [render, List.mem_append, List.mem_cons] at hb
    rcases hb with hb | hb | hb
    · exact renderRow_noCR r (h r (by simp)) b hb
    · subst hb; decide
    · exact ih (fun x hx => h x (by simp [hx])) b hb

/-! ## the reader over `renderQ` output (quoted fields) -/

theorem scan_quoted_run (f : Bytes) (st : St) (rest : Bytes) :
    scan .quoted st (escapeQ f ++ rest) = scan .quoted { st with field := st.field ++ f } rest := by
  induction f generalizing st with
  | nil => simp [escapeQ]
  | cons b f ih =>
    rcases Bool.eq_false_or_eq_true (b == bQuote) with hb | hb
    · have hbq : b = bQuote := by simpa using hb
      simp only [escapeQ, hb, ↓reduceIte, List.cons_append]
      rw [scan]
      simp only [beq_self_eq_true, ↓reduceIte]
      rw [scan]
      simp only [beq_self_eq_true, ↓reduceIte]
      rw [ih]
      simp [St.push, hbq]
    · simp only [escapeQ, hb, Bool.false_eq_true, ↓reduceIte, List.cons_append]
      rw [scan]
      simp only [hb, Bool.false_eq_true, ↓reduceIte]
      rw [ih]
      simp [St.push]

theorem scan_start_quote (first : Bool) (st : St) (rest : Bytes) :
    scan (.start first) st (bQuote :: rest) = scan .quoted st rest := by
  rw [scan]
  have : (bQuote == bNL) = false := by decide
  simp [spaceLen_quote, this]

theorem scan_close_comma (st : St) (rest : Bytes) :
    scan .quoted st (bQuote :: bComma :: rest) = scan (.start false) st.endField rest := by
  rw [scan]
  simp only [beq_self_eq_true, ↓reduceIte]
  rw [scan]
  have : (bComma == bQuote) = false := by decide
  simp [this]

theorem scan_close_nl (st : St) (rest : Bytes) :
    scan .quoted st (bQuote :: bNL :: rest) = afterRecord st.endRecord rest := by
  rw [scan]
  simp only [beq_self_eq_true, ↓reduceIte]
  rw [scan]
  have h1 : (bNL == bQuote) = false := by decide
  have h2 : (bNL == bComma) = false := by decide
  simp only [h1, h2, Bool.false_eq_true, ↓reduceIte, beq_self_eq_true]
  rfl

theorem scan_rowQ (r : List Bytes) :
    ∀ (first : Bool) (done : List Bytes) (recs : List (List Bytes)) (rest : Bytes), r ≠ [] →
      scan (.start first) { field := [], fields := done, recs := recs } (renderRowQ r ++ bNL :: rest) =
        afterRecord (endRec recs (done ++ r)) rest := by
  induction r with
  | nil => intro _ _ _ _ h; exact absurd rfl h
  | cons f fs ih =>
    intro first done recs rest _
    cases fs with
    | nil =>
      simp only [renderRowQ, quoteField, List.cons_append, List.append_assoc, List.nil_append]
      rw [scan_start_quote, scan_quoted_run, scan_close_nl]
      rfl
    | cons g gs =>
      have ih' := ih false (done ++ [f]) recs rest (by simp)
      have hassoc : done ++ [f] ++ g :: gs = done ++ f :: g :: gs := by simp
      rw [hassoc] at ih'
      simp only [renderRowQ, quoteField, List.cons_append, List.append_assoc, List.nil_append]
      rw [scan_start_quote, scan_quoted_run, scan_close_comma]
      exact ih'

theorem escapeQ_noCR (f : Bytes) (h : ∀ b ∈ f, b ≠ bCR) : ∀ b ∈ escapeQ f, b ≠ bCR := by
  induction f with
  | nil => simp [escapeQ]
  | cons c f ih =>
    intro b hb
    have hc := h c (by simp)
    have ih' := ih (fun x hx => h x (by simp [hx]))
    simp only [escapeQ] at hb
    split at hb
    · simp only [List.mem_cons] at hb
      rcases hb with hb | hb | hb
      · subst hb; decide
      · subst hb; decide
      · exact ih' b hb
    · simp only [List.mem_cons] at hb
      rcases hb with hb | hb
      · subst hb; exact hc
      · exact ih' b hb

theorem renderRowQ_noCR (r : List Bytes) (h : ∀ f ∈ r, ∀ b ∈ f, b ≠ bCR) : ∀ b ∈ renderRowQ r, b ≠ bCR := by
  have hq : ∀ f, (∀ b ∈ f, b ≠ bCR) → ∀ b ∈ quoteField f, b ≠ bCR := by
    intro f hf b hb
    simp only [quoteField, List.mem_cons, List.mem_append, List.not_mem_nil, or_false] at hb
    rcases hb with hb | hb | hb
    · subst hb; decide
    · exact escapeQ_noCR f hf b hb
    · subst hb; decide
  induction r with
  | nil => simp [renderRowQ]
  | cons f fs ih =>
    cases fs with
    | nil => simpa [renderRowQ] using hq f (h f (by simp))
    | cons g gs =>
      intro b hb
      simp only [renderRowQ, List.mem_append, List.mem_cons] at hb
      rcases hb with hb | hb | hb
      · exact hq f (h f (by simp)) b hb
      · subst hb; decide
      · exact ih (fun x hx => h x (by simp [hx])) b hb

theorem renderQ_noCR (rows : List (List Bytes)) (h : ∀ r ∈ rows, ∀ f ∈ r, ∀ b ∈ f, b ≠ bCR) :
    ∀ b ∈ renderQ rows, b ≠ bCR := by
  induction rows with
  | nil => simp [renderQ]
  | cons r rs ih =>
    intro b hb
    simp only [renderQ, List.mem_append, List.mem_cons] at hb
    rcases hb with hb | hb | hb
    · exact renderRowQ_noCR r (h r (by simp)) b hb
    · subst hb; decide
    · exact ih (fun x hx => h x (by simp [hx])) b hb

end Crem.Csv
