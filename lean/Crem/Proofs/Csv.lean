import Crem.Model.Csv
/-!
Helper lemmas for C20 (and the `render`/`renderQ` round trips used by C13).  Core Lean only.

* `Good`, `scan_inv`: the record reader's invariant — every record it returns is non-empty
  and has the field count of the first; every mode other than "at the start of a line" is
  inside a record, so it returns at least one more record.
* `scan_blank`, `scan_same_length`: a text yields no record iff it consists of empty lines.
* `deriveRows_uniform`: on uniform records the unguarded indexing of `assignTableContent` is
  in range and the cells are the casts of the fields, position by position.
* `scan_row`, `scan_rows`, `scan_rowQ`, `scan_rowsQ`: the reader run over rendered rows.
* `castRow`, `deriveTableT_good`, `loadT_of_readAll`: the same with text columns.
* `scan_rows_prefix`, `endRec_ragged`: a rendered prefix followed by anything; a ragged row.
* `scan_fieldM_comma/nl`, `scan_fieldsM`, `scan_rowM`: the reader over the mixed-quoting writer;
  `scan_start_plain_quote`: where the bare-quote error arises; `scan_quoteFree`: no quote error
  without a quote.
* `parseLit_digits`, `roundBits_nat`, `parseFloat_digits`: a string of decimal digits below 2^53
  is parsed to exactly that integer's binary64 pattern.
-/
namespace Crem.Csv

instance instDecidableEqExcept {ε α : Type} [DecidableEq ε] [DecidableEq α] : DecidableEq (Except ε α)
  | .ok a, .ok b => if h : a = b then isTrue (by rw [h]) else isFalse (by intro h'; cases h'; exact h rfl)
  | .error a, .error b => if h : a = b then isTrue (by rw [h]) else isFalse (by intro h'; cases h'; exact h rfl)
  | .ok _, .error _ => isFalse (by intro h; cases h)
  | .error _, .ok _ => isFalse (by intro h; cases h)

/-! ## reader invariant -/

/-- all records non-empty and as long as the first -/
def Good (recs : List (List Bytes)) : Prop :=
  ∀ r ∈ recs, r ≠ [] ∧ ∀ h ∈ recs.head?, r.length = h.length

theorem good_nil : Good [] := by intro r hr; simp at hr

theorem good_cons {hdr : List Bytes} {rows : List (List Bytes)} (h : Good (hdr :: rows)) :
    hdr ≠ [] ∧ ∀ r ∈ rows, r.length = hdr.length := by
  refine ⟨(h hdr (by simp)).1, fun r hr => ?_⟩
  have := (h r (by simp [hr])).2
  simpa using this

@[simp] theorem push_recs (st : St) (b : UInt8) : (st.push b).recs = st.recs := rfl
@[simp] theorem endField_recs (st : St) : st.endField.recs = st.recs := rfl

theorem endRec_ok {recs : List (List Bytes)} {r : List Bytes} {st' : St} (h : endRec recs r = .ok st')
    (hg : Good recs) (hr : r ≠ []) :
    Good st'.recs ∧ st'.recs.length = recs.length + 1 ∧ st'.field = [] ∧ st'.fields = [] := by
  unfold endRec at h
  split at h
  · simp only [Except.ok.injEq] at h
    subst h
    simp [Good, hr]
  · rename_i first tl
    split at h
    · rename_i hlen
      simp only [Except.ok.injEq] at h
      subst h
      refine ⟨?_, by simp, rfl, rfl⟩
      intro r' hr'
      simp only [List.mem_append, List.mem_singleton] at hr'
      rcases hr' with hr' | hr'
      · have := hg r' hr'
        simpa using this
      · subst hr'
        simp at hlen
        simp [hlen, hr]
    · simp at h

theorem endRecord_ok {st st' : St} (h : st.endRecord = .ok st') (hg : Good st.recs) :
    Good st'.recs ∧ st'.recs.length = st.recs.length + 1 ∧ st'.field = [] ∧ st'.fields = [] :=
  endRec_ok h hg (by simp)

theorem finish_ok {st : St} {rs} (h : finish st = .ok rs) (hg : Good st.recs) :
    Good rs ∧ rs.length = st.recs.length + 1 := by
  unfold finish at h
  split at h
  · simp at h
  · rename_i st' heq
    simp only [Except.ok.injEq] at h
    subst h
    have := endRecord_ok heq hg
    exact ⟨this.1, this.2.1⟩

/-- The reader's invariant, for every mode, state and input. -/
theorem scan_inv (m : Mode) (st : St) (bs : Bytes) :
    ∀ rs, scan m st bs = .ok rs → Good st.recs →
      Good rs ∧ st.recs.length ≤ rs.length ∧ (m ≠ .start true → st.recs.length < rs.length) := by
  fun_induction scan m st bs <;> intro rs h hg
  all_goals first
    | (simp_all; done)
    | (have := finish_ok h hg; exact ⟨this.1, by omega, fun _ => by omega⟩)
    | (rename_i ih; have := ih rs h (by simpa using hg)
       simp only [push_recs, endField_recs] at this
       exact ⟨this.1, this.2.1, fun _ => this.2.2 (by simp)⟩)
    | (rename_i st' heq ih; have e := endRecord_ok heq hg; have := ih rs h e.1
       exact ⟨this.1, by omega, fun _ => by omega⟩)

theorem readAll_good {text : Bytes} {rs} (h : readAll text = .ok rs) : Good rs :=
  (scan_inv _ _ _ rs h good_nil).1


/-! ## the reader's errors are encoding/csv's -/

theorem endRec_ne_noRecords (recs : List (List Bytes)) (r : List Bytes) : endRec recs r ≠ .error .noRecords := by
  unfold endRec
  split
  · simp
  · split <;> simp

theorem finish_ne_noRecords (st : St) : finish st ≠ .error .noRecords := by
  unfold finish
  split
  · rename_i e heq
    intro h
    simp only [Except.error.injEq] at h
    subst h
    exact endRec_ne_noRecords _ _ heq
  · simp

theorem scan_ne_noRecords (m : Mode) (st : St) (bs : Bytes) : scan m st bs ≠ .error .noRecords := by
  fun_induction scan m st bs
  all_goals first
    | (simp; done)
    | assumption
    | exact finish_ne_noRecords _
    | (rename_i e heq; intro h; simp only [Except.error.injEq] at h; subst h
       exact endRec_ne_noRecords _ _ heq)

theorem readAll_ne_noRecords (text : Bytes) : readAll text ≠ .error .noRecords :=
  scan_ne_noRecords _ _ _

/-! ## texts without records -/

theorem scan_blank (bs : Bytes) (h : bs.all (· == bNL) = true) (st : St) :
    scan (.start true) st bs = .ok st.recs := by
  induction bs with
  | nil => simp [scan]
  | cons b rest ih =>
    simp only [List.all_cons, Bool.and_eq_true] at h
    simp [scan, h.1, ih h.2]

theorem scan_same_length (bs : Bytes) : ∀ (st : St) rs, scan (.start true) st bs = .ok rs → Good st.recs →
    rs.length = st.recs.length → bs.all (· == bNL) = true := by
  induction bs with
  | nil => simp
  | cons b rest ih =>
    intro st rs h hg hlen
    rcases Bool.eq_false_or_eq_true (b == bNL) with hb | hb
    · simp only [scan, hb, Bool.and_true, ↓reduceIte] at h
      simp [hb, ih st rs h hg hlen]
    · exfalso
      simp only [scan, hb, Bool.and_false, Bool.false_eq_true, ↓reduceIte] at h
      repeat' split at h
      all_goals first
        | (have := scan_inv _ _ _ rs h (by simpa using hg); simp at this; omega)
        | (rename_i st' heq; have e := endRecord_ok heq hg; have := scan_inv _ _ _ rs h e.1; omega)
        | simp at h

theorem readAll_nil_iff (text : Bytes) : readAll text = .ok [] ↔ noRecords text = true := by
  unfold readAll noRecords
  constructor
  · intro h
    exact scan_same_length _ _ _ h good_nil rfl
  · intro h
    exact scan_blank _ h _

/-! ## table derivation on uniform records -/

theorem deriveRow_length (r : List Bytes) : deriveRow r.length r = some (r.map cast) := by
  induction r with
  | nil => rfl
  | cons f fs ih => simp [deriveRow, ih]

theorem deriveRows_uniform (n : Nat) (rows : List (List Bytes)) (h : ∀ r ∈ rows, r.length = n) :
    deriveRows n rows = some (rows.map (·.map cast)) := by
  induction rows with
  | nil => rfl
  | cons r rs ih =>
    have hr : r.length = n := h r (by simp)
    have := deriveRow_length r
    rw [hr] at this
    simp [deriveRows, this, ih (fun x hx => h x (by simp [hx]))]

theorem deriveTable_good {hdr : List Bytes} {rows : List (List Bytes)} (h : Good (hdr :: rows)) :
    deriveTable (hdr :: rows) = .ok { header := hdr, cells := rows.map (·.map cast) } := by
  simp [deriveTable, deriveRows_uniform hdr.length rows (good_cons h).2]

theorem load_of_readAll {text : Bytes} {hdr : List Bytes} {rows : List (List Bytes)}
    (hr : readAll text = .ok (hdr :: rows)) :
    load text = .ok { header := hdr, cells := rows.map (·.map cast) } := by
  unfold load
  rw [hr]
  exact deriveTable_good (readAll_good hr)

/-! ## text columns (`ParseCsvTextIntoTableWithTextColumns`) -/

/-- cells of one record when the columns headed by one of `ths` keep their text -/
def castRow (ths hdr r : List Bytes) : List Cell := List.zipWith (castIn ths) hdr r

theorem castIn_nil (h f : Bytes) : castIn [] h f = cast f := by
  simp [castIn, isTextColumn]

theorem deriveRowT_nil (hdr r : List Bytes) : deriveRowT [] hdr r = deriveRow hdr.length r := by
  induction hdr generalizing r with
  | nil => rfl
  | cons h hs ih =>
    cases r with
    | nil => rfl
    | cons f fs => simp [deriveRowT, deriveRow, ih, castIn_nil]

theorem deriveRowsT_nil (hdr : List Bytes) (rows : List (List Bytes)) :
    deriveRowsT [] hdr rows = deriveRows hdr.length rows := by
  induction rows with
  | nil => rfl
  | cons r rs ih => simp [deriveRowsT, deriveRows, ih, deriveRowT_nil]

theorem deriveTableT_nil (records : List (List Bytes)) : deriveTableT [] records = deriveTable records := by
  cases records with
  | nil => rfl
  | cons hdr rows => simp [deriveTableT, deriveTable, deriveRowsT_nil]

theorem deriveRowT_length (ths hdr r : List Bytes) (h : r.length = hdr.length) :
    deriveRowT ths hdr r = some (castRow ths hdr r) := by
  induction hdr generalizing r with
  | nil => simp [deriveRowT, castRow]
  | cons c cs ih =>
    cases r with
    | nil => simp at h
    | cons f fs =>
      have h' : fs.length = cs.length := by simpa using h
      simp [deriveRowT, ih fs h', castRow]

theorem deriveRowsT_uniform (ths hdr : List Bytes) (rows : List (List Bytes)) (h : ∀ r ∈ rows, r.length = hdr.length) :
    deriveRowsT ths hdr rows = some (rows.map (castRow ths hdr)) := by
  induction rows with
  | nil => rfl
  | cons r rs ih =>
    simp [deriveRowsT, deriveRowT_length ths hdr r (h r (by simp)), ih (fun x hx => h x (by simp [hx]))]

theorem deriveTableT_good (ths : List Bytes) {hdr : List Bytes} {rows : List (List Bytes)} (h : Good (hdr :: rows)) :
    deriveTableT ths (hdr :: rows) = .ok { header := hdr, cells := rows.map (castRow ths hdr) } := by
  simp [deriveTableT, deriveRowsT_uniform ths hdr rows (good_cons h).2]

theorem loadT_of_readAll (ths : List Bytes) {text : Bytes} {hdr : List Bytes} {rows : List (List Bytes)}
    (hr : readAll text = .ok (hdr :: rows)) :
    loadT ths text = .ok { header := hdr, cells := rows.map (castRow ths hdr) } := by
  unfold loadT
  rw [hr]
  exact deriveTableT_good ths (readAll_good hr)

theorem castRow_length (ths hdr r : List Bytes) (h : r.length = hdr.length) : (castRow ths hdr r).length = hdr.length := by
  simp [castRow, h]

/-! ## cast -/

theorem cast_eq_specCell (f : Bytes) (h : boolSpelled f = false) : cast f = specCell f := by
  unfold cast specCell
  unfold boolSpelled isNumeric at h
  cases hp : parseFloat f with
  | some b => rfl
  | none =>
    simp only [hp, Option.isSome_none, Bool.not_false, Bool.true_and] at h
    cases hb : parseBool f with
    | none => rfl
    | some b => simp [hb] at h

theorem cast_bool_iff (f : Bytes) : (∃ b, cast f = .bool b) ↔ boolSpelled f = true := by
  unfold cast boolSpelled isNumeric
  cases hp : parseFloat f with
  | some b => simp
  | none =>
    cases hb : parseBool f with
    | none => simp
    | some b => simp

theorem cast_text (f s : Bytes) (h : cast f = .text s) : s = f := by
  unfold cast at h
  cases hp : parseFloat f with
  | some b => simp [hp] at h
  | none =>
    cases hb : parseBool f with
    | none => simp [hp, hb] at h; exact h.symm
    | some b => simp [hp, hb] at h

/-! ## the reader over `render` output -/

theorem normalize_noCR (bs : Bytes) (h : ∀ b ∈ bs, b ≠ bCR) : normalize bs = bs := by
  induction bs with
  | nil => rfl
  | cons b rest ih =>
    have hb : (b == bCR) = false := by simpa using h b (by simp)
    simp only [normalize, hb, Bool.false_eq_true, ↓reduceIte]
    rw [ih (fun x hx => h x (by simp [hx]))]

/-- a run of bytes of a non-quoted field -/
theorem scan_unquoted_run (f : Bytes) (hf : ∀ b ∈ f, b ≠ bComma ∧ b ≠ bNL ∧ b ≠ bQuote) (st : St) (rest : Bytes) :
    scan .unquoted st (f ++ rest) = scan .unquoted { st with field := st.field ++ f } rest := by
  induction f generalizing st with
  | nil => simp
  | cons b f ih =>
    have hb := hf b (by simp)
    simp only [List.cons_append, scan]
    simp only [beq_iff_eq, hb.1, hb.2.1, hb.2.2, ↓reduceIte]
    rw [ih (fun x hx => hf x (by simp [hx]))]
    simp [St.push]

/-- a field that does not start with a Unicode space still does not when `\n` or `,` follows it
(those bytes cannot complete a multi-byte space) -/
theorem spaceLen_append (b : UInt8) (f : Bytes) (c : UInt8) (rest : Bytes)
    (h : spaceLen (b :: f) = 0) (hc : c = bNL ∨ c = bComma) : spaceLen (b :: (f ++ c :: rest)) = 0 := by
  have hc1 : (c == 0x85) = false ∧ (c == 0xA0) = false ∧ (c == 0x9A) = false ∧ (c == 0x80) = false ∧ (c == 0x81) = false
      ∧ (c == 0x9F) = false ∧ (c == 0xA8) = false ∧ (c == 0xA9) = false ∧ (c == 0xAF) = false ∧ (0x80 ≤ c) = false := by
    rcases hc with rfl | rfl <;> decide
  obtain ⟨h1, h2, h3, h4, h5, h6, h7, h8, h9, h10⟩ := hc1
  match f, h with
  | [], h =>
    simp only [spaceLen] at h ⊢
    simp only [List.nil_append]
    repeat' split
    all_goals first
      | (simp_all; done)
      | (simp_all; rename_i hh; exact absurd hh.2.1 (UInt8.not_le.mpr h10))
  | [b1], h =>
    simp only [spaceLen] at h ⊢
    simp only [List.cons_append, List.nil_append]
    repeat' split
    all_goals first
      | (simp_all; done)
      | (simp_all; rename_i hh; exact absurd hh.2.1 (UInt8.not_le.mpr h10))
  | b1 :: b2 :: t, h =>
    simpa [spaceLen] using h

theorem plainField_iff (f : Bytes) : plainField f = true ↔
    (∀ b ∈ f, b ≠ bComma ∧ b ≠ bQuote ∧ b ≠ bNL ∧ b ≠ bCR) ∧ spaceLen f = 0 := by
  simp [plainField, List.all_eq_true, and_assoc]

/-- a non-empty plain field read from the start of a field up to its terminator `c` -/
theorem scan_start_plain (first : Bool) (st : St) (b : UInt8) (f rest : Bytes) (c : UInt8)
    (hp : plainField (b :: f) = true) (hc : c = bNL ∨ c = bComma) :
    scan (.start first) st (b :: (f ++ c :: rest)) =
      scan .unquoted { st with field := st.field ++ b :: f } (c :: rest) := by
  rw [plainField_iff] at hp
  obtain ⟨hall, hsp⟩ := hp
  have hb := hall b (by simp)
  have hk := spaceLen_append b f c rest hsp hc
  have h1 : (b == bNL) = false := by simpa using hb.2.2.1
  have h2 : (b == bQuote) = false := by simpa using hb.2.1
  have h3 : (b == bComma) = false := by simpa using hb.1
  rw [scan]
  simp only [h1, h2, h3, hk, Bool.and_false, Bool.false_eq_true, ↓reduceIte, beq_self_eq_true]
  rw [scan_unquoted_run f (fun x hx => by have := hall x (by simp [hx]); exact ⟨this.1, this.2.2.1, this.2.1⟩)]
  simp [St.push]

theorem spaceLen_space (rest : Bytes) : spaceLen (bSpace :: rest) = 1 := by
  simp [spaceLen, isSpace1, bSpace]
theorem spaceLen_nl (rest : Bytes) : spaceLen (bNL :: rest) = 1 := by
  simp [spaceLen, isSpace1, bNL]
theorem spaceLen_comma (rest : Bytes) : spaceLen (bComma :: rest) = 0 := by
  simp [spaceLen, isSpace1, bComma]
theorem spaceLen_quote (rest : Bytes) : spaceLen (bQuote :: rest) = 0 := by
  simp [spaceLen, isSpace1, bQuote]

/-- a trimmed ASCII space at the start of a field -/
theorem scan_space_start (st : St) (rest : Bytes) :
    scan (.start false) st (bSpace :: rest) = scan (.start false) st rest := by
  rw [scan]
  have : (bSpace == bNL) = false := by decide
  simp [spaceLen_space, this]

/-- `, ` between two fields: the comma ends the field, the space is trimmed -/
theorem scan_sep_unquoted (st : St) (rest : Bytes) :
    scan .unquoted st (bComma :: bSpace :: rest) = scan (.start false) st.endField rest := by
  rw [scan]
  simp only [beq_self_eq_true, ↓reduceIte]
  exact scan_space_start _ _

theorem scan_sep_start (first : Bool) (st : St) (rest : Bytes) :
    scan (.start first) st (bComma :: bSpace :: rest) = scan (.start false) st.endField rest := by
  rw [scan]
  have h1 : (bComma == bNL) = false := by decide
  have h2 : (bComma == bQuote) = false := by decide
  simp only [h1, h2, spaceLen_comma, Bool.and_false, Bool.false_eq_true, ↓reduceIte, beq_self_eq_true]
  exact scan_space_start _ _

/-- what follows the end of a record -/
def afterRecord (r : Except CsvErr St) (rest : Bytes) : Except CsvErr (List (List Bytes)) :=
  match r with
  | .error e => .error e
  | .ok st' => scan (.start true) st' rest

theorem scan_nl_unquoted (st : St) (rest : Bytes) :
    scan .unquoted st (bNL :: rest) = afterRecord st.endRecord rest := by
  rw [scan]
  have : (bNL == bComma) = false := by decide
  simp only [this, Bool.false_eq_true, ↓reduceIte, beq_self_eq_true]
  rfl

theorem scan_nl_start (st : St) (rest : Bytes) :
    scan (.start false) st (bNL :: rest) = afterRecord st.endRecord rest := by
  rw [scan]
  simp only [spaceLen_nl, Bool.false_and, Bool.false_eq_true, ↓reduceIte, beq_self_eq_true]
  rfl

/-- one rendered row, read from the start of its first field -/
theorem scan_row (r : List Bytes) (hp : ∀ f ∈ r, plainField f = true) :
    ∀ (first : Bool) (done : List Bytes) (recs : List (List Bytes)) (rest : Bytes),
      r ≠ [] → (first = true → r ≠ [[]]) →
      scan (.start first) { field := [], fields := done, recs := recs } (renderRow r ++ bNL :: rest) =
        afterRecord (endRec recs (done ++ r)) rest := by
  induction r with
  | nil => intro _ _ _ _ h; exact absurd rfl h
  | cons f fs ih =>
    intro first done recs rest _ hfirst
    have hpf := hp f (by simp)
    cases fs with
    | nil =>
      cases f with
      | nil =>
        have : first = false := by
          rcases Bool.eq_false_or_eq_true first with h | h
          · exact absurd rfl (hfirst h)
          · exact h
        subst this
        simp only [renderRow, List.nil_append]
        rw [scan_nl_start]
        rfl
      | cons b f' =>
        simp only [renderRow, List.cons_append]
        rw [scan_start_plain first _ b f' rest bNL hpf (Or.inl rfl), scan_nl_unquoted]
        rfl
    | cons g gs =>
      have ih' := ih (fun x hx => hp x (by simp [hx])) false (done ++ [f]) recs rest (by simp) (by simp)
      have hassoc : done ++ [f] ++ g :: gs = done ++ f :: g :: gs := by simp
      rw [hassoc] at ih'
      cases f with
      | nil =>
        simp only [renderRow, List.nil_append, List.cons_append]
        rw [scan_sep_start]
        exact ih'
      | cons b f' =>
        simp only [renderRow, List.cons_append, List.append_assoc]
        rw [scan_start_plain first _ b f' _ bComma hpf (Or.inr rfl), scan_sep_unquoted]
        exact ih'

/-- after any row reader lemma of the shape of `scan_row`: all rows -/
theorem scan_rows_of_row (rend : List (List Bytes) → Bytes) (rendRow : List Bytes → Bytes)
    (hnil : rend [] = []) (hcons : ∀ r rs, rend (r :: rs) = rendRow r ++ bNL :: rend rs)
    (n : Nat) (rows : List (List Bytes)) (P : List Bytes → Prop)
    (hrow : ∀ r, P r → ∀ (recs : List (List Bytes)) (rest : Bytes),
      scan (.start true) { field := [], fields := [], recs := recs } (rendRow r ++ bNL :: rest) =
        afterRecord (endRec recs r) rest)
    (hw : ∀ r ∈ rows, r.length = n ∧ P r) :
    ∀ recs : List (List Bytes), (∀ r ∈ recs, r.length = n) →
      scan (.start true) { field := [], fields := [], recs := recs } (rend rows) = .ok (recs ++ rows) := by
  induction rows with
  | nil => intro recs _; simp [hnil, scan]
  | cons r rs ih =>
    intro recs hrecs
    obtain ⟨hlen, hp⟩ := hw r (by simp)
    rw [hcons, hrow r hp recs (rend rs)]
    cases recs with
    | nil =>
      simp only [endRec, afterRecord]
      rw [ih (fun x hx => hw x (by simp [hx])) [r] (by simpa using hlen)]
      simp
    | cons first tl =>
      have : r.length = first.length := by rw [hlen, hrecs first (by simp)]
      simp only [endRec, this, beq_self_eq_true, ↓reduceIte, afterRecord]
      rw [ih (fun x hx => hw x (by simp [hx])) (first :: tl ++ [r])]
      · simp
      · intro x hx
        simp only [List.mem_append, List.mem_singleton] at hx
        rcases hx with hx | hx
        · exact hrecs x hx
        · rw [hx, hlen]

theorem renderRow_noCR (r : List Bytes) (h : ∀ f ∈ r, ∀ b ∈ f, b ≠ bCR) : ∀ b ∈ renderRow r, b ≠ bCR := by
  induction r with
  | nil => simp [renderRow]
  | cons f fs ih =>
    cases fs with
    | nil => simpa [renderRow] using h f (by simp)
    | cons g gs =>
      intro b hb
      simp only [renderRow, List.mem_append, List.mem_cons] at hb
      rcases hb with hb | hb | hb | hb
      · exact h f (by simp) b hb
      · subst hb; decide
      · subst hb; decide
      · exact ih (fun x hx => h x (by simp [hx])) b hb

theorem render_noCR (rows : List (List Bytes)) (h : ∀ r ∈ rows, ∀ f ∈ r, ∀ b ∈ f, b ≠ bCR) :
    ∀ b ∈ render rows, b ≠ bCR := by
  induction rows with
  | nil => simp [render]
  | cons r rs ih =>
    intro b hb
    simp only [render, List.mem_append, List.mem_cons] at hb
    rcases hb with hb | hb | hb
    · exact renderRow_noCR r (h r (by simp)) b hb
    · subst hb; decide
    · exact ih (fun x hx => h x (by simp [hx])) b hb

/-! ## the reader over `renderQ` output (quoted fields) -/

theorem scan_quoted_run (f : Bytes) (st : St) (rest : Bytes) :
    scan .quoted st (escapeQ f ++ rest) = scan .quoted { st with field := st.field ++ f } rest := by
  induction f generalizing st with
  | nil => simp [escapeQ]
  | cons b f ih =>
    rcases Bool.eq_false_or_eq_true (b == bQuote) with hb | hb
    · have hbq : b = bQuote := by simpa using hb
      simp only [escapeQ, hb, ↓reduceIte, List.cons_append]
      rw [scan]
      simp only [beq_self_eq_true, ↓reduceIte]
      rw [scan]
      simp only [beq_self_eq_true, ↓reduceIte]
      rw [ih]
      simp [St.push, hbq]
    · simp only [escapeQ, hb, Bool.false_eq_true, ↓reduceIte, List.cons_append]
      rw [scan]
      simp only [hb, Bool.false_eq_true, ↓reduceIte]
      rw [ih]
      simp [St.push]

theorem scan_start_quote (first : Bool) (st : St) (rest : Bytes) :
    scan (.start first) st (bQuote :: rest) = scan .quoted st rest := by
  rw [scan]
  have : (bQuote == bNL) = false := by decide
  simp [spaceLen_quote, this]

theorem scan_close_comma (st : St) (rest : Bytes) :
    scan .quoted st (bQuote :: bComma :: rest) = scan (.start false) st.endField rest := by
  rw [scan]
  simp only [beq_self_eq_true, ↓reduceIte]
  rw [scan]
  have : (bComma == bQuote) = false := by decide
  simp [this]

theorem scan_close_nl (st : St) (rest : Bytes) :
    scan .quoted st (bQuote :: bNL :: rest) = afterRecord st.endRecord rest := by
  rw [scan]
  simp only [beq_self_eq_true, ↓reduceIte]
  rw [scan]
  have h1 : (bNL == bQuote) = false := by decide
  have h2 : (bNL == bComma) = false := by decide
  simp only [h1, h2, Bool.false_eq_true, ↓reduceIte, beq_self_eq_true]
  rfl

theorem scan_rowQ (r : List Bytes) :
    ∀ (first : Bool) (done : List Bytes) (recs : List (List Bytes)) (rest : Bytes), r ≠ [] →
      scan (.start first) { field := [], fields := done, recs := recs } (renderRowQ r ++ bNL :: rest) =
        afterRecord (endRec recs (done ++ r)) rest := by
  induction r with
  | nil => intro _ _ _ _ h; exact absurd rfl h
  | cons f fs ih =>
    intro first done recs rest _
    cases fs with
    | nil =>
      simp only [renderRowQ, quoteField, List.cons_append, List.append_assoc, List.nil_append]
      rw [scan_start_quote, scan_quoted_run, scan_close_nl]
      rfl
    | cons g gs =>
      have ih' := ih false (done ++ [f]) recs rest (by simp)
      have hassoc : done ++ [f] ++ g :: gs = done ++ f :: g :: gs := by simp
      rw [hassoc] at ih'
      simp only [renderRowQ, quoteField, List.cons_append, List.append_assoc, List.nil_append]
      rw [scan_start_quote, scan_quoted_run, scan_close_comma]
      exact ih'

theorem escapeQ_noCR (f : Bytes) (h : ∀ b ∈ f, b ≠ bCR) : ∀ b ∈ escapeQ f, b ≠ bCR := by
  induction f with
  | nil => simp [escapeQ]
  | cons c f ih =>
    intro b hb
    have hc := h c (by simp)
    have ih' := ih (fun x hx => h x (by simp [hx]))
    simp only [escapeQ] at hb
    split at hb
    · simp only [List.mem_cons] at hb
      rcases hb with hb | hb | hb
      · subst hb; decide
      · subst hb; decide
      · exact ih' b hb
    · simp only [List.mem_cons] at hb
      rcases hb with hb | hb
      · subst hb; exact hc
      · exact ih' b hb

theorem renderRowQ_noCR (r : List Bytes) (h : ∀ f ∈ r, ∀ b ∈ f, b ≠ bCR) : ∀ b ∈ renderRowQ r, b ≠ bCR := by
  have hq : ∀ f, (∀ b ∈ f, b ≠ bCR) → ∀ b ∈ quoteField f, b ≠ bCR := by
    intro f hf b hb
    simp only [quoteField, List.mem_cons, List.mem_append, List.not_mem_nil, or_false] at hb
    rcases hb with hb | hb | hb
    · subst hb; decide
    · exact escapeQ_noCR f hf b hb
    · subst hb; decide
  induction r with
  | nil => simp [renderRowQ]
  | cons f fs ih =>
    cases fs with
    | nil => simpa [renderRowQ] using hq f (h f (by simp))
    | cons g gs =>
      intro b hb
      simp only [renderRowQ, List.mem_append, List.mem_cons] at hb
      rcases hb with hb | hb | hb
      · exact hq f (h f (by simp)) b hb
      · subst hb; decide
      · exact ih (fun x hx => h x (by simp [hx])) b hb

theorem renderQ_noCR (rows : List (List Bytes)) (h : ∀ r ∈ rows, ∀ f ∈ r, ∀ b ∈ f, b ≠ bCR) :
    ∀ b ∈ renderQ rows, b ≠ bCR := by
  induction rows with
  | nil => simp [renderQ]
  | cons r rs ih =>
    intro b hb
    simp only [renderQ, List.mem_append, List.mem_cons] at hb
    rcases hb with hb | hb | hb
    · exact renderRowQ_noCR r (h r (by simp)) b hb
    · subst hb; decide
    · exact ih (fun x hx => h x (by simp [hx])) b hb

/-! ## a rendered prefix followed by anything; ragged rows -/

theorem normalize_append_noCR (a : Bytes) (h : ∀ b ∈ a, b ≠ bCR) (rest : Bytes) :
    normalize (a ++ rest) = a ++ normalize rest := by
  induction a with
  | nil => rfl
  | cons b a ih =>
    have hb : (b == bCR) = false := by simpa using h b (by simp)
    simp only [List.cons_append, normalize, hb, Bool.false_eq_true, ↓reduceIte]
    rw [ih (fun x hx => h x (by simp [hx]))]

/-- `scan_rows_of_row` with a continuation: uniform rows are read and the reader goes on -/
theorem scan_rows_prefix (rend : List (List Bytes) → Bytes) (rendRow : List Bytes → Bytes)
    (hnil : rend [] = []) (hcons : ∀ r rs, rend (r :: rs) = rendRow r ++ bNL :: rend rs)
    (n : Nat) (rows : List (List Bytes)) (P : List Bytes → Prop)
    (hrow : ∀ r, P r → ∀ (recs : List (List Bytes)) (rest : Bytes),
      scan (.start true) { field := [], fields := [], recs := recs } (rendRow r ++ bNL :: rest) =
        afterRecord (endRec recs r) rest)
    (hw : ∀ r ∈ rows, r.length = n ∧ P r) :
    ∀ (recs : List (List Bytes)) (rest : Bytes), (∀ r ∈ recs, r.length = n) →
      scan (.start true) { field := [], fields := [], recs := recs } (rend rows ++ rest) =
        scan (.start true) { field := [], fields := [], recs := recs ++ rows } rest := by
  induction rows with
  | nil => intro recs rest _; simp [hnil]
  | cons r rs ih =>
    intro recs rest hrecs
    obtain ⟨hlen, hp⟩ := hw r (by simp)
    rw [hcons, List.append_assoc, List.cons_append, hrow r hp recs (rend rs ++ rest)]
    cases recs with
    | nil =>
      simp only [endRec, afterRecord]
      rw [ih (fun x hx => hw x (by simp [hx])) [r] rest (by simpa using hlen)]
      simp
    | cons first tl =>
      have : r.length = first.length := by rw [hlen, hrecs first (by simp)]
      simp only [endRec, this, beq_self_eq_true, ↓reduceIte, afterRecord]
      rw [ih (fun x hx => hw x (by simp [hx])) (first :: tl ++ [r]) rest]
      · simp
      · intro x hx
        simp only [List.mem_append, List.mem_singleton] at hx
        rcases hx with hx | hx
        · exact hrecs x hx
        · rw [hx, hlen]

theorem endRec_ragged {recs : List (List Bytes)} {r first : List Bytes} (hf : recs.head? = some first)
    (h : r.length ≠ first.length) : endRec recs r = .error .fieldCount := by
  cases recs with
  | nil => simp at hf
  | cons a tl =>
    simp only [List.head?_cons, Option.some.injEq] at hf
    subst hf
    simp [endRec, h]

/-! ## the reader over `renderM` output (mixed quoting) -/

/-- a trimmed ASCII space at the start of a field, also at the start of a line -/
theorem scan_space_start' (first : Bool) (st : St) (rest : Bytes) :
    scan (.start first) st (bSpace :: rest) = scan (.start false) st rest := by
  rw [scan]
  have : (bSpace == bNL) = false := by decide
  simp [spaceLen_space, this]

theorem scan_comma_start (first : Bool) (st : St) (rest : Bytes) :
    scan (.start first) st (bComma :: rest) = scan (.start false) st.endField rest := by
  rw [scan]
  have h1 : (bComma == bNL) = false := by decide
  have h2 : (bComma == bQuote) = false := by decide
  simp only [h1, h2, spaceLen_comma, Bool.and_false, Bool.false_eq_true, ↓reduceIte, beq_self_eq_true]

theorem scan_comma_unquoted (st : St) (rest : Bytes) :
    scan .unquoted st (bComma :: rest) = scan (.start false) st.endField rest := by
  rw [scan]
  simp only [beq_self_eq_true, ↓reduceIte]

/-- `spaceLen_append` for the three bytes that can end a run of plain bytes -/
theorem spaceLen_append3 (b : UInt8) (f : Bytes) (c : UInt8) (rest : Bytes)
    (h : spaceLen (b :: f) = 0) (hc : c = bNL ∨ c = bComma ∨ c = bQuote) : spaceLen (b :: (f ++ c :: rest)) = 0 := by
  have hc1 : (c == 0x85) = false ∧ (c == 0xA0) = false ∧ (c == 0x9A) = false ∧ (c == 0x80) = false ∧ (c == 0x81) = false
      ∧ (c == 0x9F) = false ∧ (c == 0xA8) = false ∧ (c == 0xA9) = false ∧ (c == 0xAF) = false ∧ (0x80 ≤ c) = false := by
    rcases hc with rfl | rfl | rfl <;> decide
  obtain ⟨h1, h2, h3, h4, h5, h6, h7, h8, h9, h10⟩ := hc1
  match f, h with
  | [], h =>
    simp only [spaceLen] at h ⊢
    simp only [List.nil_append]
    repeat' split
    all_goals first
      | (simp_all; done)
      | (simp_all; rename_i hh; exact absurd hh.2.1 (UInt8.not_le.mpr h10))
  | [b1], h =>
    simp only [spaceLen] at h ⊢
    simp only [List.cons_append, List.nil_append]
    repeat' split
    all_goals first
      | (simp_all; done)
      | (simp_all; rename_i hh; exact absurd hh.2.1 (UInt8.not_le.mpr h10))
  | b1 :: b2 :: t, h =>
    simpa [spaceLen] using h

/-- a non-empty plain run at the start of a field, up to a `"`: the bare-quote error -/
theorem scan_start_plain_quote (first : Bool) (st : St) (b : UInt8) (f rest : Bytes)
    (hp : plainField (b :: f) = true) :
    scan (.start first) st (b :: (f ++ bQuote :: rest)) = .error .bareQuote := by
  rw [plainField_iff] at hp
  obtain ⟨hall, hsp⟩ := hp
  have hb := hall b (by simp)
  have hk := spaceLen_append3 b f bQuote rest hsp (Or.inr (Or.inr rfl))
  have h1 : (b == bNL) = false := by simpa using hb.2.2.1
  have h2 : (b == bQuote) = false := by simpa using hb.2.1
  have h3 : (b == bComma) = false := by simpa using hb.1
  rw [scan]
  simp only [h1, h2, h3, hk, Bool.and_false, Bool.false_eq_true, ↓reduceIte, beq_self_eq_true]
  rw [scan_unquoted_run f (fun x hx => by have := hall x (by simp [hx]); exact ⟨this.1, this.2.2.1, this.2.1⟩)]
  rw [scan]
  have h4 : (bQuote == bComma) = false := by decide
  have h5 : (bQuote == bNL) = false := by decide
  simp [h4, h5]

/-- one field written by `fieldM`, followed by a comma -/
theorem scan_fieldM_comma (q sp : Bytes → Bool) (f : Bytes) (hf : q f = true ∨ plainField f = true)
    (first : Bool) (done : List Bytes) (recs : List (List Bytes)) (rest : Bytes) :
    scan (.start first) { field := [], fields := done, recs := recs } (fieldM q sp f ++ bComma :: rest) =
      scan (.start false) { field := [], fields := done ++ [f], recs := recs } rest := by
  -- after the optional space the reader is at the start of the field proper
  have key : ∀ first', scan (.start first') { field := [], fields := done, recs := recs }
      ((if q f then quoteField f else f) ++ bComma :: rest) =
      scan (.start false) { field := [], fields := done ++ [f], recs := recs } rest := by
    intro first'
    rcases Bool.eq_false_or_eq_true (q f) with hq | hq
    · simp only [hq, ↓reduceIte, quoteField, List.cons_append, List.append_assoc, List.nil_append]
      rw [scan_start_quote, scan_quoted_run, scan_close_comma]
      simp [St.endField]
    · have hpl : plainField f = true := by
        rcases hf with h | h
        · rw [hq] at h; cases h
        · exact h
      simp only [hq, Bool.false_eq_true, ↓reduceIte]
      cases f with
      | nil => rw [List.nil_append, scan_comma_start]; simp [St.endField]
      | cons b f' =>
        rw [List.cons_append, scan_start_plain first' _ b f' rest bComma hpl (Or.inr rfl), scan_comma_unquoted]
        simp [St.endField]
  unfold fieldM
  rcases Bool.eq_false_or_eq_true (sp f) with hs | hs
  · simp only [hs, ↓reduceIte, List.cons_append, List.nil_append]
    rw [scan_space_start']
    exact key false
  · simp only [hs, Bool.false_eq_true, ↓reduceIte, List.nil_append]
    exact key first

/-- one field written by `fieldM`, followed by the line end -/
theorem scan_fieldM_nl (q sp : Bytes → Bool) (f : Bytes) (hf : q f = true ∨ plainField f = true)
    (first : Bool) (done : List Bytes) (recs : List (List Bytes)) (rest : Bytes)
    (hfirst : first = true → f = [] → q f = false → sp f = true) :
    scan (.start first) { field := [], fields := done, recs := recs } (fieldM q sp f ++ bNL :: rest) =
      afterRecord (endRec recs (done ++ [f])) rest := by
  have key : ∀ first', (first' = true → f = [] → q f = false → False) →
      scan (.start first') { field := [], fields := done, recs := recs }
      ((if q f then quoteField f else f) ++ bNL :: rest) = afterRecord (endRec recs (done ++ [f])) rest := by
    intro first' hfirst'
    rcases Bool.eq_false_or_eq_true (q f) with hq | hq
    · simp only [hq, ↓reduceIte, quoteField, List.cons_append, List.append_assoc, List.nil_append]
      rw [scan_start_quote, scan_quoted_run, scan_close_nl]
      rfl
    · have hpl : plainField f = true := by
        rcases hf with h | h
        · rw [hq] at h; cases h
        · exact h
      simp only [hq, Bool.false_eq_true, ↓reduceIte]
      cases f with
      | nil =>
        have : first' = false := by
          rcases Bool.eq_false_or_eq_true first' with h | h
          · exact absurd (hfirst' h rfl hq) id
          · exact h
        subst this
        rw [List.nil_append, scan_nl_start]
        rfl
      | cons b f' =>
        rw [List.cons_append, scan_start_plain first' _ b f' rest bNL hpl (Or.inl rfl), scan_nl_unquoted]
        rfl
  unfold fieldM
  rcases Bool.eq_false_or_eq_true (sp f) with hs | hs
  · simp only [hs, ↓reduceIte, List.cons_append, List.nil_append]
    rw [scan_space_start']
    exact key false (by intro h; cases h)
  · simp only [hs, Bool.false_eq_true, ↓reduceIte, List.nil_append]
    exact key first (fun h1 h2 h3 => by have := hfirst h1 h2 h3; rw [hs] at this; cases this)

/-- the complete fields of a row that goes on -/
theorem scan_fieldsM (q sp : Bytes → Bool) (fs : List Bytes) (hfs : ∀ f ∈ fs, q f = true ∨ plainField f = true) :
    ∀ (first : Bool) (done : List Bytes) (recs : List (List Bytes)) (rest : Bytes),
      scan (.start first) { field := [], fields := done, recs := recs } (fieldsM q sp fs ++ rest) =
        scan (.start (first && fs.isEmpty)) { field := [], fields := done ++ fs, recs := recs } rest := by
  induction fs with
  | nil => intro first done recs rest; simp [fieldsM]
  | cons f fs ih =>
    intro first done recs rest
    simp only [fieldsM, List.append_assoc, List.cons_append]
    rw [scan_fieldM_comma q sp f (hfs f (by simp)), ih (fun x hx => hfs x (by simp [hx]))]
    simp

theorem scan_rowM (q sp : Bytes → Bool) (r : List Bytes) (hp : ∀ f ∈ r, q f = true ∨ plainField f = true) :
    ∀ (first : Bool) (done : List Bytes) (recs : List (List Bytes)) (rest : Bytes),
      r ≠ [] → (first = true → r = [[]] → q [] = false → sp [] = true) →
      scan (.start first) { field := [], fields := done, recs := recs } (renderRowM q sp r ++ bNL :: rest) =
        afterRecord (endRec recs (done ++ r)) rest := by
  induction r with
  | nil => intro _ _ _ _ h; exact absurd rfl h
  | cons f fs ih =>
    intro first done recs rest _ hfirst
    cases fs with
    | nil =>
      simp only [renderRowM]
      exact scan_fieldM_nl q sp f (hp f (by simp)) first done recs rest
        (fun h1 h2 h3 => by subst h2; exact hfirst h1 rfl h3)
    | cons g gs =>
      have ih' := ih (fun x hx => hp x (by simp [hx])) false (done ++ [f]) recs rest (by simp) (by simp)
      have hassoc : done ++ [f] ++ g :: gs = done ++ f :: g :: gs := by simp
      rw [hassoc] at ih'
      simp only [renderRowM, List.append_assoc, List.cons_append]
      rw [scan_fieldM_comma q sp f (hp f (by simp))]
      exact ih'

theorem fieldM_noCR (q sp : Bytes → Bool) (f : Bytes) (h : ∀ b ∈ f, b ≠ bCR) : ∀ b ∈ fieldM q sp f, b ≠ bCR := by
  intro b hb
  unfold fieldM at hb
  simp only [List.mem_append] at hb
  rcases hb with hb | hb
  · split at hb
    · simp only [List.mem_singleton] at hb; subst hb; decide
    · simp at hb
  · split at hb
    · simp only [quoteField, List.mem_cons, List.mem_append, List.not_mem_nil, or_false] at hb
      rcases hb with hb | hb | hb
      · subst hb; decide
      · exact escapeQ_noCR f h b hb
      · subst hb; decide
    · exact h b hb

theorem renderRowM_noCR (q sp : Bytes → Bool) (r : List Bytes) (h : ∀ f ∈ r, ∀ b ∈ f, b ≠ bCR) :
    ∀ b ∈ renderRowM q sp r, b ≠ bCR := by
  induction r with
  | nil => simp [renderRowM]
  | cons f fs ih =>
    cases fs with
    | nil => simpa [renderRowM] using fieldM_noCR q sp f (h f (by simp))
    | cons g gs =>
      intro b hb
      simp only [renderRowM, List.mem_append, List.mem_cons] at hb
      rcases hb with hb | hb | hb
      · exact fieldM_noCR q sp f (h f (by simp)) b hb
      · subst hb; decide
      · exact ih (fun x hx => h x (by simp [hx])) b hb

theorem renderM_noCR (q sp : Bytes → Bool) (rows : List (List Bytes)) (h : ∀ r ∈ rows, ∀ f ∈ r, ∀ b ∈ f, b ≠ bCR) :
    ∀ b ∈ renderM q sp rows, b ≠ bCR := by
  induction rows with
  | nil => simp [renderM]
  | cons r rs ih =>
    intro b hb
    simp only [renderM, List.mem_append, List.mem_cons] at hb
    rcases hb with hb | hb | hb
    · exact renderRowM_noCR q sp r (h r (by simp)) b hb
    · subst hb; decide
    · exact ih (fun x hx => h x (by simp [hx])) b hb

theorem fieldsM_noCR (q sp : Bytes → Bool) (fs : List Bytes) (h : ∀ f ∈ fs, ∀ b ∈ f, b ≠ bCR) :
    ∀ b ∈ fieldsM q sp fs, b ≠ bCR := by
  induction fs with
  | nil => simp [fieldsM]
  | cons f fs ih =>
    intro b hb
    simp only [fieldsM, List.mem_append, List.mem_cons] at hb
    rcases hb with hb | hb | hb
    · exact fieldM_noCR q sp f (h f (by simp)) b hb
    · subst hb; decide
    · exact ih (fun x hx => h x (by simp [hx])) b hb

/-! ## the quote errors need a quote -/

theorem endRec_quoteFree (recs : List (List Bytes)) (r : List Bytes) :
    endRec recs r ≠ .error .quote ∧ endRec recs r ≠ .error .bareQuote := by
  unfold endRec
  split
  · simp
  · split <;> simp

theorem finish_quoteFree (st : St) : finish st ≠ .error .quote ∧ finish st ≠ .error .bareQuote := by
  unfold finish
  split
  · rename_i e heq
    have := endRec_quoteFree st.recs (st.fields ++ [st.field])
    constructor <;> intro h <;> simp only [Except.error.injEq] at h <;> subst h
    · exact this.1 heq
    · exact this.2 heq
  · simp

/-- the reader is not inside a quoted field -/
def Mode.outside : Mode → Bool
  | .quoted => false
  | .quoteSeen => false
  | _ => true

theorem scan_quoteFree (m : Mode) (st : St) (bs : Bytes) :
    m.outside = true → (∀ b ∈ bs, b ≠ bQuote) →
      scan m st bs ≠ .error .quote ∧ scan m st bs ≠ .error .bareQuote := by
  fun_induction scan m st bs <;> intro hm hq
  all_goals first
    | (simp [Mode.outside] at hm; done)
    | (simp; done)
    | exact finish_quoteFree _
    | (rename_i ih; exact ih rfl (fun x hx => hq x (by simp [hx])))
    | (rename_i hb _; exact absurd (by simpa using hb) (hq _ (by simp)))
    | (rename_i hb; exact absurd (by simpa using hb) (hq _ (by simp)))
    | (rename_i e heq
       constructor <;> intro h <;> simp only [Except.error.injEq] at h <;> subst h
       · exact (endRec_quoteFree _ _).1 heq
       · exact (endRec_quoteFree _ _).2 heq)
    | (rename_i st' heq ih; exact ih rfl (fun x hx => hq x (by simp [hx])))

theorem mem_normalize (bs : Bytes) : ∀ b ∈ normalize bs, b ∈ bs := by
  fun_induction normalize bs
  all_goals first
    | (simp; done)
    | (rename_i ih; intro b hb; simp only [List.mem_cons] at hb ⊢
       rcases hb with hb | hb
       · subst hb; simp_all
       · exact Or.inr (ih b hb))
    | (rename_i ih; intro b hb; exact List.mem_cons_of_mem _ (ih b hb))

/-! ## digit strings through `readFloat` -/

set_option maxRecDepth 100000 in
theorem digitFacts : ∀ i : Fin 256, isDigit (UInt8.ofFin i) = true →
    lower (UInt8.ofFin i) = UInt8.ofFin i ∧ (UInt8.ofFin i - 0x30).toNat < 10 ∧
    UInt8.ofFin i ≠ 0x5F ∧ UInt8.ofFin i ≠ 0x2E ∧ UInt8.ofFin i ≠ 0x2B ∧ UInt8.ofFin i ≠ 0x2D ∧
    UInt8.ofFin i ≠ 0x69 ∧ UInt8.ofFin i ≠ 0x49 ∧ UInt8.ofFin i ≠ 0x6E ∧ UInt8.ofFin i ≠ 0x4E ∧ UInt8.ofFin i ≠ 0x78 := by
  decide

theorem digit_facts {c : UInt8} (h : isDigit c = true) :
    lower c = c ∧ (c - 0x30).toNat < 10 ∧ c ≠ 0x5F ∧ c ≠ 0x2E ∧ c ≠ 0x2B ∧ c ≠ 0x2D ∧
    c ≠ 0x69 ∧ c ≠ 0x49 ∧ c ≠ 0x6E ∧ c ≠ 0x4E ∧ c ≠ 0x78 := by
  have := digitFacts c.toFin (by simpa using h)
  simpa using this

/-- the decimal mantissa scan keeps `nd` = the number of decimal digits of `mant` -/
def Mant.NdOk (m : Mant) : Prop :=
  (m.mant = 0 ∧ m.nd = 0) ∨ (0 < m.nd ∧ 10 ^ (m.nd - 1) ≤ m.mant ∧ m.mant < 10 ^ m.nd)

theorem Mant.add_ndOk (m : Mant) (d : Nat) (hd : d < 10) (h : m.NdOk) : (m.add 10 d).NdOk := by
  unfold Mant.NdOk Mant.add at *
  rcases h with ⟨h0, hn⟩ | ⟨hpos, hlo, hhi⟩
  · rcases Nat.eq_zero_or_pos d with hd0 | hd0
    · left; simp [h0, hn, hd0]
    · right
      have : (d == 0) = false := by simp; omega
      simp [h0, hn, this]
      omega
  · right
    have hnd : (m.nd == 0) = false := by simp; omega
    simp only [hnd, Bool.and_false, Bool.false_eq_true, ↓reduceIte, Nat.add_sub_cancel]
    obtain ⟨k, hk⟩ : ∃ k, m.nd = k + 1 := ⟨m.nd - 1, by omega⟩
    rw [hk] at hlo hhi ⊢
    simp only [Nat.add_sub_cancel] at hlo
    rw [Nat.pow_succ] at hhi ⊢
    rw [Nat.pow_succ]
    refine ⟨by omega, by omega, by omega⟩

/-- the mantissa scan state after the digits `ds` -/
def addDigits (m : Mant) (ds : Bytes) : Mant := ds.foldl (fun m c => m.add 10 (c - 0x30).toNat) m

theorem scanMant_digits (ds : Bytes) (h : allDigits ds = true) (m : Mant) :
    scanMant false m ds = (addDigits m ds, []) := by
  induction ds generalizing m with
  | nil => rfl
  | cons c ds ih =>
    simp only [allDigits, List.all_cons, Bool.and_eq_true] at h
    have f := digit_facts h.1
    have h1 : (c == 0x5F) = false := by simpa using f.2.2.1
    have h2 : (c == 0x2E) = false := by simpa using f.2.2.2.1
    simp only [scanMant, h1, h2, h.1, Bool.false_eq_true, ↓reduceIte]
    rw [ih (by simpa [allDigits] using h.2)]
    rfl

theorem addDigits_fields (ds : Bytes) (h : allDigits ds = true) (m : Mant) :
    (addDigits m ds).mant = ds.foldl (fun acc c => acc * 10 + (c - 0x30).toNat) m.mant ∧
    (addDigits m ds).sawDot = m.sawDot ∧ (addDigits m ds).underscores = m.underscores ∧
    (m.sawDot = false → (addDigits m ds).frac = m.frac) ∧
    ((addDigits m ds).sawDigits = (m.sawDigits || !ds.isEmpty)) ∧
    (m.NdOk → (addDigits m ds).NdOk) := by
  induction ds generalizing m with
  | nil => simp [addDigits]
  | cons c ds ih =>
    simp only [allDigits, List.all_cons, Bool.and_eq_true] at h
    have f := digit_facts h.1
    have := ih (by simpa [allDigits] using h.2) (m.add 10 (c - 0x30).toNat)
    simp only [addDigits, List.foldl_cons] at this ⊢
    obtain ⟨t1, t2, t3, t4, t5, t6⟩ := this
    refine ⟨by rw [t1]; rfl, by rw [t2]; rfl, by rw [t3]; rfl, ?_, ?_, ?_⟩
    · intro hs
      rw [t4 (by simpa [Mant.add] using hs)]
      simp [Mant.add, hs]
    · rw [t5]; simp [Mant.add]
    · intro hok
      exact t6 (Mant.add_ndOk m _ f.2.1 hok)



theorem special_digit (c : UInt8) (t : Bytes) (h : isDigit c = true) : special (c :: t) = none := by
  have f := digit_facts h
  obtain ⟨_, _, _, _, f1, f2, f3, f4, f5, f6, _⟩ := f
  simp [special, f1, f2, f3, f4, f5, f6]

theorem readFloat_digits (ds : Bytes) (hne : ds ≠ []) (h : allDigits ds = true) :
    readFloat ds = some (.dec false (addDigits {} ds).mant (addDigits {} ds).nd 0) := by
  cases ds with
  | nil => exact absurd rfl hne
  | cons c t =>
    have hc : isDigit c = true := by
      simp only [allDigits, List.all_cons, Bool.and_eq_true] at h; exact h.1
    have f := digit_facts hc
    have fl := addDigits_fields (c :: t) h {}
    obtain ⟨_, g2, g3, g4, g5, _⟩ := fl
    have g4' := g4 rfl
    have h1 : (c == 0x2B) = false := by simpa using f.2.2.2.2.1
    have h2 : (c == 0x2D) = false := by simpa using f.2.2.2.2.2.1
    have hsc := scanMant_digits (c :: t) h {}
    simp only [List.isEmpty_cons, Bool.not_false, Bool.or_true] at g5
    have fin : ∀ (m : Mant), m = addDigits {} (c :: t) →
        (if (!m.sawDigits) = true then none else
          if ((m.underscores || false) && !underscoreOK (c :: t)) = true then none
          else some (Lit.dec false m.mant m.nd (((0 : Nat) : Int) - (m.frac : Int)))) =
        some (Lit.dec false m.mant m.nd 0) := by
      intro m hm
      subst hm
      rw [g5, g3, g4']
      simp
    unfold readFloat
    simp only [h1, h2, Bool.false_eq_true, ↓reduceIte]
    -- no base prefix: the second character, if any, is a digit
    match t, h, hsc with
    | [], _, hsc =>
      simp only [hsc]
      simpa using fin _ rfl
    | [c1], _, hsc =>
      simp only [hsc]
      simpa using fin _ rfl
    | c1 :: c2 :: t2, h, hsc =>
      have hc1 : isDigit c1 = true := by
        simp only [allDigits, List.all_cons, Bool.and_eq_true] at h; exact h.2.1
      have f1 := digit_facts hc1
      have : (lower c1 == 0x78) = false := by rw [f1.1]; simpa using f1.2.2.2.2.2.2.2.2.2.2
      simp only [this, Bool.and_false, Bool.false_eq_true, ↓reduceIte, hsc]
      simpa using fin _ rfl


theorem roundHalfEven_one (a : Nat) : roundHalfEven a 1 = a := by
  simp [roundHalfEven, Nat.mod_one]


theorem floorLog2Ratio_one (n : Nat) (hn : n ≠ 0) : floorLog2Ratio n 1 = (n.log2 : Int) := by
  have h1 : (1 : Nat).log2 = 0 := by decide
  have h2 : 2 ^ n.log2 ≤ n := Nat.log2_self_le hn
  simp [floorLog2Ratio, h1, h2]

theorem roundBits_nat (n : Nat) (hn : n ≠ 0) (h : n < 2 ^ 53) : roundBits n 1 = bitsOfNat n := by
  have hL : n.log2 < 53 := (Nat.log2_lt hn).mpr h
  have h2 : 2 ^ n.log2 ≤ n := Nat.log2_self_le hn
  have hpow : 2 ^ n.log2 * 2 ^ (52 - n.log2) = 2 ^ 52 := by
    rw [← Nat.pow_add]; congr 1; omega
  have hge : 2 ^ 52 ≤ n * 2 ^ (52 - n.log2) := by
    rw [← hpow]; exact Nat.mul_le_mul_right _ h2
  unfold roundBits bitsOfNat
  rw [floorLog2Ratio_one n hn]
  simp only [hn, ↓reduceIte]
  have e1 : ¬ ((n.log2 : Int) < -1022) := by omega
  simp only [e1, ↓reduceIte]
  have e2 : ((n.log2 : Int) + 1022).toNat = n.log2 + 1022 := by omega
  rw [e2]
  by_cases hs : (n.log2 : Int) - 52 ≥ 0
  · have : n.log2 = 52 := by omega
    simp only [this]
    simp [roundHalfEven_one]
    rw [this] at hge
    simp at hge
    omega
  · have e3 : (-((n.log2 : Int) - 52)).toNat = 52 - n.log2 := by omega
    simp only [hs, ↓reduceIte, e3, roundHalfEven_one]
    omega


theorem bitsOfNat_lt_bitsInf (n : Nat) (h : n < 2 ^ 53) : bitsOfNat n < bitsInf := by
  unfold bitsOfNat bitsInf
  split
  · decide
  · rename_i hn
    have hL : n.log2 < 53 := (Nat.log2_lt hn).mpr h
    have h3 : n < 2 ^ (n.log2 + 1) := Nat.lt_log2_self
    have hpow : 2 ^ (n.log2 + 1) * 2 ^ (52 - n.log2) = 2 ^ 53 := by
      rw [← Nat.pow_add]; congr 1; omega
    have hlt : n * 2 ^ (52 - n.log2) < 2 ^ 53 := by
      rw [← hpow]; exact Nat.mul_lt_mul_of_pos_right h3 (Nat.pow_pos (by decide))
    have : (1023 + n.log2) * 2 ^ 52 ≤ 1075 * 2 ^ 52 := Nat.mul_le_mul_right _ (by omega)
    omega

theorem natOf_eq_addDigits (ds : Bytes) (h : allDigits ds = true) : (addDigits {} ds).mant = natOf ds :=
  (addDigits_fields ds h {}).1

/-- a literal that is a plain string of decimal digits: mantissa = the number, `nd` = its number
of digits, exponent 0 -/
theorem parseLit_digits (ds : Bytes) (hne : ds ≠ []) (h : allDigits ds = true) :
    ∃ nd, parseLit ds = some (.dec false (natOf ds) nd 0) ∧
      ((natOf ds = 0 ∧ nd = 0) ∨ (0 < nd ∧ 10 ^ (nd - 1) ≤ natOf ds ∧ natOf ds < 10 ^ nd)) := by
  refine ⟨(addDigits {} ds).nd, ?_, ?_⟩
  · unfold parseLit
    cases ds with
    | nil => exact absurd rfl hne
    | cons c t =>
      have hc : isDigit c = true := by
        simp only [allDigits, List.all_cons, Bool.and_eq_true] at h; exact h.1
      rw [special_digit c t hc]
      simp only
      rw [readFloat_digits (c :: t) hne h, natOf_eq_addDigits _ h]
  · have := (addDigits_fields ds h {}).2.2.2.2.2 (Or.inl ⟨rfl, rfl⟩)
    unfold Mant.NdOk at this
    rw [natOf_eq_addDigits _ h] at this
    exact this

/-- **Integers below 2^53 are parsed exactly**: a string of decimal digits denoting `n < 2^53` is
given the bit pattern of the binary64 number `n`. -/
theorem parseFloat_digits (ds : Bytes) (hne : ds ≠ []) (h : allDigits ds = true) (hlt : natOf ds < 2 ^ 53) :
    parseFloat ds = some (bitsOfNat (natOf ds)) := by
  obtain ⟨nd, hl, hnd⟩ := parseLit_digits ds hne h
  unfold parseFloat
  rw [hl]
  simp only [Lit.bits]
  rcases hnd with ⟨h0, _⟩ | ⟨hpos, hlo, _⟩
  · simp [h0, bitsOfNat, withSign]
  · have hn : natOf ds ≠ 0 := by
      have : 0 < 10 ^ (nd - 1) := Nat.pow_pos (by decide)
      omega
    have hnd17 : nd ≤ 16 := by
      rcases Nat.lt_or_ge nd 17 with h17 | h17
      · omega
      · have : 10 ^ 16 ≤ 10 ^ (nd - 1) := Nat.pow_le_pow_right (by decide) (by omega)
        have : (2 : Nat) ^ 53 < 10 ^ 16 := by decide
        omega
    have hb : (natOf ds == 0) = false := by simpa using hn
    have h1 : ¬ ((nd : Int) + 0 > 310) := by omega
    have h2 : ¬ ((nd : Int) + 0 < -330) := by omega
    have h3 : ¬ (roundBits (natOf ds) 1 ≥ bitsInf) := by
      rw [roundBits_nat _ hn hlt]
      have := bitsOfNat_lt_bitsInf _ hlt
      omega
    rw [roundBits_nat _ hn hlt] at h3
    have h3' : ¬ (bitsInf ≤ bitsOfNat (natOf ds)) := h3
    have h2' : ¬ ((nd : Int) < -330) := by omega
    simp [hb, withSign, roundBits_nat _ hn hlt, h3', h2']
    omega

/-! ## every decimal literal carries its digit count -/

theorem scanMant_ndOk (m : Mant) (s : Bytes) (hm : m.NdOk) : (scanMant false m s).1.NdOk := by
  induction s generalizing m with
  | nil => exact hm
  | cons c rest ih =>
    unfold scanMant
    split
    · exact ih _ hm
    · split
      · split
        · exact hm
        · exact ih _ hm
      · split
        · rename_i hd
          exact ih _ (Mant.add_ndOk _ _ (digit_facts hd).2.1 hm)
        · simp only [Bool.false_and, Bool.false_eq_true, ↓reduceIte]
          exact hm

/-- what `readFloat` does after the sign and the base prefix -/
def readFloatTail (s : Bytes) (neg hex : Bool) (s2 : Bytes) : Option Lit :=
  let (m, s3) := scanMant hex {} s2
  if !m.sawDigits then none else
  let done (eNeg : Bool) (e : Nat) (us : Bool) : Option Lit :=
    if (m.underscores || us) && !underscoreOK s then none
    else
      let ev : Int := if eNeg then -(e : Int) else (e : Int)
      if hex then some (.hex neg m.mant (ev - 4 * (m.frac : Int)))
      else some (.dec neg m.mant m.nd (ev - (m.frac : Int)))
  match s3 with
  | [] => if hex then none else done false 0 false
  | c :: s4 =>
    if lower c == (if hex then 0x70 else 0x65) then
      let (eNeg, s5) : Bool × Bytes := match s4 with
        | c :: t => if c == 0x2B then (false, t) else if c == 0x2D then (true, t) else (false, s4)
        | [] => (false, s4)
      match s5 with
      | [] => none
      | d :: _ =>
        if !isDigit d then none
        else
          let (e, us, s6) := scanExp 0 false s5
          if s6.isEmpty then done eNeg e us else none
    else none

theorem readFloat_eq_tail (s : Bytes) : ∃ neg hex s2, readFloat s = readFloatTail s neg hex s2 := by
  unfold readFloat
  exact ⟨_, _, _, rfl⟩

theorem readFloatTail_dec (s : Bytes) (neg hex : Bool) (s2 : Bytes) (n : Bool) (mant nd : Nat) (e : Int)
    (h : readFloatTail s neg hex s2 = some (.dec n mant nd e)) :
    hex = false ∧ mant = (scanMant hex {} s2).1.mant ∧ nd = (scanMant hex {} s2).1.nd := by
  unfold readFloatTail at h
  generalize scanMant hex {} s2 = p at h ⊢
  obtain ⟨m, s3⟩ := p
  simp only at h
  rcases Bool.eq_false_or_eq_true hex with hh | hh
  · subst hh
    exfalso
    simp only [↓reduceIte] at h
    repeat' split at h
    all_goals first
      | (simp at h; done)
      | (exfalso; simp at *; done)
  · subst hh
    refine ⟨rfl, ?_⟩
    simp only [Bool.false_eq_true, ↓reduceIte] at h
    repeat' split at h
    all_goals first
      | (simp at h; done)
      | (simp at h; exact ⟨h.2.1.symm, h.2.2.1.symm⟩)


theorem special_not_dec (s : Bytes) (n : Bool) (mant nd : Nat) (e : Int) :
    special s ≠ some (some (.dec n mant nd e)) := by
  unfold special
  simp only
  repeat' split
  all_goals simp

/-- every decimal literal the grammar yields carries `nd` = the number of decimal digits of its
mantissa (0 for the mantissa 0) -/
theorem parseLit_dec_ndOk (s : Bytes) (n : Bool) (mant nd : Nat) (e : Int)
    (h : parseLit s = some (.dec n mant nd e)) :
    (mant = 0 ∧ nd = 0) ∨ (0 < nd ∧ 10 ^ (nd - 1) ≤ mant ∧ mant < 10 ^ nd) := by
  unfold parseLit at h
  split at h
  · rename_i r hr
    subst h
    exact absurd hr (special_not_dec s n mant nd e)
  · obtain ⟨neg, hex, s2, heq⟩ := readFloat_eq_tail s
    rw [heq] at h
    obtain ⟨hh, hm, hn⟩ := readFloatTail_dec s neg hex s2 n mant nd e h
    subst hh
    have := scanMant_ndOk {} s2 (Or.inl ⟨rfl, rfl⟩)
    unfold Mant.NdOk at this
    rw [← hm, ← hn] at this
    exact this

/-! ## small facts used by the C20 statements -/

theorem render_append (a b : List (List Bytes)) : render (a ++ b) = render a ++ render b := by
  induction a with
  | nil => rfl
  | cons r rs ih => simp [render, ih]

theorem wellFormedRowsM_iff (q sp : Bytes → Bool) (n : Nat) (rows : List (List Bytes)) :
    wellFormedRowsM q sp n rows = true ↔ n ≥ 1 ∧ ∀ r ∈ rows, r.length = n ∧
      (∀ f ∈ r, (∀ b ∈ f, b ≠ bCR) ∧ (q f = true ∨ plainField f = true)) ∧
      (r = [[]] → q [] = false → sp [] = true) := by
  simp only [wellFormedRowsM, Bool.and_eq_true, decide_eq_true_eq, List.all_eq_true, beq_iff_eq,
    bne_iff_ne, Bool.or_eq_true, Bool.not_eq_true', Bool.and_eq_false_imp, Bool.not_eq_false', ne_eq]
  constructor
  · rintro ⟨hn, hw⟩
    refine ⟨hn, fun r hr => ?_⟩
    obtain ⟨⟨hl, hf⟩, hb⟩ := hw r hr
    exact ⟨hl, hf, fun h1 h2 => hb ⟨h1, h2⟩⟩
  · rintro ⟨hn, hw⟩
    refine ⟨hn, fun r hr => ?_⟩
    obtain ⟨hl, hf, hb⟩ := hw r hr
    exact ⟨⟨hl, hf⟩, fun h1 => hb h1.1 h1.2⟩

/-- what the reader has consumed without complaint: well-formed rows, then complete fields of the
next row; `CRfree` keeps the line-end rewriting out of the picture -/
theorem readAll_after_prefix (q sp : Bytes → Bool) (n : Nat) (pre : List (List Bytes)) (fs : List Bytes)
    (a tail : Bytes) (hpre : wellFormedRowsM q sp n pre = true)
    (hfs : ∀ f ∈ fs, (∀ b ∈ f, b ≠ bCR) ∧ (q f = true ∨ plainField f = true))
    (ha : ∀ b ∈ a, b ≠ bCR) :
    readAll (renderM q sp pre ++ fieldsM q sp fs ++ a ++ tail) =
      scan (.start (fs.isEmpty)) { field := [], fields := fs, recs := pre } (a ++ normalize tail) := by
  obtain ⟨hn, hw⟩ := (wellFormedRowsM_iff q sp n pre).mp hpre
  have hnoCR : ∀ b ∈ renderM q sp pre ++ fieldsM q sp fs ++ a, b ≠ bCR := by
    intro b hb
    rcases List.mem_append.mp hb with hb | hb
    · rcases List.mem_append.mp hb with hb | hb
      · exact renderM_noCR q sp pre (fun r hr f hf => ((hw r hr).2.1 f hf).1) b hb
      · exact fieldsM_noCR q sp fs (fun f hf => (hfs f hf).1) b hb
    · exact ha b hb
  unfold readAll
  rw [normalize_append_noCR _ hnoCR, List.append_assoc, List.append_assoc]
  have := scan_rows_prefix (renderM q sp) (renderRowM q sp) rfl (fun _ _ => rfl) n pre
    (fun r => (∀ f ∈ r, q f = true ∨ plainField f = true) ∧ r ≠ [] ∧ (r = [[]] → q [] = false → sp [] = true))
    (fun r hp recs rest => by
      have := scan_rowM q sp r hp.1 true [] recs rest hp.2.1 (fun _ => hp.2.2)
      simpa using this)
    (fun r hr => by
      obtain ⟨hl, hf, hb⟩ := hw r hr
      refine ⟨hl, fun f hf' => (hf f hf').2, ?_, hb⟩
      intro h0
      rw [h0] at hl
      simp at hl
      omega)
    [] (fieldsM q sp fs ++ (a ++ normalize tail)) (by simp)
  rw [this, scan_fieldsM q sp fs (fun f hf => (hfs f hf).2)]
  simp


theorem table?_append_new (ds : DataSet) (name : Bytes) (t : Table) (h : ds.table? name = none) :
    ({ ds with tables := ds.tables ++ [(name, t)] } : DataSet).table? name = some t := by
  unfold DataSet.table? at h ⊢
  simp only [List.find?_append]
  split at h
  · simp at h
  · rename_i hnone
    simp [hnone]

end Crem.Csv
