import Crem.Model.Suppapitnarm
import Crem.Proofs.Archive
import Mathlib.Analysis.SpecialFunctions.Exp
import Mathlib.Algebra.Order.Floor.Semiring
import Mathlib.Algebra.BigOperators.Group.List.Basic
/-! Helper definitions and lemmas for C06: the real-number instance of the explorer's arithmetic and
lemmas about the countdown. -/
namespace Crem.Suppa

/-- the explorer's arithmetic over ℝ (what the Go code approximates in binary64) -/
noncomputable def realArith : Arith ℝ where
  one := 1
  zero := 0
  add := (· + ·)
  sub := (· - ·)
  mul := (· * ·)
  div := (· / ·)
  neg := fun x => -x
  abs := fun x => |x|
  exp := Real.exp
  max := max
  gt := fun a b => decide (a > b)
  ofNat := fun n => (n : ℝ)
  ofRat := fun q => (q : ℝ)
  trunc := fun x => ⌊x⌋₊

theorem foldl_mul_eq_prod (l : List ℝ) (a : ℝ) : l.foldl (· * ·) a = a * l.prod := by
  induction l generalizing a with
  | nil => simp
  | cons x xs ih => simp [List.foldl_cons, ih, mul_assoc]

theorem foldl_add_eq_sum (l : List ℝ) (a : ℝ) : l.foldl (· + ·) a = a + l.sum := by
  induction l generalizing a with
  | nil => simp
  | cons x xs ih => simp [List.foldl_cons, ih, add_assoc]

theorem prod_mem_unit (l : List ℝ) (h : ∀ x ∈ l, 0 < x ∧ x ≤ 1) : 0 < l.prod ∧ l.prod ≤ 1 := by
  induction l with
  | nil => simp
  | cons x xs ih =>
    have hx := h x (by simp)
    have hxs := ih (fun y hy => h y (by simp [hy]))
    simp only [List.prod_cons]
    exact ⟨mul_pos hx.1 hxs.1, by nlinarith [hx.1, hx.2, hxs.1, hxs.2]⟩

theorem sum_bounds (l : List ℝ) (h : ∀ x ∈ l, 0 < x ∧ x ≤ 1) : 0 ≤ l.sum ∧ l.sum ≤ l.length := by
  induction l with
  | nil => simp
  | cons x xs ih =>
    have hx := h x (by simp)
    have hxs := ih (fun y hy => h y (by simp [hy]))
    simp only [List.sum_cons, List.length_cons, Nat.cast_add, Nat.cast_one]
    constructor <;> linarith [hx.1, hx.2, hxs.1, hxs.2]

theorem exp_term_mem_unit (d T : ℝ) (hT : 0 < T) : 0 < Real.exp (-|d| / T) ∧ Real.exp (-|d| / T) ≤ 1 := by
  refine ⟨Real.exp_pos _, ?_⟩
  rw [Real.exp_le_one_iff]
  have : 0 ≤ |d| / T := div_nonneg (abs_nonneg d) hT.le
  have h2 : -|d| / T = -(|d| / T) := by ring
  rw [h2]; linarith

end Crem.Suppa
