import Crem.Model.Kirkpatrick
import Mathlib.Algebra.Order.Field.Basic
import Mathlib.Algebra.Order.Group.Abs
import Mathlib.Tactic.Linarith
import Mathlib.Tactic.NormNum
/-!
Definitions used by the statements of C04 and helper lemmas.

* `fieldArith exp`: the `Arith` instance of an ordered field with an abstract `exp`
  (the theorems' reading of the arithmetic; `Real.exp` for the range theorem).
* `improving`: "the change improves the objective in the configured direction".
* `LawfulModel`: what the explorer assumes of a `model.Model` (accept commits the change it
  reported, revert restores the objective value).
-/
namespace Crem.Kirkpatrick

section field
variable {α : Type} [Field α] [LinearOrder α]

/-- exact arithmetic of an ordered field, with `exp` left abstract -/
def fieldArith (exp : α → α) : Arith α where
  zero  := 0
  one   := 1
  ofNat := fun n => (n : α)
  neg   := fun x => -x
  abs   := fun x => |x|
  add   := fun x y => x + y
  mul   := fun x y => x * y
  div   := fun x y => x / y
  exp   := exp
  lt    := fun x y => decide (x < y)

/-- the proposal improves the objective in the configured direction -/
def improving (dir : Direction) (Δ : α) : Prop :=
  match dir with
  | .minimising => Δ < 0
  | .maximising => 0 < Δ
  | .unset => False

theorem desirable_fieldArith (exp : α → α) (dir : Direction) (Δ : α) :
    desirable (fieldArith exp) dir Δ = true ↔ improving dir Δ := by
  cases dir <;> simp [desirable, improving, fieldArith]

theorem acceptanceProbability_fieldArith (exp : α → α) (T Δ : α) :
    acceptanceProbability (fieldArith exp) T Δ = exp (-|Δ| / T) := rfl

theorem decide_invalid {β : Type} (A : Arith β) (dir : Direction) (T Δ u : β) :
    acceptOrRevert A dir T false Δ u = .revertInvalid := by
  simp [acceptOrRevert]

theorem decide_improving (exp : α → α) (dir : Direction) (T Δ u : α) (h : improving dir Δ) :
    acceptOrRevert (fieldArith exp) dir T true Δ u = .acceptDesirable 1 := by
  have hd := (desirable_fieldArith exp dir Δ).mpr h
  simp only [acceptOrRevert, hd]
  simp [fieldArith]

theorem decide_not_improving (exp : α → α) (dir : Direction) (T Δ u : α) (h : ¬ improving dir Δ) :
    acceptOrRevert (fieldArith exp) dir T true Δ u =
      if u < exp (-|Δ| / T) then .acceptUndesirable (exp (-|Δ| / T))
      else .revertUndesirable (exp (-|Δ| / T)) := by
  have hd : desirable (fieldArith exp) dir Δ = false := by
    rcases Bool.eq_false_or_eq_true (desirable (fieldArith exp) dir Δ) with h' | h'
    · exact absurd ((desirable_fieldArith exp dir Δ).mp h') h
    · exact h'
  simp only [acceptOrRevert, hd, acceptanceProbability_fieldArith]
  simp [fieldArith]

end field

/-- What the explorer assumes of the model it drives, relative to an invariant `inv` of
settled (no change pending) model states: accepting a proposed change moves the objective
value by exactly the change the model reported for it, reverting restores the value. -/
structure LawfulModel {σ χ α : Type} (A : Arith α) (M : ModelOps σ χ α) (inv : σ → Prop) : Prop where
  accept_inv : ∀ s c, inv s → inv (M.accept (M.tryChange s c))
  revert_inv : ∀ s c, inv s → inv (M.revert (M.tryChange s c))
  accept_obj : ∀ s c, inv s →
    M.objective (M.accept (M.tryChange s c)) = A.add (M.objective s) (M.change (M.tryChange s c))
  revert_obj : ∀ s c, inv s → M.objective (M.revert (M.tryChange s c)) = M.objective s

/-- the ledger update one record stands for -/
def applyRecord {α : Type} (A : Arith α) (obj : α) (r : Record α) : α :=
  if r.accepted then A.add obj r.change else obj

section run
variable {σ χ α : Type} (A : Arith α) (M : ModelOps σ χ α)

@[simp] theorem tryRandomChange_dir (e : Explorer α) (s : σ) (c : χ) (u : α) :
    (tryRandomChange A M e s c u).explorer.dir = e.dir := rfl

@[simp] theorem coolDown_dir (e : Explorer α) : (coolDown A e).1.dir = e.dir := rfl

theorem decide_accepted_valid (dir : Direction) (T : α) (valid : Bool) (Δ u : α)
    (h : (acceptOrRevert A dir T valid Δ u).accepted = true) : valid = true := by
  rcases Bool.eq_false_or_eq_true valid with hv | hv
  · exact hv
  · subst hv; simp [acceptOrRevert, Decision.accepted] at h

/-- one step: the objective moves by the reported change iff the proposal was accepted -/
theorem tryRandomChange_objective {inv : σ → Prop} (h : LawfulModel A M inv)
    (e : Explorer α) (s : σ) (c : χ) (u : α) (hdir : e.dir ≠ .unset) (hs : inv s) :
    let st := tryRandomChange A M e s c u
    inv st.model ∧
    M.objective st.model =
      if st.decision.accepted then A.add (M.objective s) st.explorer.objectiveValueChange
      else M.objective s := by
  intro st
  rcases Bool.eq_false_or_eq_true st.decision.accepted with hacc | hacc
  · have hval : M.valid (M.tryChange s c) = true :=
      decide_accepted_valid A e.dir e.temperature _ _ u hacc
    have hm : st.model = M.accept (M.tryChange s c) := by
      show (if st.decision.accepted then _ else _) = _
      rw [hacc]; rfl
    have hch : st.explorer.objectiveValueChange = M.change (M.tryChange s c) := by
      show observedChange e.dir (M.valid (M.tryChange s c)) e.objectiveValueChange _ = _
      rw [hval]
      cases hd : e.dir <;> simp_all [observedChange]
    rw [hm, hch, hacc]
    exact ⟨h.accept_inv s c hs, by simpa using h.accept_obj s c hs⟩
  · have hm : st.model = M.revert (M.tryChange s c) := by
      show (if st.decision.accepted then _ else _) = _
      rw [hacc]; rfl
    rw [hm, hacc]
    exact ⟨h.revert_inv s c hs, by simpa using h.revert_obj s c hs⟩

theorem run_records {inv : σ → Prop} (h : LawfulModel A M inv) :
    ∀ (ops : List (Op χ α)) (e : Explorer α) (s : σ), e.dir ≠ .unset → inv s →
      (∀ r ∈ (run A M ops e s).1, r.after = applyRecord A r.before r) ∧
      M.objective (run A M ops e s).2.2 = (run A M ops e s).1.foldl (applyRecord A) (M.objective s) ∧
      inv (run A M ops e s).2.2
  | [], e, s, _, hs => by simp [run, hs]
  | .cool :: ops, e, s, hd, hs => by
    simpa [run] using run_records h ops (coolDown A e).1 s (by simpa using hd) hs
  | .try c u :: ops, e, s, hd, hs => by
    obtain ⟨hinv, hobj⟩ := tryRandomChange_objective A M h e s c u hd hs
    have ih := run_records h ops (tryRandomChange A M e s c u).explorer
      (tryRandomChange A M e s c u).model (by simpa using hd) hinv
    obtain ⟨ih1, ih2, ih3⟩ := ih
    refine ⟨?_, ?_, ?_⟩
    · intro r hr
      simp only [run, List.mem_cons] at hr
      rcases hr with rfl | hr
      · simpa [applyRecord] using hobj
      · exact ih1 r hr
    · simp only [run, List.foldl_cons]
      rw [ih2]
      congr 1
    · simpa [run] using ih3

end run

section steps
variable {σ χ α : Type} (A : Arith α) (M : ModelOps σ χ α)

/-- with the direction configured, `TryRandomChange` decides on the verdict and the change the
model reports for the state it has just proposed (never on a stale change), at the coolant's
current temperature -/
theorem tryRandomChange_decision (e : Explorer α) (s : σ) (c : χ) (u : α) (hdir : e.dir ≠ .unset) :
    (tryRandomChange A M e s c u).decision =
      acceptOrRevert A e.dir e.temperature (M.valid (M.tryChange s c)) (M.change (M.tryChange s c)) u := by
  show acceptOrRevert A e.dir e.temperature (M.valid (M.tryChange s c))
      (observedChange e.dir (M.valid (M.tryChange s c)) e.objectiveValueChange (M.change (M.tryChange s c))) u = _
  cases hd : e.dir <;> cases hv : M.valid (M.tryChange s c) <;> simp_all [observedChange]

theorem tryRandomChange_reportedChange (e : Explorer α) (s : σ) (c : χ) (u : α) (hdir : e.dir ≠ .unset) :
    (tryRandomChange A M e s c u).explorer.objectiveValueChange = M.change (M.tryChange s c) := by
  show observedChange e.dir (M.valid (M.tryChange s c)) e.objectiveValueChange (M.change (M.tryChange s c)) = _
  cases hd : e.dir <;> cases hv : M.valid (M.tryChange s c) <;> simp_all [observedChange]

@[simp] theorem tryRandomChange_temperature (e : Explorer α) (s : σ) (c : χ) (u : α) :
    (tryRandomChange A M e s c u).explorer.temperature = e.temperature := rfl

@[simp] theorem tryRandomChange_coolingFactor (e : Explorer α) (s : σ) (c : χ) (u : α) :
    (tryRandomChange A M e s c u).explorer.coolingFactor = e.coolingFactor := rfl

@[simp] theorem coolDown_coolingFactor (e : Explorer α) : (coolDown A e).1.coolingFactor = e.coolingFactor := rfl

theorem coolDown_temperature (e : Explorer α) :
    (coolDown A e).1.temperature = A.mul e.temperature e.coolingFactor := rfl

/-- every proposal of a run is decided by `acceptOrRevert` on what `stepsFrom` recorded for it -/
theorem stepsFrom_decision : ∀ (n : Nat) (ops : List (Op χ α)) (e : Explorer α) (s : σ), e.dir ≠ .unset →
    ∀ st ∈ stepsFrom A M n ops e s,
      st.decision = acceptOrRevert A e.dir st.temperature st.valid st.change st.draw
  | _, [], _, _, _ => by simp [stepsFrom]
  | n, .cool :: ops, e, s, hd => by
    simpa [stepsFrom] using stepsFrom_decision (n + 1) ops (coolDown A e).1 s (by simpa using hd)
  | n, .try c u :: ops, e, s, hd => by
    intro st hst
    simp only [stepsFrom, List.mem_cons] at hst
    rcases hst with rfl | hst
    · exact tryRandomChange_decision A M e s c u hd
    · have := stepsFrom_decision n ops (tryRandomChange A M e s c u).explorer
        (tryRandomChange A M e s c u).model (by simpa using hd) st hst
      simpa using this

/-- `stepsFrom` and `run` walk the same proposals: same reported changes, same verdicts -/
theorem stepsFrom_run : ∀ (n : Nat) (ops : List (Op χ α)) (e : Explorer α) (s : σ), e.dir ≠ .unset →
    (stepsFrom A M n ops e s).map (fun st => (st.change, st.decision.accepted)) =
      (run A M ops e s).1.map (fun r => (r.change, r.accepted))
  | _, [], _, _, _ => by simp [stepsFrom, run]
  | n, .cool :: ops, e, s, hd => by
    simpa [stepsFrom, run] using stepsFrom_run (n + 1) ops (coolDown A e).1 s (by simpa using hd)
  | n, .try c u :: ops, e, s, hd => by
    have ih := stepsFrom_run n ops (tryRandomChange A M e s c u).explorer
      (tryRandomChange A M e s c u).model (by simpa using hd)
    simp only [stepsFrom, run, List.map_cons, ih, tryRandomChange_reportedChange A M e s c u hd]

end steps

section stepsField
variable {σ χ α : Type} [Field α] [LinearOrder α] (exp : α → α) (M : ModelOps σ χ α)

/-- the temperature a proposal is decided at is the starting temperature multiplied by the cooling
factor once per preceding `CoolDown` -/
theorem stepsFrom_temperature : ∀ (n : Nat) (ops : List (Op χ α)) (e : Explorer α) (s : σ),
    ∀ st ∈ stepsFrom (fieldArith exp) M n ops e s,
      n ≤ st.cools ∧ st.temperature = e.temperature * e.coolingFactor ^ (st.cools - n)
  | _, [], _, _ => by simp [stepsFrom]
  | n, .cool :: ops, e, s => by
    intro st hst
    simp only [stepsFrom] at hst
    obtain ⟨h1, h2⟩ := stepsFrom_temperature (n + 1) ops (coolDown (fieldArith exp) e).1 s st hst
    refine ⟨by omega, ?_⟩
    rw [h2, coolDown_temperature, coolDown_coolingFactor]
    have : st.cools - n = (st.cools - (n + 1)) + 1 := by omega
    rw [this, pow_succ']
    show e.temperature * e.coolingFactor * _ = _
    rw [mul_assoc]
  | n, .try c u :: ops, e, s => by
    intro st hst
    simp only [stepsFrom, List.mem_cons] at hst
    rcases hst with rfl | hst
    · simp
    · simpa using stepsFrom_temperature n ops (tryRandomChange (fieldArith exp) M e s c u).explorer
        (tryRandomChange (fieldArith exp) M e s c u).model st hst

end stepsField

end Crem.Kirkpatrick
