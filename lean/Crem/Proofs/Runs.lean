import Crem.Model.Runs
/-!
Helper lemmas for property C08 (`Crem/Properties/C08.lean`): point updates, the counters over
phase classes, the bookkeeping invariant of `runScenario`, progress, footprints (`Respects`,
`ClonePrivate`), the per-worker trace invariant over the shared heap, the termination measure and
the footprint of the concrete annealing program.  Core Lean only.
-/
namespace Crem.Runs

variable {V : Type}

/-! ### point updates, iteration -/

@[simp] theorem upd_same {α : Type} (f : Nat → α) (i : Nat) (v : α) : upd f i v i = v := by
  simp [upd]

theorem upd_ne {α : Type} (f : Nat → α) {i j : Nat} (v : α) (h : j ≠ i) : upd f i v j = f j := by
  simp [upd, h]

theorem Heap.set_apply (h : Heap V) (i : Nat) (v : V) (j : Nat) : (h.set i v) j = if j = i then v else h j := rfl

@[simp] theorem Heap.set_same (h : Heap V) (i : Nat) (v : V) : (h.set i v) i = v := by
  simp [Heap.set_apply]

theorem Heap.set_ne (h : Heap V) {i j : Nat} (v : V) (hne : j ≠ i) : (h.set i v) j = h j := by
  simp [Heap.set_apply, hne]

theorem iter_succ' {α : Type} (f : α → α) (n : Nat) (a : α) : iter f (n + 1) a = f (iter f n a) := by
  induction n generalizing a with
  | zero => rfl
  | succ n ih => simp only [iter] at ih ⊢; exact ih (f a)

/-! ### counters -/

theorem cnt_congr (g : Phase → Bool) {f f' : Nat → Phase} {n : Nat} (h : ∀ i, i < n → f' i = f i) :
    cnt g f' n = cnt g f n := by
  induction n with
  | zero => rfl
  | succ n ih =>
    simp only [cnt]
    rw [ih (fun i hi => h i (Nat.lt_succ_of_lt hi)), h n (Nat.lt_succ_self n)]

theorem cnt_upd_ge (g : Phase → Bool) (f : Nat → Phase) {i n : Nat} (v : Phase) (h : n ≤ i) :
    cnt g (upd f i v) n = cnt g f n :=
  cnt_congr g (fun j hj => upd_ne f v (by omega))

theorem cnt_upd_lt (g : Phase → Bool) (f : Nat → Phase) {i n : Nat} (v : Phase) (h : i < n) :
    cnt g (upd f i v) n + (if g (f i) then 1 else 0) = cnt g f n + (if g v then 1 else 0) := by
  induction n with
  | zero => omega
  | succ n ih =>
    simp only [cnt]
    by_cases hin : i = n
    · subst hin
      rw [cnt_upd_ge g f v (Nat.le_refl i), upd_same]
      omega
    · have hlt : i < n := by omega
      rw [upd_ne f v (Ne.symm hin)]
      have := ih hlt
      omega

theorem cnt_le (g : Phase → Bool) (f : Nat → Phase) (n : Nat) : cnt g f n ≤ n := by
  induction n with
  | zero => exact Nat.le_refl 0
  | succ n ih => simp only [cnt]; split <;> omega

theorem exists_of_cnt_pos (g : Phase → Bool) (f : Nat → Phase) {n : Nat} (h : 0 < cnt g f n) :
    ∃ i, i < n ∧ g (f i) = true := by
  induction n with
  | zero => simp [cnt] at h
  | succ n ih =>
    simp only [cnt] at h
    by_cases hg : g (f n) = true
    · exact ⟨n, Nat.lt_succ_self n, hg⟩
    · simp [hg] at h
      obtain ⟨i, hi, hgi⟩ := ih h
      exact ⟨i, Nat.lt_succ_of_lt hi, hgi⟩

theorem cnt_eq_zero_of_forall (g : Phase → Bool) (f : Nat → Phase) {n : Nat}
    (h : ∀ i, i < n → g (f i) = false) : cnt g f n = 0 := by
  induction n with
  | zero => rfl
  | succ n ih =>
    simp only [cnt]
    rw [ih (fun i hi => h i (Nat.lt_succ_of_lt hi)), h n (Nat.lt_succ_self n)]
    simp

theorem cnt_eq_of_forall (g : Phase → Bool) (f : Nat → Phase) {n : Nat}
    (h : ∀ i, i < n → g (f i) = true) : cnt g f n = n := by
  induction n with
  | zero => rfl
  | succ n ih =>
    simp only [cnt]
    rw [ih (fun i hi => h i (Nat.lt_succ_of_lt hi)), h n (Nat.lt_succ_self n)]
    simp

theorem sumN_congr {f f' : Nat → Nat} {n : Nat} (h : ∀ i, i < n → f' i = f i) : sumN f' n = sumN f n := by
  induction n with
  | zero => rfl
  | succ n ih =>
    simp only [sumN]
    rw [ih (fun i hi => h i (Nat.lt_succ_of_lt hi)), h n (Nat.lt_succ_self n)]

/-- if one summand drops and the others stay, the sum drops -/
theorem sumN_lt {f f' : Nat → Nat} {n i : Nat} (hi : i < n) (hlt : f' i < f i)
    (hothers : ∀ j, j < n → j ≠ i → f' j = f j) : sumN f' n < sumN f n := by
  induction n with
  | zero => omega
  | succ n ih =>
    simp only [sumN]
    by_cases hin : i = n
    · subst hin
      rw [sumN_congr (fun j hj => hothers j (Nat.lt_succ_of_lt hj) (by omega))]
      omega
    · have := ih (by omega) (fun j hj hne => hothers j (Nat.lt_succ_of_lt hj) hne)
      rw [hothers n (Nat.lt_succ_self n) (Ne.symm hin)]
      omega

/-! ### schedules -/

theorem run_append (cfg : Config V) (s : State V) (a b : List Ev) :
    run cfg s (a ++ b) = (run cfg s a).bind (fun s' => run cfg s' b) := by
  induction a generalizing s with
  | nil => rfl
  | cons e es ih =>
    simp only [List.cons_append, run]
    cases h : exec cfg s e with
    | none => rfl
    | some s' => exact ih s'

/-- induction principle over schedules: a property of the initial state preserved by every
    enabled event holds after every schedule -/
theorem run_induction (cfg : Config V) (I : State V → Prop)
    (hstep : ∀ s e s', I s → exec cfg s e = some s' → I s') :
    ∀ (sch : List Ev) (s s' : State V), I s → run cfg s sch = some s' → I s' := by
  intro sch
  induction sch with
  | nil => intro s s' hI h; simp only [run] at h; cases h; exact hI
  | cons e es ih =>
    intro s s' hI h
    simp only [run] at h
    cases he : exec cfg s e with
    | none => rw [he] at h; cases h
    | some s₁ => rw [he] at h; exact ih s₁ s' (hstep s e s₁ hI he) h

/-! ### a panic changes only `err` or `crashed` -/

@[simp] theorem panicked_next (cfg : Config V) (s : State V) (i : Nat) : (panicked cfg s i).next = s.next := by
  unfold panicked; split <;> rfl
@[simp] theorem panicked_chan (cfg : Config V) (s : State V) (i : Nat) : (panicked cfg s i).chan = s.chan := by
  unfold panicked; split <;> rfl
@[simp] theorem panicked_wg (cfg : Config V) (s : State V) (i : Nat) : (panicked cfg s i).wg = s.wg := by
  unfold panicked; split <;> rfl
@[simp] theorem panicked_phase (cfg : Config V) (s : State V) (i : Nat) : (panicked cfg s i).phase = s.phase := by
  unfold panicked; split <;> rfl
@[simp] theorem panicked_heap (cfg : Config V) (s : State V) (i : Nat) : (panicked cfg s i).heap = s.heap := by
  unfold panicked; split <;> rfl
@[simp] theorem panicked_steps (cfg : Config V) (s : State V) (i : Nat) : (panicked cfg s i).steps = s.steps := by
  unfold panicked; split <;> rfl
@[simp] theorem panicked_obs (cfg : Config V) (s : State V) (i : Nat) : (panicked cfg s i).obs = s.obs := by
  unfold panicked; split <;> rfl
@[simp] theorem panicked_returned (cfg : Config V) (s : State V) (i : Nat) : (panicked cfg s i).returned = s.returned := by
  unfold panicked; split <;> rfl

theorem panicked_iso {cfg : Config V} (h : cfg.isolate = true) (s : State V) (i : Nat) :
    (panicked cfg s i).err = upd s.err i true ∧ (panicked cfg s i).crashed = s.crashed := by
  unfold panicked; rw [if_pos h]; exact ⟨rfl, rfl⟩

theorem panicked_bare {cfg : Config V} (h : cfg.isolate = false) (s : State V) (i : Nat) :
    (panicked cfg s i).err = s.err ∧ (panicked cfg s i).crashed = true := by
  unfold panicked; rw [if_neg (by rw [h]; decide)]; exact ⟨rfl, rfl⟩

/-- either way: `err` changes at most at `i` (to `true`), `crashed` at most to `true` -/
theorem panicked_cases (cfg : Config V) (s : State V) (i : Nat) :
    ((panicked cfg s i).err = upd s.err i true ∧ (panicked cfg s i).crashed = s.crashed ∧ cfg.isolate = true) ∨
    ((panicked cfg s i).err = s.err ∧ (panicked cfg s i).crashed = true ∧ cfg.isolate = false) := by
  cases h : cfg.isolate with
  | true => exact Or.inl ⟨(panicked_iso h s i).1, (panicked_iso h s i).2, rfl⟩
  | false => exact Or.inr ⟨(panicked_bare h s i).1, (panicked_bare h s i).2, rfl⟩

/-! ### the bookkeeping invariant of `runScenario` -/

/-- channel and WaitGroup as counters over the workers' phases -/
structure Book (cfg : Config V) (s : State V) : Prop where
  next_le : s.next ≤ cfg.runs
  idle_ge : ∀ i, s.next ≤ i → s.phase i = .idle
  busy_lt : ∀ i, i < s.next → s.phase i ≠ .idle
  chan_eq : s.chan = cnt inflight s.phase s.next
  chan_le : s.chan ≤ cfg.bound
  wg_eq : s.wg + cnt isFinished s.phase s.next = cfg.runs
  ret_done : s.returned = true → s.next = cfg.runs ∧ s.wg = 0

theorem Book.init (cfg : Config V) (h₀ : Heap V) : Book cfg (init cfg h₀) where
  next_le := Nat.zero_le _
  idle_ge := fun _ _ => rfl
  busy_lt := fun i hi => by simp [Runs.init] at hi
  chan_eq := rfl
  chan_le := Nat.zero_le _
  wg_eq := rfl
  ret_done := fun h => by simp [Runs.init] at h

theorem Book.lt_next {cfg : Config V} {s : State V} (hB : Book cfg s) {i : Nat}
    (h : s.phase i ≠ .idle) : i < s.next := by
  apply Classical.byContradiction
  intro hn
  exact h (hB.idle_ge i (by omega))

/-- the invariant talks about the counters and the phases only -/
theorem Book.congr {cfg : Config V} {s s' : State V} (hB : Book cfg s) (h1 : s'.next = s.next)
    (h2 : s'.chan = s.chan) (h3 : s'.wg = s.wg) (h4 : s'.phase = s.phase) (h5 : s'.returned = s.returned) :
    Book cfg s' := by
  refine ⟨?_, ?_, ?_, ?_, ?_, ?_, ?_⟩
  · rw [h1]; exact hB.next_le
  · rw [h1, h4]; exact hB.idle_ge
  · rw [h1, h4]; exact hB.busy_lt
  · rw [h1, h2, h4]; exact hB.chan_eq
  · rw [h2]; exact hB.chan_le
  · rw [h1, h3, h4]; exact hB.wg_eq
  · rw [h1, h3, h5]; exact hB.ret_done

/-- a worker moves between two phases of the same classes (spawned → running, running → saved) -/
theorem Book.move {cfg : Config V} {s : State V} (hB : Book cfg s) {i : Nat} {v : Phase}
    (hi : s.phase i ≠ .idle) (hv : v ≠ .idle) (hin : inflight v = inflight (s.phase i))
    (hfi : isFinished v = isFinished (s.phase i)) :
    Book cfg { s with phase := upd s.phase i v } := by
  have hlt : i < s.next := hB.lt_next hi
  have h1 := cnt_upd_lt inflight s.phase v hlt
  have h2 := cnt_upd_lt isFinished s.phase v hlt
  rw [hin] at h1
  rw [hfi] at h2
  refine ⟨hB.next_le, ?_, ?_, ?_, hB.chan_le, ?_, hB.ret_done⟩
  · intro j hj
    simp only at hj ⊢
    rw [upd_ne _ _ (by omega)]; exact hB.idle_ge j hj
  · intro j hj
    simp only at hj ⊢
    by_cases hji : j = i
    · subst hji; simpa using hv
    · rw [upd_ne _ _ hji]; exact hB.busy_lt j hj
  · simp only; have := hB.chan_eq; omega
  · simp only; have := hB.wg_eq; omega

theorem Book.exec {cfg : Config V} {s s' : State V} {e : Ev} (hB : Book cfg s)
    (h : exec cfg s e = some s') : Book cfg s' := by
  cases e with
  | spawn =>
    simp only [Runs.exec] at h
    split at h
    · rename_i hc
      cases h
      obtain ⟨_, _, hlt, hch⟩ := hc
      refine ⟨by simp only; omega, ?_, ?_, ?_, by simp only; omega, ?_, ?_⟩
      · intro i hi
        simp only at hi ⊢
        rw [upd_ne _ _ (by omega)]
        exact hB.idle_ge i (by omega)
      · intro i hi
        simp only at hi ⊢
        by_cases hin : i = s.next
        · subst hin; simp
        · rw [upd_ne _ _ hin]; exact hB.busy_lt i (by omega)
      · simp only [cnt, upd_same, inflight]
        rw [cnt_upd_ge _ _ _ (Nat.le_refl _), ← hB.chan_eq]
        simp
      · simp only [cnt, upd_same, isFinished]
        rw [cnt_upd_ge _ _ _ (Nat.le_refl _)]
        simpa using hB.wg_eq
      · intro hr; simp_all
    · cases h
  | clone i =>
    simp only [Runs.exec] at h
    split at h
    · rename_i hc
      obtain ⟨_, hph⟩ := hc
      have hm : Book cfg { s with phase := upd s.phase i .running } :=
        hB.move (by rw [hph]; decide) (by decide) (by rw [hph]; rfl) (by rw [hph]; rfl)
      split at h
      · split at h
        · cases h; exact hm.congr rfl rfl rfl rfl rfl
        · cases h; exact hB.congr rfl rfl rfl rfl rfl
      · cases h
        exact hm.congr rfl rfl rfl rfl rfl
    · cases h
  | step i =>
    simp only [Runs.exec] at h
    split at h
    · split at h
      · cases h; exact hB.congr (by simp) (by simp) (by simp) (by simp) (by simp)
      · cases h; exact hB.congr rfl rfl rfl rfl rfl
    · cases h
  | finish i =>
    simp only [Runs.exec] at h
    split at h
    · rename_i hc
      obtain ⟨_, hph, _, _⟩ := hc
      split at h
      · cases h; exact hB.congr (by simp) (by simp) (by simp) (by simp) (by simp)
      · cases h
        have hm : Book cfg { s with phase := upd s.phase i .saved } :=
          hB.move (by rw [hph]; decide) (by decide) (by rw [hph]; rfl) (by rw [hph]; rfl)
        exact hm.congr rfl rfl rfl rfl rfl
    · cases h
  | release i =>
    simp only [Runs.exec] at h
    split at h
    · rename_i hc
      cases h
      obtain ⟨_, hrel⟩ := hc
      have hne : s.phase i ≠ .idle := by
        rcases hrel with ⟨h1, _⟩ | h1 <;> (rw [h1]; decide)
      have hinf : inflight (s.phase i) = true := by
        rcases hrel with ⟨h1, _⟩ | h1 <;> (rw [h1]; rfl)
      have hnf : isFinished (s.phase i) = false := by
        rcases hrel with ⟨h1, _⟩ | h1 <;> (rw [h1]; rfl)
      have hi : i < s.next := hB.lt_next hne
      have h1 := cnt_upd_lt inflight s.phase .released hi
      have h2 := cnt_upd_lt isFinished s.phase .released hi
      rw [hinf] at h1
      rw [hnf] at h2
      simp only [inflight, isFinished] at h1 h2
      refine ⟨hB.next_le, ?_, ?_, ?_, ?_, ?_, hB.ret_done⟩
      · intro j hj
        simp only at hj ⊢
        rw [upd_ne _ _ (by omega)]; exact hB.idle_ge j hj
      · intro j hj
        simp only at hj ⊢
        by_cases hji : j = i
        · subst hji; simp
        · rw [upd_ne _ _ hji]; exact hB.busy_lt j hj
      · simp only; have := hB.chan_eq; simp at h1; omega
      · simp only; have := hB.chan_le; omega
      · simp only; have := hB.wg_eq; simp at h2; omega
    · cases h
  | wgDone i =>
    simp only [Runs.exec] at h
    split at h
    · rename_i hc
      cases h
      obtain ⟨_, hph⟩ := hc
      have hi : i < s.next := hB.lt_next (by rw [hph]; decide)
      have h1 := cnt_upd_lt inflight s.phase .finished hi
      have h2 := cnt_upd_lt isFinished s.phase .finished hi
      have h3 := cnt_le isFinished (upd s.phase i .finished) s.next
      rw [hph] at h1 h2
      simp only [inflight, isFinished] at h1 h2
      refine ⟨hB.next_le, ?_, ?_, ?_, hB.chan_le, ?_, ?_⟩
      · intro j hj
        simp only at hj ⊢
        rw [upd_ne _ _ (by omega)]; exact hB.idle_ge j hj
      · intro j hj
        simp only at hj ⊢
        by_cases hji : j = i
        · subst hji; simp
        · rw [upd_ne _ _ hji]; exact hB.busy_lt j hj
      · simp only; have := hB.chan_eq; simp at h1; omega
      · simp only; have := hB.wg_eq; have := hB.next_le; simp at h2; omega
      · intro hr
        have := hB.ret_done hr
        have := hB.wg_eq; have := hB.next_le
        simp only at hr ⊢
        simp at h2
        omega
    · cases h
  | ret =>
    simp only [Runs.exec] at h
    split at h
    · rename_i hc
      cases h
      obtain ⟨_, _, hn, hw⟩ := hc
      exact ⟨hB.next_le, hB.idle_ge, hB.busy_lt, hB.chan_eq, hB.chan_le, hB.wg_eq, fun _ => ⟨hn, hw⟩⟩
    · cases h

theorem Book.run {cfg : Config V} {h₀ : Heap V} {sch : List Ev} {s : State V}
    (h : Runs.run cfg (Runs.init cfg h₀) sch = some s) : Book cfg s :=
  run_induction cfg (Book cfg) (fun _ _ _ hB he => hB.exec he) sch _ _ (Book.init cfg h₀) h

/-! ### no crash when failures are isolated (or nothing fails) -/

/-- failures are confined to the failing run, or no run ever fails (at any of the three sites) -/
def Safe (cfg : Config V) : Prop :=
  cfg.isolate = true ∨
  ∀ i h, (cfg.prog i).cloneFails h = false ∧ (cfg.prog i).fails h = false ∧ (cfg.prog i).finishFails h = false

theorem panicked_not_crashed {cfg : Config V} (hiso : cfg.isolate = true) {s : State V} (hc : s.crashed = false)
    (i : Nat) : (panicked cfg s i).crashed = false := by
  rw [(panicked_iso hiso s i).2]; exact hc

theorem exec_not_crashed {cfg : Config V} {s s' : State V} {e : Ev} (hsafe : Safe cfg)
    (hc : s.crashed = false) (h : exec cfg s e = some s') : s'.crashed = false := by
  cases e with
  | clone i =>
    simp only [Runs.exec] at h
    split at h
    · split at h
      · rename_i hf
        split at h
        · cases h; exact hc
        · rename_i hiso
          rcases hsafe with h1 | h1
          · exact absurd h1 hiso
          · rw [(h1 i s.heap).1] at hf; cases hf
      · cases h; exact hc
    · cases h
  | step i =>
    simp only [Runs.exec] at h
    split at h
    · split at h
      · rename_i hf
        cases h
        rcases hsafe with h1 | h1
        · exact panicked_not_crashed h1 hc i
        · rw [(h1 i s.heap).2.1] at hf; cases hf
      · cases h; exact hc
    · cases h
  | finish i =>
    simp only [Runs.exec] at h
    split at h
    · split at h
      · rename_i hf
        cases h
        rcases hsafe with h1 | h1
        · exact panicked_not_crashed h1 hc i
        · rw [(h1 i s.heap).2.2] at hf; cases hf
      · cases h; exact hc
    · cases h
  | spawn => simp only [Runs.exec] at h; split at h <;> cases h; exact hc
  | release i => simp only [Runs.exec] at h; split at h <;> cases h; exact hc
  | wgDone i => simp only [Runs.exec] at h; split at h <;> cases h; exact hc
  | ret => simp only [Runs.exec] at h; split at h <;> cases h; exact hc

theorem run_not_crashed {cfg : Config V} (hsafe : Safe cfg) {h₀ : Heap V} {sch : List Ev}
    {s : State V} (h : run cfg (init cfg h₀) sch = some s) : s.crashed = false :=
  run_induction cfg (fun s => s.crashed = false) (fun _ _ _ hc he => exec_not_crashed hsafe hc he) sch _ _ rfl h

/-! ### progress: the bookkeeping never deadlocks -/

def notFinished (ph : Phase) : Bool := !isFinished ph

theorem forall_of_cnt_zero (g : Phase → Bool) (f : Nat → Phase) {n : Nat} (h : cnt g f n = 0) :
    ∀ i, i < n → g (f i) = false := by
  intro i hi
  cases hg : g (f i) with
  | false => rfl
  | true =>
    have hpos : 0 < cnt g f n := by
      clear h
      induction n with
      | zero => omega
      | succ n ih =>
        simp only [cnt]
        by_cases hin : i = n
        · subst hin; simp [hg]
        · have := ih (by omega); omega
    omega

theorem progress {cfg : Config V} {s : State V} (hb : 0 < cfg.bound) (hB : Book cfg s)
    (hc : s.crashed = false) (hr : s.returned = false) : ∃ e s', exec cfg s e = some s' := by
  by_cases hu : 0 < cnt notFinished s.phase s.next
  · obtain ⟨i, hi, hnf⟩ := exists_of_cnt_pos _ _ hu
    cases hph : s.phase i with
    | idle => exact absurd hph (hB.busy_lt i hi)
    | spawned =>
      refine ⟨.clone i, ?_⟩
      simp only [Runs.exec]
      rw [if_pos ⟨hc, hph⟩]
      split
      · split <;> exact ⟨_, rfl⟩
      · exact ⟨_, rfl⟩
    | running =>
      cases he : s.err i with
      | true =>
        exact ⟨.release i, _, by simp only [Runs.exec]; rw [if_pos ⟨hc, Or.inl ⟨hph, he⟩⟩]⟩
      | false =>
        cases hd : (cfg.prog i).done s.heap with
        | false =>
          refine ⟨.step i, ?_⟩
          simp only [Runs.exec]
          rw [if_pos ⟨hc, hph, he, hd⟩]
          split <;> exact ⟨_, rfl⟩
        | true =>
          refine ⟨.finish i, ?_⟩
          simp only [Runs.exec]
          rw [if_pos ⟨hc, hph, he, hd⟩]
          split <;> exact ⟨_, rfl⟩
    | saved =>
      exact ⟨.release i, _, by simp only [Runs.exec]; rw [if_pos ⟨hc, Or.inr hph⟩]⟩
    | released =>
      refine ⟨.wgDone i, ?_⟩
      simp only [Runs.exec]
      rw [if_pos ⟨hc, hph⟩]
      exact ⟨_, rfl⟩
    | finished => rw [hph] at hnf; simp [notFinished, isFinished] at hnf
  · have hz : cnt notFinished s.phase s.next = 0 := by omega
    have hall : ∀ i, i < s.next → s.phase i = .finished := by
      intro i hi
      have := forall_of_cnt_zero _ _ hz i hi
      cases hph : s.phase i <;> simp [notFinished, isFinished, hph] at this
      rfl
    have h1 : cnt inflight s.phase s.next = 0 :=
      cnt_eq_zero_of_forall _ _ (fun i hi => by rw [hall i hi]; rfl)
    have h2 : cnt isFinished s.phase s.next = s.next :=
      cnt_eq_of_forall _ _ (fun i hi => by rw [hall i hi]; rfl)
    by_cases hn : s.next < cfg.runs
    · refine ⟨.spawn, ?_⟩
      simp only [Runs.exec]
      rw [if_pos ⟨hc, hr, hn, by rw [hB.chan_eq, h1]; exact hb⟩]
      exact ⟨_, rfl⟩
    · have hne : s.next = cfg.runs := by have := hB.next_le; omega
      refine ⟨.ret, ?_⟩
      simp only [Runs.exec]
      rw [if_pos ⟨hc, hr, hne, by have := hB.wg_eq; omega⟩]
      exact ⟨_, rfl⟩

/-! ### footprints -/

theorem AgreeOn.refl (A : Nat → Prop) (h : Heap V) : AgreeOn A h h := fun _ _ => rfl

theorem AgreeOn.symm {A : Nat → Prop} {h h' : Heap V} (H : AgreeOn A h h') : AgreeOn A h' h :=
  fun a ha => (H a ha).symm

theorem AgreeOn.trans {A : Nat → Prop} {h h' h'' : Heap V} (H : AgreeOn A h h') (H' : AgreeOn A h' h'') :
    AgreeOn A h h'' := fun a ha => (H a ha).trans (H' a ha)

theorem AgreeOn.mono {A B : Nat → Prop} {h h' : Heap V} (H : AgreeOn A h h') (hBA : ∀ a, B a → A a) :
    AgreeOn B h h' := fun a ha => H a (hBA a ha)

/-- a transformer that respects `(R, W)` maps heaps agreeing on `A ⊇ R` to heaps agreeing on `A` -/
theorem TRespects.agree {f : Heap V → Heap V} {R W : List Nat} (hf : TRespects f R W) {A : Nat → Prop}
    (hRA : ∀ a, a ∈ R → A a) {h h' : Heap V} (H : AgreeOn A h h') : AgreeOn A (f h) (f h') := by
  intro a ha
  by_cases hw : a ∈ W
  · rcases hf.loc h h' (H.mono hRA) a hw with e | ⟨e1, e2⟩
    · exact e
    · rw [e1, e2]; exact H a ha
  · rw [hf.frame h a hw, hf.frame h' a hw]; exact H a ha

/-- doing nothing respects every footprint -/
theorem TRespects.id (R W : List Nat) : TRespects (fun h : Heap V => h) R W :=
  ⟨fun _ _ _ => rfl, fun _ _ _ _ _ => Or.inr ⟨rfl, rfl⟩⟩

/-- after a transformer that respects `(R, W)`: write to a cell of `W` a value computed from cells of `R` -/
theorem TRespects.write {f : Heap V → Heap V} {R W : List Nat} (hf : TRespects f R W) (x : Nat) (hx : x ∈ W)
    (g : Heap V → V) (hg : ∀ h h', AgreeOn (· ∈ R) h h' → g h = g h') :
    TRespects (fun h => (f h).set x (g (f h))) R W := by
  refine ⟨?_, ?_⟩
  · intro h a ha
    have : a ≠ x := fun e => ha (e ▸ hx)
    simp only [Heap.set_apply, this, if_false]
    exact hf.frame h a ha
  · intro h h' H a ha
    by_cases hax : a = x
    · subst hax
      left
      simp only [Heap.set_apply, if_true]
      exact hg _ _ (hf.agree (fun _ h => h) H)
    · simp only [Heap.set_apply, hax, if_false]
      exact hf.loc h h' H a ha

/-- a transformer that writes only `W` leaves every cell outside `W` alone -/
theorem TRespects.untouched {f : Heap V → Heap V} {R W : List Nat} (hf : TRespects f R W) {A : Nat → Prop}
    (hAW : ∀ a, A a → a ∉ W) (h : Heap V) : AgreeOn A (f h) h :=
  fun a ha => hf.frame h a (hAW a ha)

/-- what every cell of `Own ft i` knows about another run `j`'s writes: they miss it -/
theorem own_not_written {ft : Footprint} {runs i j : Nat} (hd : Disjoint runs ft) (hi : i < runs) (hj : j < runs)
    (hij : j ≠ i) : ∀ a, Own ft i a → a ∉ ft.W j := by
  intro a ha hw
  exact ha.2 (hd.1 j hj i hi hij a hw ha.1)

/-- the read set is part of `Own` (no run reads a lock-guarded cell) -/
theorem read_own {ft : Footprint} {runs i : Nat} (hd : Disjoint runs ft) (hi : i < runs) :
    ∀ a, a ∈ ft.R i → Own ft i a :=
  fun a ha => ⟨Or.inl ha, fun hl => hd.2 i hi a hl ha⟩

/-! ### the per-worker trace invariant (needs `ClonePrivate`) -/

/-- the heap of the run alone after its clone phase and `k` iterations -/
def tr (p : Prog V) (h₀ : Heap V) (k : Nat) : Heap V := iter p.step k (p.clone h₀)

theorem tr_succ (p : Prog V) (h₀ : Heap V) (k : Nat) : tr p h₀ (k + 1) = p.step (tr p h₀ k) :=
  iter_succ' _ _ _

/-- the run was cloned (alone: from `h₀`), reported what the clone of `h₀` is on its own cells, and
    none of its first `k` iterations was taken after it was done or should have failed -/
structure Core (p : Prog V) (A : Nat → Prop) (h₀ : Heap V) (ob : Option (Heap V)) (k : Nat) : Prop where
  cloned : p.cloneFails h₀ = false
  obs : ∃ o, ob = some o ∧ AgreeOn A o (p.clone h₀)
  path : ∀ j, j < k → p.done (tr p h₀ j) = false ∧ p.fails (tr p h₀ j) = false

/-- the run has stopped with a (recovered) panic at one of the three sites, exactly where the run
    alone panics -/
def Stopped (p : Prog V) (A : Nat → Prop) (h₀ : Heap V) (ob : Option (Heap V)) (h : Heap V) (k : Nat) : Prop :=
  (k = 0 ∧ p.cloneFails h₀ = true ∧ AgreeOn A h h₀) ∨
  (Core p A h₀ ob k ∧ AgreeOn A h (tr p h₀ k) ∧ p.done (tr p h₀ k) = false ∧ p.fails (tr p h₀ k) = true) ∨
  (Core p A h₀ ob k ∧ AgreeOn A h (tr p h₀ k) ∧ p.done (tr p h₀ k) = true ∧ p.finishFails (tr p h₀ k) = true)

/-- the run has completed and saved its result, exactly as the run alone does -/
def Saved (p : Prog V) (A : Nat → Prop) (h₀ : Heap V) (ob : Option (Heap V)) (h : Heap V) (k : Nat) : Prop :=
  Core p A h₀ ob k ∧ AgreeOn A h (p.finish (tr p h₀ k)) ∧ p.done (tr p h₀ k) = true ∧
    p.finishFails (tr p h₀ k) = false

def Ended (p : Prog V) (A : Nat → Prop) (h₀ : Heap V) (ob : Option (Heap V)) (h : Heap V) (k : Nat) (er : Bool) : Prop :=
  (er = true ∧ Stopped p A h₀ ob h k) ∨ (er = false ∧ Saved p A h₀ ob h k)

def WInv (p : Prog V) (A : Nat → Prop) (h₀ : Heap V) (ph : Phase) (ob : Option (Heap V)) (h : Heap V)
    (k : Nat) (er : Bool) : Prop :=
  match ph with
  | .idle => er = false ∧ k = 0 ∧ AgreeOn A h h₀
  | .spawned => er = false ∧ k = 0 ∧ AgreeOn A h h₀
  | .running => (er = true ∧ Stopped p A h₀ ob h k) ∨ (er = false ∧ Core p A h₀ ob k ∧ AgreeOn A h (tr p h₀ k))
  | .saved => er = false ∧ Saved p A h₀ ob h k
  | .released => Ended p A h₀ ob h k er
  | .finished => Ended p A h₀ ob h k er

theorem Stopped.heap_congr {p : Prog V} {A : Nat → Prop} {h₀ : Heap V} {ob : Option (Heap V)} {h h' : Heap V}
    {k : Nat} (H : AgreeOn A h' h) : Stopped p A h₀ ob h k → Stopped p A h₀ ob h' k := by
  rintro (⟨a, b, c⟩ | ⟨a, b, c⟩ | ⟨a, b, c⟩)
  · exact Or.inl ⟨a, b, H.trans c⟩
  · exact Or.inr (Or.inl ⟨a, H.trans b, c⟩)
  · exact Or.inr (Or.inr ⟨a, H.trans b, c⟩)

theorem Saved.heap_congr {p : Prog V} {A : Nat → Prop} {h₀ : Heap V} {ob : Option (Heap V)} {h h' : Heap V}
    {k : Nat} (H : AgreeOn A h' h) : Saved p A h₀ ob h k → Saved p A h₀ ob h' k :=
  fun ⟨a, b, c⟩ => ⟨a, H.trans b, c⟩

theorem Ended.heap_congr {p : Prog V} {A : Nat → Prop} {h₀ : Heap V} {ob : Option (Heap V)} {h h' : Heap V}
    {k : Nat} {er : Bool} (H : AgreeOn A h' h) : Ended p A h₀ ob h k er → Ended p A h₀ ob h' k er := by
  rintro (⟨a, b⟩ | ⟨a, b⟩)
  · exact Or.inl ⟨a, b.heap_congr H⟩
  · exact Or.inr ⟨a, b.heap_congr H⟩

/-- the invariant of a worker looks at the heap through its own cells only -/
theorem WInv.heap_congr {p : Prog V} {A : Nat → Prop} {h₀ : Heap V} {ph : Phase} {ob : Option (Heap V)}
    {h h' : Heap V} {k : Nat} {er : Bool} (H : AgreeOn A h' h) :
    WInv p A h₀ ph ob h k er → WInv p A h₀ ph ob h' k er := by
  cases ph with
  | idle => exact fun ⟨a, b, c⟩ => ⟨a, b, H.trans c⟩
  | spawned => exact fun ⟨a, b, c⟩ => ⟨a, b, H.trans c⟩
  | running =>
    rintro (⟨a, b⟩ | ⟨a, b, c⟩)
    · exact Or.inl ⟨a, b.heap_congr H⟩
    · exact Or.inr ⟨a, b, H.trans c⟩
  | saved => exact fun ⟨a, b⟩ => ⟨a, b.heap_congr H⟩
  | released => exact Ended.heap_congr H
  | finished => exact Ended.heap_congr H

/-- every run is on the trajectory of its solo execution from the initial heap, on its own cells -/
def Tr (cfg : Config V) (ft : Footprint) (h₀ : Heap V) (s : State V) : Prop :=
  ∀ i, i < cfg.runs →
    WInv (cfg.prog i) (Own ft i) h₀ (s.phase i) (s.obs i) s.heap (s.steps i) (s.err i)

theorem Tr.init (cfg : Config V) (ft : Footprint) (h₀ : Heap V) : Tr cfg ft h₀ (init cfg h₀) :=
  fun _ _ => ⟨rfl, rfl, AgreeOn.refl _ _⟩

/-- a transformer of run `i` leaves the own cells of every other run alone -/
theorem others_untouched {cfg : Config V} {ft : Footprint} (hp : ClonePrivate cfg ft) {i : Nat} (hi : i < cfg.runs)
    {f : Heap V → Heap V} (hf : TRespects f (ft.R i) (ft.W i)) (h : Heap V) :
    ∀ j, j < cfg.runs → j ≠ i → AgreeOn (Own ft j) (f h) h :=
  fun _ hj hji => hf.untouched (own_not_written hp.disjoint hj hi (Ne.symm hji)) h

/-- an event of run `i` that changes nothing of the other workers but (possibly) cells that are not
    theirs keeps the other workers' invariants -/
theorem Tr.others {cfg : Config V} {ft : Footprint} {h₀ : Heap V} {s : State V} (s' : State V) {i : Nat}
    (hT : Tr cfg ft h₀ s)
    (hheap : ∀ j, j < cfg.runs → j ≠ i → AgreeOn (Own ft j) s'.heap s.heap)
    (hph : ∀ j, j ≠ i → s'.phase j = s.phase j) (hob : ∀ j, j ≠ i → s'.obs j = s.obs j)
    (hst : ∀ j, j ≠ i → s'.steps j = s.steps j) (her : ∀ j, j ≠ i → s'.err j = s.err j) :
    ∀ j, j < cfg.runs → j ≠ i →
      WInv (cfg.prog j) (Own ft j) h₀ (s'.phase j) (s'.obs j) s'.heap (s'.steps j) (s'.err j) := by
  intro j hj hji
  rw [hph j hji, hob j hji, hst j hji, her j hji]
  exact (hT j hj).heap_congr (hheap j hj hji)

theorem Tr.exec {cfg : Config V} {ft : Footprint} {h₀ : Heap V} {s s' : State V} {e : Ev}
    (hp : ClonePrivate cfg ft) (hB : Book cfg s) (hT : Tr cfg ft h₀ s) (h : exec cfg s e = some s') :
    Tr cfg ft h₀ s' := by
  have hlt : ∀ i, s.phase i ≠ .idle → i < cfg.runs := fun i hi => Nat.lt_of_lt_of_le (hB.lt_next hi) hB.next_le
  cases e with
  | spawn =>
    simp only [Runs.exec] at h
    split at h
    · cases h
      intro j hj
      have := hT j hj
      by_cases hjn : j = s.next
      · have e1 : upd s.phase s.next Phase.spawned j = .spawned := by rw [hjn]; exact upd_same _ _ _
        rw [hB.idle_ge j (by omega)] at this
        simpa only [e1, WInv] using this
      · simpa only [upd_ne _ _ hjn] using this
    · cases h
  | clone i =>
    simp only [Runs.exec] at h
    split at h
    · rename_i hc
      obtain ⟨_, hph⟩ := hc
      have hi := hlt i (by rw [hph]; decide)
      have hR := hp.respects i hi
      have hwi := hT i hi
      rw [hph] at hwi
      obtain ⟨he, hk, hag⟩ := hwi
      have hagR : AgreeOn (· ∈ ft.R i) s.heap h₀ := hag.mono (read_own hp.disjoint hi)
      split at h
      · rename_i hf
        have hf0 : (cfg.prog i).cloneFails h₀ = true := by rw [← hR.cloneFails _ _ hagR]; exact hf
        split at h
        · cases h
          intro j hj
          by_cases hji : j = i
          · subst hji
            simp only [upd_same]
            exact Or.inl ⟨rfl, Or.inl ⟨hk, hf0, hag⟩⟩
          · exact Tr.others { s with phase := upd s.phase i .running, err := upd s.err i true } hT
              (fun _ _ _ => AgreeOn.refl _ _) (fun j hj => upd_ne _ _ hj) (fun _ _ => rfl)
              (fun _ _ => rfl) (fun j hj => upd_ne _ _ hj) j hj hji
        · cases h; exact hT
      · rename_i hf
        cases h
        have hf0 : (cfg.prog i).cloneFails h₀ = false := by
          rw [← hR.cloneFails _ _ hagR]
          cases hcf : (cfg.prog i).cloneFails s.heap with
          | false => rfl
          | true => exact absurd hcf hf
        intro j hj
        by_cases hji : j = i
        · subst hji
          have hnew : AgreeOn (Own ft j) ((cfg.prog j).clone s.heap) ((cfg.prog j).clone h₀) :=
            hR.clone.agree (read_own hp.disjoint hi) hag
          simp only [upd_same]
          refine Or.inr ⟨he, ⟨hf0, ⟨_, rfl, hnew⟩, ?_⟩, ?_⟩
          · intro k hk'; omega
          · rw [hk]; exact hnew
        · exact Tr.others { s with phase := upd s.phase i .running, heap := (cfg.prog i).clone s.heap,
                                     obs := upd s.obs i (some ((cfg.prog i).clone s.heap)) } hT
            (others_untouched hp hi hR.clone s.heap) (fun j hj => upd_ne _ _ hj)
            (fun j hj => upd_ne _ _ hj) (fun _ _ => rfl) (fun _ _ => rfl) j hj hji
    · cases h
  | step i =>
    simp only [Runs.exec] at h
    split at h
    · rename_i hc
      obtain ⟨_, hph, herr, hd⟩ := hc
      have hi := hlt i (by rw [hph]; decide)
      have hR := hp.respects i hi
      have hwi := hT i hi
      rw [hph] at hwi
      rcases hwi with ⟨he, _⟩ | ⟨_, hcore, hag⟩
      · rw [herr] at he; cases he
      have hagR : AgreeOn (· ∈ ft.R i) s.heap (tr (cfg.prog i) h₀ (s.steps i)) := hag.mono (read_own hp.disjoint hi)
      have hd0 : (cfg.prog i).done (tr (cfg.prog i) h₀ (s.steps i)) = false := by
        rw [← hR.done _ _ hagR]; exact hd
      split at h
      · rename_i hf
        cases h
        have hf0 : (cfg.prog i).fails (tr (cfg.prog i) h₀ (s.steps i)) = true := by
          rw [← hR.fails _ _ hagR]; exact hf
        rcases panicked_cases cfg s i with ⟨e1, _, _⟩ | ⟨e1, _, _⟩
        · intro j hj
          by_cases hji : j = i
          · subst hji
            rw [panicked_phase, panicked_obs, panicked_heap, panicked_steps, e1, upd_same, hph]
            exact Or.inl ⟨rfl, Or.inr (Or.inl ⟨hcore, hag, hd0, hf0⟩)⟩
          · exact Tr.others (panicked cfg s i) hT (fun _ _ _ => by rw [panicked_heap]; exact AgreeOn.refl _ _)
              (fun _ _ => by rw [panicked_phase]) (fun _ _ => by rw [panicked_obs])
              (fun _ _ => by rw [panicked_steps]) (fun j hj => by rw [e1]; exact upd_ne _ _ hj) j hj hji
        · intro j hj
          rw [panicked_phase, panicked_obs, panicked_heap, panicked_steps, e1]; exact hT j hj
      · rename_i hf
        cases h
        have hf0 : (cfg.prog i).fails (tr (cfg.prog i) h₀ (s.steps i)) = false := by
          rw [← hR.fails _ _ hagR]
          cases hcf : (cfg.prog i).fails s.heap with
          | false => rfl
          | true => exact absurd hcf hf
        intro j hj
        by_cases hji : j = i
        · subst hji
          simp only [upd_same, hph]
          refine Or.inr ⟨herr, ⟨hcore.cloned, hcore.obs, ?_⟩, ?_⟩
          · intro k hk
            by_cases hks : k = s.steps j
            · subst hks; exact ⟨hd0, hf0⟩
            · exact hcore.path k (by omega)
          · rw [tr_succ]; exact hR.step.agree (read_own hp.disjoint hi) hag
        · exact Tr.others { s with heap := (cfg.prog i).step s.heap, steps := upd s.steps i (s.steps i + 1) } hT
            (others_untouched hp hi hR.step s.heap) (fun _ _ => rfl) (fun _ _ => rfl)
            (fun j hj => upd_ne _ _ hj) (fun _ _ => rfl) j hj hji
    · cases h
  | finish i =>
    simp only [Runs.exec] at h
    split at h
    · rename_i hc
      obtain ⟨_, hph, herr, hd⟩ := hc
      have hi := hlt i (by rw [hph]; decide)
      have hR := hp.respects i hi
      have hwi := hT i hi
      rw [hph] at hwi
      rcases hwi with ⟨he, _⟩ | ⟨_, hcore, hag⟩
      · rw [herr] at he; cases he
      have hagR : AgreeOn (· ∈ ft.R i) s.heap (tr (cfg.prog i) h₀ (s.steps i)) := hag.mono (read_own hp.disjoint hi)
      have hd0 : (cfg.prog i).done (tr (cfg.prog i) h₀ (s.steps i)) = true := by
        rw [← hR.done _ _ hagR]; exact hd
      split at h
      · rename_i hf
        cases h
        have hf0 : (cfg.prog i).finishFails (tr (cfg.prog i) h₀ (s.steps i)) = true := by
          rw [← hR.finishFails _ _ hagR]; exact hf
        rcases panicked_cases cfg s i with ⟨e1, _, _⟩ | ⟨e1, _, _⟩
        · intro j hj
          by_cases hji : j = i
          · subst hji
            rw [panicked_phase, panicked_obs, panicked_heap, panicked_steps, e1, upd_same, hph]
            exact Or.inl ⟨rfl, Or.inr (Or.inr ⟨hcore, hag, hd0, hf0⟩)⟩
          · exact Tr.others (panicked cfg s i) hT (fun _ _ _ => by rw [panicked_heap]; exact AgreeOn.refl _ _)
              (fun _ _ => by rw [panicked_phase]) (fun _ _ => by rw [panicked_obs])
              (fun _ _ => by rw [panicked_steps]) (fun j hj => by rw [e1]; exact upd_ne _ _ hj) j hj hji
        · intro j hj
          rw [panicked_phase, panicked_obs, panicked_heap, panicked_steps, e1]; exact hT j hj
      · rename_i hf
        cases h
        have hf0 : (cfg.prog i).finishFails (tr (cfg.prog i) h₀ (s.steps i)) = false := by
          rw [← hR.finishFails _ _ hagR]
          cases hcf : (cfg.prog i).finishFails s.heap with
          | false => rfl
          | true => exact absurd hcf hf
        intro j hj
        by_cases hji : j = i
        · subst hji
          simp only [upd_same]
          exact ⟨herr, hcore, hR.finish.agree (read_own hp.disjoint hi) hag, hd0, hf0⟩
        · exact Tr.others { s with heap := (cfg.prog i).finish s.heap, phase := upd s.phase i .saved } hT
            (others_untouched hp hi hR.finish s.heap) (fun j hj => upd_ne _ _ hj) (fun _ _ => rfl)
            (fun _ _ => rfl) (fun _ _ => rfl) j hj hji
    · cases h
  | release i =>
    simp only [Runs.exec] at h
    split at h
    · rename_i hc
      cases h
      obtain ⟨_, hrel⟩ := hc
      intro j hj
      have hw := hT j hj
      by_cases hji : j = i
      · subst hji
        simp only [upd_same]
        rcases hrel with ⟨hph, he⟩ | hph
        · rw [hph] at hw
          rcases hw with ⟨_, hs⟩ | ⟨he', _⟩
          · exact Or.inl ⟨he, hs⟩
          · rw [he] at he'; cases he'
        · rw [hph] at hw
          exact Or.inr hw
      · simpa only [upd_ne _ _ hji] using hw
    · cases h
  | wgDone i =>
    simp only [Runs.exec] at h
    split at h
    · rename_i hc
      cases h
      obtain ⟨_, hph⟩ := hc
      intro j hj
      have hw := hT j hj
      by_cases hji : j = i
      · subst hji
        rw [hph] at hw
        simpa only [upd_same, WInv] using hw
      · simpa only [upd_ne _ _ hji] using hw
    · cases h
  | ret =>
    simp only [Runs.exec] at h
    split at h
    · cases h; exact hT
    · cases h

theorem Tr.run {cfg : Config V} {ft : Footprint} (hp : ClonePrivate cfg ft) {h₀ : Heap V} {sch : List Ev}
    {s : State V} (h : Runs.run cfg (Runs.init cfg h₀) sch = some s) :
    Book cfg s ∧ Tr cfg ft h₀ s :=
  run_induction cfg (fun s => Book cfg s ∧ Tr cfg ft h₀ s)
    (fun _ _ _ hI he => ⟨hI.1.exec he, Tr.exec hp hI.1 hI.2 he⟩) sch _ _
    ⟨Book.init cfg h₀, Tr.init cfg ft h₀⟩ h


/-! ### solo runs -/

/-- a run that neither finishes nor fails during its first `n` iterations continues from there -/
theorem soloFrom_iter (p : Prog V) (n m : Nat) (h : Heap V)
    (hp : ∀ k, k < n → p.done (iter p.step k h) = false ∧ p.fails (iter p.step k h) = false) :
    soloFrom p (n + m) h = soloFrom p m (iter p.step n h) := by
  induction n generalizing h with
  | zero => simp [iter]
  | succ n ih =>
    have h0 := hp 0 (Nat.succ_pos n)
    simp only [iter] at h0
    have : n + 1 + m = (n + m) + 1 := by omega
    rw [this]
    simp only [soloFrom, h0.1, h0.2, iter]
    apply ih
    intro k hk
    have := hp (k + 1) (by omega)
    simpa only [iter] using this

theorem soloFrom_saved (p : Prog V) (m : Nat) (h : Heap V) (hd : p.done h = true) (hf : p.finishFails h = false) :
    soloFrom p m h = .finished (p.finish h) := by
  cases m <;> simp [soloFrom, hd, hf]

theorem soloFrom_finishFails (p : Prog V) (m : Nat) (h : Heap V) (hd : p.done h = true) (hf : p.finishFails h = true) :
    soloFrom p m h = .failed h := by
  cases m <;> simp [soloFrom, hd, hf]

theorem soloFrom_fails (p : Prog V) (m : Nat) (h : Heap V) (hd : p.done h = false) (hf : p.fails h = true) :
    soloFrom p m h = .failed h := by
  cases m <;> simp [soloFrom, hd, hf]

theorem solo_core {p : Prog V} {A : Nat → Prop} {h₀ : Heap V} {ob : Option (Heap V)} {k : Nat}
    (hc : Core p A h₀ ob k) (m : Nat) : solo p (k + m) h₀ = soloFrom p m (tr p h₀ k) := by
  unfold solo
  rw [hc.cloned]
  simp only [Bool.false_eq_true, if_false]
  exact soloFrom_iter p k m _ hc.path

/-- a stopped run: the run alone fails, in a heap that agrees on the run's own cells -/
theorem solo_of_stopped {p : Prog V} {A : Nat → Prop} {h₀ : Heap V} {ob : Option (Heap V)} {h : Heap V} {k : Nat}
    (H : Stopped p A h₀ ob h k) (fuel : Nat) (hf : k ≤ fuel) :
    ∃ h', solo p fuel h₀ = .failed h' ∧ AgreeOn A h h' := by
  obtain ⟨m, rfl⟩ : ∃ m, fuel = k + m := ⟨fuel - k, by omega⟩
  rcases H with ⟨_, hcf, hag⟩ | ⟨hc, hag, hd, hfl⟩ | ⟨hc, hag, hd, hfl⟩
  · exact ⟨h₀, by unfold solo; rw [hcf]; rfl, hag⟩
  · exact ⟨_, by rw [solo_core hc m]; exact soloFrom_fails p m _ hd hfl, hag⟩
  · exact ⟨_, by rw [solo_core hc m]; exact soloFrom_finishFails p m _ hd hfl, hag⟩

/-- a run that has saved: the run alone finishes, in a heap that agrees on the run's own cells -/
theorem solo_of_saved {p : Prog V} {A : Nat → Prop} {h₀ : Heap V} {ob : Option (Heap V)} {h : Heap V} {k : Nat}
    (H : Saved p A h₀ ob h k) (fuel : Nat) (hf : k ≤ fuel) :
    ∃ h', solo p fuel h₀ = .finished h' ∧ AgreeOn A h h' := by
  obtain ⟨m, rfl⟩ : ∃ m, fuel = k + m := ⟨fuel - k, by omega⟩
  obtain ⟨hc, hag, hd, hfl⟩ := H
  exact ⟨_, by rw [solo_core hc m]; exact soloFrom_saved p m _ hd hfl, hag⟩

theorem solo_of_ended {p : Prog V} {A : Nat → Prop} {h₀ : Heap V} {ob : Option (Heap V)} {h : Heap V} {k : Nat}
    {er : Bool} (H : Ended p A h₀ ob h k er) (fuel : Nat) (hf : k ≤ fuel) :
    Outcome.SameOn A (if er then .failed h else .finished h) (solo p fuel h₀) := by
  rcases H with ⟨he, hs⟩ | ⟨he, hs⟩
  · obtain ⟨h', e1, hag⟩ := solo_of_stopped hs fuel hf
    rw [he, e1]; exact hag
  · obtain ⟨h', e1, hag⟩ := solo_of_saved hs fuel hf
    rw [he, e1]; exact hag

/-! ### termination measure (needs the trace invariant: a run that others write to need not end) -/

/-- the run alone never takes more than `B i` iterations (for an annealer: `MaximumIterations`) -/
def Terminates (cfg : Config V) (h₀ : Heap V) (B : Nat → Nat) : Prop :=
  ∀ i, i < cfg.runs → ∀ k,
    (∀ j, j < k → (cfg.prog i).done (tr (cfg.prog i) h₀ j) = false ∧ (cfg.prog i).fails (tr (cfg.prog i) h₀ j) = false) →
    k ≤ B i

def weightOf (b : Nat) (ph : Phase) (er : Bool) (k : Nat) : Nat :=
  match ph with
  | .idle => b + 6
  | .spawned => b + 5
  | .running => if er then 2 else (b - k) + 4
  | .saved => 3
  | .released => 1
  | .finished => 0

def weight (B : Nat → Nat) (s : State V) (i : Nat) : Nat :=
  weightOf (B i) (s.phase i) (s.err i) (s.steps i)

def measure (cfg : Config V) (B : Nat → Nat) (s : State V) : Nat :=
  sumN (weight B s) cfg.runs + (if s.returned then 0 else 1) + (if s.crashed then 0 else 1)

theorem measure_lt_of_weight {cfg : Config V} {B : Nat → Nat} {s s' : State V} {i : Nat}
    (hi : i < cfg.runs) (hw : weight B s' i < weight B s i)
    (ho : ∀ j, j ≠ i → weight B s' j = weight B s j)
    (hr : s'.returned = s.returned) (hc : s'.crashed = s.crashed) :
    measure cfg B s' < measure cfg B s := by
  have := sumN_lt (f := weight B s) (f' := weight B s') hi hw (fun j _ hj => ho j hj)
  simp only [measure, hr, hc]; omega

/-- a panic of run `i` (running, no error yet) decreases the measure -/
theorem measure_panicked {cfg : Config V} {B : Nat → Nat} {s : State V} {i : Nat} (hi : i < cfg.runs)
    (hcr : s.crashed = false) (hph : s.phase i = .running) (herr : s.err i = false) :
    measure cfg B (panicked cfg s i) < measure cfg B s := by
  rcases panicked_cases cfg s i with ⟨e1, e2, _⟩ | ⟨e1, e2, _⟩
  · apply measure_lt_of_weight hi
    · simp only [weight, panicked_phase, panicked_steps, e1, upd_same, hph, herr, weightOf]; simp
    · intro j hj; simp only [weight, panicked_phase, panicked_steps, e1, upd_ne _ _ hj]
    · simp
    · exact e2
  · have hs : sumN (weight B (panicked cfg s i)) cfg.runs = sumN (weight B s) cfg.runs :=
      sumN_congr (fun j _ => by simp only [weight, panicked_phase, panicked_steps, e1])
    simp only [measure, hs, panicked_returned, e2, hcr]; simp

theorem measure_dec {cfg : Config V} {ft : Footprint} {h₀ : Heap V} {B : Nat → Nat} {s s' : State V} {e : Ev}
    (hB : Book cfg s) (hT' : Tr cfg ft h₀ s') (hμ : Terminates cfg h₀ B) (h : exec cfg s e = some s') :
    measure cfg B s' < measure cfg B s := by
  have hlt : ∀ i, s.phase i ≠ .idle → i < cfg.runs := fun i hi => Nat.lt_of_lt_of_le (hB.lt_next hi) hB.next_le
  cases e with
  | spawn =>
    simp only [Runs.exec] at h
    split at h
    · rename_i hc
      cases h
      obtain ⟨_, _, hn, _⟩ := hc
      apply measure_lt_of_weight hn
      · simp only [weight, upd_same, hB.idle_ge s.next (Nat.le_refl _), weightOf]; omega
      · intro j hj; simp only [weight, upd_ne _ _ hj]
      · rfl
      · rfl
    · cases h
  | clone i =>
    simp only [Runs.exec] at h
    split at h
    · rename_i hc
      obtain ⟨hcr, hph⟩ := hc
      have hi := hlt i (by rw [hph]; decide)
      split at h
      · split at h
        · cases h
          apply measure_lt_of_weight hi
          · simp only [weight, upd_same, hph, weightOf]; simp
          · intro j hj; simp only [weight, upd_ne _ _ hj]
          · rfl
          · rfl
        · cases h
          have hs : sumN (weight B { s with crashed := true }) cfg.runs = sumN (weight B s) cfg.runs :=
            sumN_congr (fun _ _ => rfl)
          simp only [measure, hcr, hs]; simp
      · cases h
        apply measure_lt_of_weight hi
        · simp only [weight, upd_same, hph, weightOf]; split <;> omega
        · intro j hj; simp only [weight, upd_ne _ _ hj]
        · rfl
        · rfl
    · cases h
  | step i =>
    simp only [Runs.exec] at h
    split at h
    · rename_i hc
      obtain ⟨hcr, hph, herr, hd⟩ := hc
      have hi := hlt i (by rw [hph]; decide)
      split at h
      · cases h; exact measure_panicked hi hcr hph herr
      · cases h
        -- after the step the run is on its solo path with `steps i + 1` iterations: that many fit in `B i`
        have hw := hT' i hi
        simp only [upd_same, hph] at hw
        have hk : s.steps i + 1 ≤ B i := by
          rcases hw with ⟨he, _⟩ | ⟨_, hcore, _⟩
          · rw [herr] at he; cases he
          · exact hμ i hi _ hcore.path
        apply measure_lt_of_weight hi
        · simp only [weight, upd_same, hph, herr, weightOf]; simp; omega
        · intro j hj; simp only [weight, upd_ne _ _ hj]
        · rfl
        · rfl
    · cases h
  | finish i =>
    simp only [Runs.exec] at h
    split at h
    · rename_i hc
      obtain ⟨hcr, hph, herr, hd⟩ := hc
      have hi := hlt i (by rw [hph]; decide)
      split at h
      · cases h; exact measure_panicked hi hcr hph herr
      · cases h
        apply measure_lt_of_weight hi
        · simp only [weight, upd_same, hph, herr, weightOf]; simp
        · intro j hj; simp only [weight, upd_ne _ _ hj]
        · rfl
        · rfl
    · cases h
  | release i =>
    simp only [Runs.exec] at h
    split at h
    · rename_i hc
      cases h
      obtain ⟨_, hrel⟩ := hc
      have hne : s.phase i ≠ .idle := by
        rcases hrel with ⟨h1, _⟩ | h1 <;> (rw [h1]; decide)
      have hi := hlt i hne
      apply measure_lt_of_weight hi
      · rcases hrel with ⟨h1, h2⟩ | h1
        · simp only [weight, upd_same, h1, h2, weightOf]; simp
        · simp only [weight, upd_same, h1, weightOf]; omega
      · intro j hj; simp only [weight, upd_ne _ _ hj]
      · rfl
      · rfl
    · cases h
  | wgDone i =>
    simp only [Runs.exec] at h
    split at h
    · rename_i hc
      cases h
      obtain ⟨_, hph⟩ := hc
      have hi := hlt i (by rw [hph]; decide)
      apply measure_lt_of_weight hi
      · simp only [weight, upd_same, hph, weightOf]; omega
      · intro j hj; simp only [weight, upd_ne _ _ hj]
      · rfl
      · rfl
    · cases h
  | ret =>
    simp only [Runs.exec] at h
    split at h
    · rename_i hc
      cases h
      obtain ⟨_, hr, _, _⟩ := hc
      have hs : sumN (weight B { s with returned := true }) cfg.runs = sumN (weight B s) cfg.runs :=
        sumN_congr (fun _ _ => rfl)
      simp only [measure, hr, hs]; simp
    · cases h


/-! ### footprints of programs written as a sequence of writes -/

theorem TRespects.congr {f g : Heap V → Heap V} {R W : List Nat} (hf : TRespects f R W) (e : ∀ h, f h = g h) :
    TRespects g R W := by
  have : f = g := funext e
  rw [← this]; exact hf

/-- `f` respects `(R, W)`, and the cells of `D` have definitely been written from cells of `R` -/
structure Chain (f : Heap V → Heap V) (R W D : List Nat) : Prop where
  resp : TRespects f R W
  det : ∀ h h', AgreeOn (· ∈ R) h h' → ∀ a, a ∈ D → f h a = f h' a

theorem Chain.id (R W : List Nat) : Chain (fun h : Heap V => h) R W [] :=
  ⟨TRespects.id R W, fun _ _ _ _ ha => by cases ha⟩

/-- after a chain: write to a cell of `W` a value computed from cells that are read (`R`) or have
    been written earlier in the chain (`D`) -/
theorem Chain.write {f : Heap V → Heap V} {R W D : List Nat} (hc : Chain f R W D) (x : Nat) (hx : x ∈ W)
    (g : Heap V → V) (hg : ∀ h h', AgreeOn (fun a => a ∈ R ∨ a ∈ D) h h' → g h = g h') :
    Chain (fun h => (f h).set x (g (f h))) R W (x :: D) := by
  have hRD : ∀ h h', AgreeOn (· ∈ R) h h' → AgreeOn (fun a => a ∈ R ∨ a ∈ D) (f h) (f h') := by
    intro h h' H a ha
    rcases ha with ha | ha
    · exact hc.resp.agree (fun _ h => h) H a ha
    · exact hc.det h h' H a ha
  refine ⟨⟨?_, ?_⟩, ?_⟩
  · intro h a ha
    have : a ≠ x := fun e => ha (e ▸ hx)
    simp only [Heap.set_apply, this, if_false]
    exact hc.resp.frame h a ha
  · intro h h' H a ha
    by_cases hax : a = x
    · subst hax
      left
      simp only [Heap.set_apply, if_true]
      exact hg _ _ (hRD h h' H)
    · simp only [Heap.set_apply, hax, if_false]
      exact hc.resp.loc h h' H a ha
  · intro h h' H a ha
    by_cases hax : a = x
    · subst hax
      simp only [Heap.set_apply, if_true]
      exact hg _ _ (hRD h h' H)
    · simp only [Heap.set_apply, hax, if_false]
      rcases List.mem_cons.mp ha with e | e
      · exact absurd e hax
      · exact hc.det h h' H a e

/-! ### the footprint of the annealing program, for EVERY layout -/

theorem anneal_reads {lay : Layout} {inp : Inputs} {i : Nat} {D : List Nat} {h h' : Heap Nat}
    (H : AgreeOn (fun a => a ∈ (annealFoot lay inp).R i ∨ a ∈ D) h h') :
    h tmplCool = h' tmplCool ∧ h tmplIter = h' tmplIter ∧ h tmplModel = h' tmplModel ∧
    h sharedData = h' sharedData ∧ h (lay.cool i) = h' (lay.cool i) ∧ h (lay.iter i) = h' (lay.iter i) ∧
    h (lay.arch i) = h' (lay.arch i) ∧ h (lay.model i) = h' (lay.model i) ∧ h (lay.data i) = h' (lay.data i) := by
  refine ⟨?_, ?_, ?_, ?_, ?_, ?_, ?_, ?_, ?_⟩ <;> exact H _ (Or.inl (by simp [annealFoot]))

theorem annealProg_respects (lay : Layout) (inp : Inputs) (i : Nat) :
    Respects (annealProg lay inp i) ((annealFoot lay inp).R i) ((annealFoot lay inp).W i) := by
  have wc : lay.cool i ∈ (annealFoot lay inp).W i := by simp [annealFoot]
  have wi : lay.iter i ∈ (annealFoot lay inp).W i := by simp [annealFoot]
  have wa : lay.arch i ∈ (annealFoot lay inp).W i := by simp [annealFoot]
  have wm : lay.model i ∈ (annealFoot lay inp).W i := by simp [annealFoot]
  have wd : lay.data i ∈ (annealFoot lay inp).W i := by simp [annealFoot]
  have wo : lay.out i ∈ (annealFoot lay inp).W i := by simp [annealFoot]
  have ws : saverScratch ∈ (annealFoot lay inp).W i := by simp [annealFoot]
  have c0 := Chain.id (V := Nat) ((annealFoot lay inp).R i) ((annealFoot lay inp).W i)
  refine ⟨?_, ?_, ?_, ?_, ?_, ?_, ?_⟩
  · -- clone
    have c5 := (((c0.write (lay.cool i) wc (fun h => h tmplCool) (fun _ _ H => (anneal_reads H).1)).write
      (lay.iter i) wi (fun h => h tmplIter) (fun _ _ H => (anneal_reads H).2.1)).write
      (lay.model i) wm (fun h => h tmplModel) (fun _ _ H => (anneal_reads H).2.2.1)).write
      (lay.arch i) wa (fun _ => 0) (fun _ _ _ => rfl)
    have c6 := (c5.write (lay.data i) wd (fun h => h sharedData) (fun _ _ H => (anneal_reads H).2.2.2.1)).write
      (lay.model i) wm (fun h => inp.modelInit i (h (lay.model i)) (h (lay.data i)))
        (fun _ _ H => by rw [(anneal_reads H).2.2.2.2.2.2.2.1, (anneal_reads H).2.2.2.2.2.2.2.2])
    cases hinv : inp.invObserver with
    | false => exact c6.resp.congr (fun h => by simp [annealProg, hinv])
    | true =>
      have wobs : obsState ∈ (annealFoot lay inp).W i := by simp [annealFoot, hinv]
      have c7 := c6.write obsState wobs (fun h => h (lay.model i)) (fun _ _ H => (anneal_reads H).2.2.2.2.2.2.2.1)
      exact c7.resp.congr (fun h => by simp [annealProg, hinv])
  · -- step
    have c4 := (((c0.write (lay.iter i) wi (fun h => h (lay.iter i) + 1)
        (fun _ _ H => by rw [(anneal_reads H).2.2.2.2.2.1])).write
      (lay.model i) wm (fun h => inp.modelAfter i (h (lay.iter i)) (h (lay.model i)) (h (lay.data i)))
        (fun _ _ H => by
          rw [(anneal_reads H).2.2.2.2.2.1, (anneal_reads H).2.2.2.2.2.2.2.1, (anneal_reads H).2.2.2.2.2.2.2.2])).write
      (lay.arch i) wa (fun h => inp.archiveAfter i (h (lay.iter i)) (h (lay.arch i)) (h (lay.model i)))
        (fun _ _ H => by
          rw [(anneal_reads H).2.2.2.2.2.1, (anneal_reads H).2.2.2.2.2.2.1, (anneal_reads H).2.2.2.2.2.2.2.1])).write
      (lay.cool i) wc (fun h => h (lay.cool i) + 1) (fun _ _ H => by rw [(anneal_reads H).2.2.2.2.1])
    exact c4.resp.congr (fun h => by simp [annealProg])
  · -- finish: the scratch cell is read after it has been written (it is in `D` by then)
    have c2 := (c0.write saverScratch ws (fun h => h (lay.model i)) (fun _ _ H => (anneal_reads H).2.2.2.2.2.2.2.1)).write
      (lay.out i) wo (fun h => inp.encode i (h saverScratch) (h (lay.arch i)) (h (lay.data i)))
        (fun h h' H => by
          rw [(anneal_reads H).2.2.2.2.2.2.1, (anneal_reads H).2.2.2.2.2.2.2.2, H saverScratch (Or.inr (by simp))])
    exact c2.resp.congr (fun h => by simp [annealProg])
  · intro h h' H
    have := (anneal_reads (D := []) (H.mono (fun a ha => by simpa using ha))).2.2.2.1
    simp only [annealProg, this]
  · intro h h' H
    have := (anneal_reads (D := []) (H.mono (fun a ha => by simpa using ha))).2.2.2.2.2.1
    simp only [annealProg, this]
  · intro h h' H
    have := (anneal_reads (D := []) (H.mono (fun a ha => by simpa using ha))).2.2.2.2.2.1
    simp only [annealProg, this]
  · intro h h' _
    rfl

/-- the private layout: nothing a run writes is read or written by another, the saver's model excepted -/
theorem privLayout_disjoint (inp : Inputs) (hinv : inp.invObserver = false) (runs : Nat) :
    Disjoint runs (annealFoot privLayout inp) := by
  refine ⟨?_, ?_⟩
  · intro i _ j _ hij a hw hrw
    simp only [annealFoot, privLayout, hinv, List.mem_append, List.mem_cons, List.not_mem_nil, or_false,
      Bool.false_eq_true, if_false] at hw hrw ⊢
    omega
  · intro i _ a hl hr
    simp only [annealFoot, privLayout, List.mem_cons, List.not_mem_nil, or_false] at hl hr
    omega


/-! ### cells nobody declares to write -/

theorem exec_unwritten {cfg : Config V} {ft : Footprint} {s s' : State V} {e : Ev} (hp : ClonePrivate cfg ft)
    (hB : Book cfg s) (h : exec cfg s e = some s') (a : Nat) (ha : ∀ i, i < cfg.runs → a ∉ ft.W i) :
    s'.heap a = s.heap a := by
  have hlt : ∀ i, s.phase i ≠ .idle → i < cfg.runs := fun i hi => Nat.lt_of_lt_of_le (hB.lt_next hi) hB.next_le
  cases e with
  | spawn => simp only [Runs.exec] at h; split at h <;> cases h; rfl
  | clone i =>
    simp only [Runs.exec] at h
    split at h
    · rename_i hc
      have hi := hlt i (by rw [hc.2]; decide)
      split at h
      · split at h <;> (cases h; rfl)
      · cases h; exact (hp.respects i hi).clone.frame _ a (ha i hi)
    · cases h
  | step i =>
    simp only [Runs.exec] at h
    split at h
    · rename_i hc
      have hi := hlt i (by rw [hc.2.1]; decide)
      split at h
      · cases h; rw [panicked_heap]
      · cases h; exact (hp.respects i hi).step.frame _ a (ha i hi)
    · cases h
  | finish i =>
    simp only [Runs.exec] at h
    split at h
    · rename_i hc
      have hi := hlt i (by rw [hc.2.1]; decide)
      split at h
      · cases h; rw [panicked_heap]
      · cases h; exact (hp.respects i hi).finish.frame _ a (ha i hi)
    · cases h
  | release i => simp only [Runs.exec] at h; split at h <;> cases h; rfl
  | wgDone i => simp only [Runs.exec] at h; split at h <;> cases h; rfl
  | ret => simp only [Runs.exec] at h; split at h <;> cases h; rfl

theorem run_unwritten {cfg : Config V} {ft : Footprint} (hp : ClonePrivate cfg ft) {h₀ : Heap V} {sch : List Ev}
    {s : State V} (h : run cfg (init cfg h₀) sch = some s) (a : Nat) (ha : ∀ i, i < cfg.runs → a ∉ ft.W i) :
    s.heap a = h₀ a :=
  (run_induction cfg (fun s => Book cfg s ∧ s.heap a = h₀ a)
    (fun _ _ _ hI he => ⟨hI.1.exec he, (exec_unwritten hp hI.1 he a ha).trans hI.2⟩) sch _ _
    ⟨Book.init cfg h₀, rfl⟩ h).2

/-! ### values of the private layout -/

theorem clone_priv_values (inp : Inputs) (hinv : inp.invObserver = false) (i : Nat) (h₀ : Heap Nat) :
    (annealProg privLayout inp i).clone h₀ (privLayout.cool i) = h₀ tmplCool ∧
    (annealProg privLayout inp i).clone h₀ (privLayout.iter i) = h₀ tmplIter ∧
    (annealProg privLayout inp i).clone h₀ (privLayout.arch i) = 0 ∧
    (annealProg privLayout inp i).clone h₀ (privLayout.data i) = h₀ sharedData := by
  dsimp only [annealProg, privLayout]
  simp only [hinv, Heap.set_apply, Bool.false_eq_true, if_false]
  simp (disch := omega) only [if_pos, if_neg, ite_true, and_self]

theorem iter_priv_value (inp : Inputs) (i : Nat) (h₀ : Heap Nat) (j : Nat) :
    tr (annealProg privLayout inp i) h₀ j (privLayout.iter i) = h₀ tmplIter + j := by
  induction j with
  | zero =>
    dsimp only [tr, iter, annealProg, privLayout]
    split <;> simp only [Heap.set_apply] <;>
      simp (disch := omega) only [if_pos, if_neg, ite_true, Nat.add_zero]
  | succ j ih =>
    rw [tr_succ]
    generalize tr (annealProg privLayout inp i) h₀ j = h at ih ⊢
    dsimp only [annealProg, privLayout] at ih ⊢
    simp only [Heap.set_apply] at ih ⊢
    simp (disch := omega) only [if_pos, if_neg, ite_true] at ih ⊢
    omega
end Crem.Runs
