import Crem.Model.Runs
/-!
Helper lemmas for property C08 (`Crem/Properties/C08.lean`): point updates, the counters over
phase classes, the bookkeeping invariant of `runScenario`, progress, the termination measure and
the per-worker trace invariant.  Core Lean only.
-/
namespace Crem.Runs

variable {Sh P C : Type}

/-! ### point updates, iteration -/

@[simp] theorem upd_same {α : Type} (f : Nat → α) (i : Nat) (v : α) : upd f i v i = v := by
  simp [upd]

theorem upd_ne {α : Type} (f : Nat → α) {i j : Nat} (v : α) (h : j ≠ i) : upd f i v j = f j := by
  simp [upd, h]

theorem iter_succ' {α : Type} (f : α → α) (n : Nat) (a : α) : iter f (n + 1) a = f (iter f n a) := by
  induction n generalizing a with
  | zero => rfl
  | succ n ih => simp only [iter] at ih ⊢; exact ih (f a)

/-! ### counters -/

theorem cnt_congr (g : Phase → Bool) {f f' : Nat → Phase} {n : Nat} (h : ∀ i, i < n → f' i = f i) :
    cnt g f' n = cnt g f n := by
  induction n with
  | zero => rfl
  | succ n ih =>
    simp only [cnt]
    rw [ih (fun i hi => h i (Nat.lt_succ_of_lt hi)), h n (Nat.lt_succ_self n)]

theorem cnt_upd_ge (g : Phase → Bool) (f : Nat → Phase) {i n : Nat} (v : Phase) (h : n ≤ i) :
    cnt g (upd f i v) n = cnt g f n :=
  cnt_congr g (fun j hj => upd_ne f v (by omega))

theorem cnt_upd_lt (g : Phase → Bool) (f : Nat → Phase) {i n : Nat} (v : Phase) (h : i < n) :
    cnt g (upd f i v) n + (if g (f i) then 1 else 0) = cnt g f n + (if g v then 1 else 0) := by
  induction n with
  | zero => omega
  | succ n ih =>
    simp only [cnt]
    by_cases hin : i = n
    · subst hin
      rw [cnt_upd_ge g f v (Nat.le_refl i), upd_same]
      omega
    · have hlt : i < n := by omega
      rw [upd_ne f v (Ne.symm hin)]
      have := ih hlt
      omega

theorem cnt_le (g : Phase → Bool) (f : Nat → Phase) (n : Nat) : cnt g f n ≤ n := by
  induction n with
  | zero => exact Nat.le_refl 0
  | succ n ih => simp only [cnt]; split <;> omega

theorem exists_of_cnt_pos (g : Phase → Bool) (f : Nat → Phase) {n : Nat} (h : 0 < cnt g f n) :
    ∃ i, i < n ∧ g (f i) = true := by
  induction n with
  | zero => simp [cnt] at h
  | succ n ih =>
    simp only [cnt] at h
    by_cases hg : g (f n) = true
    · exact ⟨n, Nat.lt_succ_self n, hg⟩
    · simp [hg] at h
      obtain ⟨i, hi, hgi⟩ := ih h
      exact ⟨i, Nat.lt_succ_of_lt hi, hgi⟩

theorem cnt_eq_zero_of_forall (g : Phase → Bool) (f : Nat → Phase) {n : Nat}
    (h : ∀ i, i < n → g (f i) = false) : cnt g f n = 0 := by
  induction n with
  | zero => rfl
  | succ n ih =>
    simp only [cnt]
    rw [ih (fun i hi => h i (Nat.lt_succ_of_lt hi)), h n (Nat.lt_succ_self n)]
    simp

theorem cnt_eq_of_forall (g : Phase → Bool) (f : Nat → Phase) {n : Nat}
    (h : ∀ i, i < n → g (f i) = true) : cnt g f n = n := by
  induction n with
  | zero => rfl
  | succ n ih =>
    simp only [cnt]
    rw [ih (fun i hi => h i (Nat.lt_succ_of_lt hi)), h n (Nat.lt_succ_self n)]
    simp

theorem sumN_congr {f f' : Nat → Nat} {n : Nat} (h : ∀ i, i < n → f' i = f i) : sumN f' n = sumN f n := by
  induction n with
  | zero => rfl
  | succ n ih =>
    simp only [sumN]
    rw [ih (fun i hi => h i (Nat.lt_succ_of_lt hi)), h n (Nat.lt_succ_self n)]

/-- if one summand drops and the others stay, the sum drops -/
theorem sumN_lt {f f' : Nat → Nat} {n i : Nat} (hi : i < n) (hlt : f' i < f i)
    (hothers : ∀ j, j < n → j ≠ i → f' j = f j) : sumN f' n < sumN f n := by
  induction n with
  | zero => omega
  | succ n ih =>
    simp only [sumN]
    by_cases hin : i = n
    · subst hin
      rw [sumN_congr (fun j hj => hothers j (Nat.lt_succ_of_lt hj) (by omega))]
      omega
    · have := ih (by omega) (fun j hj hne => hothers j (Nat.lt_succ_of_lt hj) hne)
      rw [hothers n (Nat.lt_succ_self n) (Ne.symm hin)]
      omega

/-! ### schedules -/

theorem run_append (cfg : Config Sh P C) (s : State P C) (a b : List Ev) :
    run cfg s (a ++ b) = (run cfg s a).bind (fun s' => run cfg s' b) := by
  induction a generalizing s with
  | nil => rfl
  | cons e es ih =>
    simp only [List.cons_append, run]
    cases h : exec cfg s e with
    | none => rfl
    | some s' => exact ih s'

/-- induction principle over schedules: a property of the initial state preserved by every
    enabled event holds after every schedule -/
theorem run_induction (cfg : Config Sh P C) (I : State P C → Prop)
    (hstep : ∀ s e s', I s → exec cfg s e = some s' → I s') :
    ∀ (sch : List Ev) (s s' : State P C), I s → run cfg s sch = some s' → I s' := by
  intro sch
  induction sch with
  | nil => intro s s' hI h; simp only [run] at h; cases h; exact hI
  | cons e es ih =>
    intro s s' hI h
    simp only [run] at h
    cases he : exec cfg s e with
    | none => rw [he] at h; cases h
    | some s₁ => rw [he] at h; exact ih s₁ s' (hstep s e s₁ hI he) h

/-! ### solo runs -/

/-- a run that neither finishes nor fails during its first `n` steps continues from there -/
theorem solo_iter (w : Worker Sh P C) (sh : Sh) (n m : Nat) (l : P × C)
    (h : ∀ k, k < n → w.done sh (iter (w.step sh) k l) = false ∧ w.fails sh (iter (w.step sh) k l) = false) :
    solo w sh (n + m) l = solo w sh m (iter (w.step sh) n l) := by
  induction n generalizing l with
  | zero => simp [iter]
  | succ n ih =>
    have h0 := h 0 (Nat.succ_pos n)
    simp only [iter] at h0
    have : n + 1 + m = (n + m) + 1 := by omega
    rw [this]
    simp only [solo, h0.1, h0.2, iter]
    apply ih
    intro k hk
    have := h (k + 1) (by omega)
    simpa only [iter] using this

theorem solo_done (w : Worker Sh P C) (sh : Sh) (m : Nat) (l : P × C) (h : w.done sh l = true) :
    solo w sh m l = .finished l := by
  cases m <;> simp [solo, h]

theorem solo_fails (w : Worker Sh P C) (sh : Sh) (m : Nat) (l : P × C) (hd : w.done sh l = false)
    (h : w.fails sh l = true) : solo w sh m l = .failed l := by
  cases m <;> simp [solo, h, hd]

/-! ### the bookkeeping invariant of `runScenario` -/

/-- channel and WaitGroup as counters over the workers' phases -/
structure Book (cfg : Config Sh P C) (s : State P C) : Prop where
  next_le : s.next ≤ cfg.runs
  idle_ge : ∀ i, s.next ≤ i → s.phase i = .idle
  busy_lt : ∀ i, i < s.next → s.phase i ≠ .idle
  chan_eq : s.chan = cnt inflight s.phase s.next
  chan_le : s.chan ≤ cfg.bound
  wg_eq : s.wg + cnt isFinished s.phase s.next = cfg.runs
  ret_done : s.returned = true → s.next = cfg.runs ∧ s.wg = 0

theorem Book.init (cfg : Config Sh P C) (cells₀ : Nat → C) : Book cfg (init cfg cells₀) where
  next_le := Nat.zero_le _
  idle_ge := fun _ _ => rfl
  busy_lt := fun i hi => by simp [Runs.init] at hi
  chan_eq := rfl
  chan_le := Nat.zero_le _
  wg_eq := rfl
  ret_done := fun h => by simp [Runs.init] at h

theorem Book.lt_next {cfg : Config Sh P C} {s : State P C} (hB : Book cfg s) {i : Nat}
    (h : s.phase i ≠ .idle) : i < s.next := by
  apply Classical.byContradiction
  intro hn
  exact h (hB.idle_ge i (by omega))

theorem Book.exec {cfg : Config Sh P C} {s s' : State P C} {e : Ev} (hB : Book cfg s)
    (h : exec cfg s e = some s') : Book cfg s' := by
  cases e with
  | spawn =>
    simp only [Runs.exec] at h
    split at h
    · rename_i hc
      cases h
      obtain ⟨_, _, hlt, hch⟩ := hc
      refine ⟨by simp only; omega, ?_, ?_, ?_, by simp only; omega, ?_, ?_⟩
      · intro i hi
        simp only at hi ⊢
        rw [upd_ne _ _ (by omega)]
        exact hB.idle_ge i (by omega)
      · intro i hi
        simp only at hi ⊢
        by_cases hin : i = s.next
        · subst hin; simp
        · rw [upd_ne _ _ hin]; exact hB.busy_lt i (by omega)
      · simp only [cnt, upd_same, inflight]
        rw [cnt_upd_ge _ _ _ (Nat.le_refl _), ← hB.chan_eq]
        simp
      · simp only [cnt, upd_same, isFinished]
        rw [cnt_upd_ge _ _ _ (Nat.le_refl _)]
        simpa using hB.wg_eq
      · intro hr; simp_all
    · cases h
  | clone i =>
    simp only [Runs.exec] at h
    split at h
    · rename_i hc
      cases h
      obtain ⟨_, hph⟩ := hc
      have hi : i < s.next := hB.lt_next (by rw [hph]; decide)
      have h1 := cnt_upd_lt inflight s.phase .running hi
      have h2 := cnt_upd_lt isFinished s.phase .running hi
      rw [hph] at h1 h2
      simp only [inflight, isFinished] at h1 h2
      refine ⟨hB.next_le, ?_, ?_, ?_, hB.chan_le, ?_, hB.ret_done⟩
      · intro j hj
        simp only at hj ⊢
        rw [upd_ne _ _ (by omega)]; exact hB.idle_ge j hj
      · intro j hj
        simp only at hj ⊢
        by_cases hji : j = i
        · subst hji; simp
        · rw [upd_ne _ _ hji]; exact hB.busy_lt j hj
      · simp only; have := hB.chan_eq; simp at h1; omega
      · simp only; have := hB.wg_eq; simp at h2; omega
    · cases h
  | step i =>
    simp only [Runs.exec] at h
    split at h
    · split at h
      · split at h <;> (cases h; exact ⟨hB.next_le, hB.idle_ge, hB.busy_lt, hB.chan_eq, hB.chan_le, hB.wg_eq, hB.ret_done⟩)
      · cases h; exact ⟨hB.next_le, hB.idle_ge, hB.busy_lt, hB.chan_eq, hB.chan_le, hB.wg_eq, hB.ret_done⟩
    · cases h
  | release i =>
    simp only [Runs.exec] at h
    split at h
    · rename_i hc
      cases h
      obtain ⟨_, hph, _⟩ := hc
      have hi : i < s.next := hB.lt_next (by rw [hph]; decide)
      have h1 := cnt_upd_lt inflight s.phase .released hi
      have h2 := cnt_upd_lt isFinished s.phase .released hi
      rw [hph] at h1 h2
      simp only [inflight, isFinished] at h1 h2
      refine ⟨hB.next_le, ?_, ?_, ?_, ?_, ?_, hB.ret_done⟩
      · intro j hj
        simp only at hj ⊢
        rw [upd_ne _ _ (by omega)]; exact hB.idle_ge j hj
      · intro j hj
        simp only at hj ⊢
        by_cases hji : j = i
        · subst hji; simp
        · rw [upd_ne _ _ hji]; exact hB.busy_lt j hj
      · simp only; have := hB.chan_eq; simp at h1; omega
      · simp only; have := hB.chan_le; omega
      · simp only; have := hB.wg_eq; simp at h2; omega
    · cases h
  | wgDone i =>
    simp only [Runs.exec] at h
    split at h
    · rename_i hc
      cases h
      obtain ⟨_, hph⟩ := hc
      have hi : i < s.next := hB.lt_next (by rw [hph]; decide)
      have h1 := cnt_upd_lt inflight s.phase .finished hi
      have h2 := cnt_upd_lt isFinished s.phase .finished hi
      have h3 := cnt_le isFinished (upd s.phase i .finished) s.next
      rw [hph] at h1 h2
      simp only [inflight, isFinished] at h1 h2
      refine ⟨hB.next_le, ?_, ?_, ?_, hB.chan_le, ?_, ?_⟩
      · intro j hj
        simp only at hj ⊢
        rw [upd_ne _ _ (by omega)]; exact hB.idle_ge j hj
      · intro j hj
        simp only at hj ⊢
        by_cases hji : j = i
        · subst hji; simp
        · rw [upd_ne _ _ hji]; exact hB.busy_lt j hj
      · simp only; have := hB.chan_eq; simp at h1; omega
      · simp only; have := hB.wg_eq; have := hB.next_le; simp at h2; omega
      · intro hr
        have := hB.ret_done hr
        have := hB.wg_eq; have := hB.next_le
        simp only at hr ⊢
        simp at h2
        omega
    · cases h
  | ret =>
    simp only [Runs.exec] at h
    split at h
    · rename_i hc
      cases h
      obtain ⟨_, _, hn, hw⟩ := hc
      exact ⟨hB.next_le, hB.idle_ge, hB.busy_lt, hB.chan_eq, hB.chan_le, hB.wg_eq, fun _ => ⟨hn, hw⟩⟩
    · cases h

theorem Book.run {cfg : Config Sh P C} {cells₀ : Nat → C} {sch : List Ev} {s : State P C}
    (h : Runs.run cfg (Runs.init cfg cells₀) sch = some s) : Book cfg s :=
  run_induction cfg (Book cfg) (fun _ _ _ hB he => hB.exec he) sch _ _ (Book.init cfg cells₀) h

/-! ### no crash when failures are isolated (or nothing fails) -/

/-- failures are confined to the failing run, or no run ever fails -/
def Safe (cfg : Config Sh P C) : Prop :=
  cfg.isolate = true ∨ ∀ l, cfg.fails cfg.shared l = false

theorem exec_not_crashed {cfg : Config Sh P C} {s s' : State P C} {e : Ev} (hsafe : Safe cfg)
    (hc : s.crashed = false) (h : exec cfg s e = some s') : s'.crashed = false := by
  cases e with
  | step i =>
    simp only [Runs.exec] at h
    split at h
    · split at h
      · rename_i hf
        split at h
        · cases h; exact hc
        · rename_i hiso
          rcases hsafe with h1 | h1
          · exact absurd h1 hiso
          · rw [h1] at hf; cases hf
      · cases h; exact hc
    · cases h
  | spawn => simp only [Runs.exec] at h; split at h <;> cases h; exact hc
  | clone i => simp only [Runs.exec] at h; split at h <;> cases h; exact hc
  | release i => simp only [Runs.exec] at h; split at h <;> cases h; exact hc
  | wgDone i => simp only [Runs.exec] at h; split at h <;> cases h; exact hc
  | ret => simp only [Runs.exec] at h; split at h <;> cases h; exact hc

theorem run_not_crashed {cfg : Config Sh P C} (hsafe : Safe cfg) {cells₀ : Nat → C} {sch : List Ev}
    {s : State P C} (h : run cfg (init cfg cells₀) sch = some s) : s.crashed = false :=
  run_induction cfg (fun s => s.crashed = false) (fun _ _ _ hc he => exec_not_crashed hsafe hc he) sch _ _ rfl h

/-! ### progress: the bookkeeping never deadlocks -/

def notFinished (ph : Phase) : Bool := !isFinished ph

theorem forall_of_cnt_zero (g : Phase → Bool) (f : Nat → Phase) {n : Nat} (h : cnt g f n = 0) :
    ∀ i, i < n → g (f i) = false := by
  intro i hi
  cases hg : g (f i) with
  | false => rfl
  | true =>
    have h1 := cnt_upd_lt g f (f i) hi
    have h2 : upd f i (f i) = f := by
      funext j; by_cases hji : j = i
      · subst hji; simp
      · exact upd_ne f _ hji
    rw [h2] at h1
    -- count is positive because position i contributes
    have hpos : 0 < cnt g f n := by
      clear h1 h2 h
      induction n with
      | zero => omega
      | succ n ih =>
        simp only [cnt]
        by_cases hin : i = n
        · subst hin; simp [hg]
        · have := ih (by omega); omega
    omega

theorem progress {cfg : Config Sh P C} {s : State P C} (hb : 0 < cfg.bound) (hB : Book cfg s)
    (hc : s.crashed = false) (hr : s.returned = false) : ∃ e s', exec cfg s e = some s' := by
  by_cases hu : 0 < cnt notFinished s.phase s.next
  · obtain ⟨i, hi, hnf⟩ := exists_of_cnt_pos _ _ hu
    cases hph : s.phase i with
    | idle => exact absurd hph (hB.busy_lt i hi)
    | spawned =>
      refine ⟨.clone i, ?_⟩
      simp only [Runs.exec]
      rw [if_pos ⟨hc, hph⟩]
      exact ⟨_, rfl⟩
    | running =>
      by_cases hrel : s.err i = true ∨ cfg.done cfg.shared (loc cfg s i) = true
      · exact ⟨.release i, _, by simp only [Runs.exec]; rw [if_pos ⟨hc, hph, hrel⟩]⟩
      · have he : s.err i = false := by
          cases h : s.err i with
          | false => rfl
          | true => exact absurd (Or.inl h) hrel
        have hd : cfg.done cfg.shared (loc cfg s i) = false := by
          cases h : cfg.done cfg.shared (loc cfg s i) with
          | false => rfl
          | true => exact absurd (Or.inr h) hrel
        refine ⟨.step i, ?_⟩
        simp only [Runs.exec]
        rw [if_pos ⟨hc, hph, he, hd⟩]
        split
        · split <;> exact ⟨_, rfl⟩
        · exact ⟨_, rfl⟩
    | released =>
      refine ⟨.wgDone i, ?_⟩
      simp only [Runs.exec]
      rw [if_pos ⟨hc, hph⟩]
      exact ⟨_, rfl⟩
    | finished => rw [hph] at hnf; simp [notFinished, isFinished] at hnf
  · have hz : cnt notFinished s.phase s.next = 0 := by omega
    have hall : ∀ i, i < s.next → s.phase i = .finished := by
      intro i hi
      have := forall_of_cnt_zero _ _ hz i hi
      cases hph : s.phase i <;> simp [notFinished, isFinished, hph] at this
      rfl
    have h1 : cnt inflight s.phase s.next = 0 :=
      cnt_eq_zero_of_forall _ _ (fun i hi => by rw [hall i hi]; rfl)
    have h2 : cnt isFinished s.phase s.next = s.next :=
      cnt_eq_of_forall _ _ (fun i hi => by rw [hall i hi]; rfl)
    by_cases hn : s.next < cfg.runs
    · refine ⟨.spawn, ?_⟩
      simp only [Runs.exec]
      rw [if_pos ⟨hc, hr, hn, by rw [hB.chan_eq, h1]; exact hb⟩]
      exact ⟨_, rfl⟩
    · have hne : s.next = cfg.runs := by have := hB.next_le; omega
      refine ⟨.ret, ?_⟩
      simp only [Runs.exec]
      rw [if_pos ⟨hc, hr, hne, by have := hB.wg_eq; omega⟩]
      exact ⟨_, rfl⟩

/-! ### termination measure -/

/-- every step that neither finishes nor fails brings the run closer to its end (for an annealer:
    `MaximumIterations - currentIteration`, a quantity of the private part) -/
def Terminates (cfg : Config Sh P C) (μ : P → Nat) : Prop :=
  ∀ l, cfg.done cfg.shared l = false → cfg.fails cfg.shared l = false → μ (cfg.step cfg.shared l).1 < μ l.1

def weightOf (μ : P → Nat) (p₀ : P) (ph : Phase) (er : Bool) (p : P) : Nat :=
  match ph with
  | .idle => μ p₀ + 5
  | .spawned => μ p₀ + 4
  | .running => if er then 2 else μ p + 3
  | .released => 1
  | .finished => 0

def weight (cfg : Config Sh P C) (μ : P → Nat) (s : State P C) (i : Nat) : Nat :=
  weightOf μ (cfg.initP i) (s.phase i) (s.err i) (s.priv i)

def measure (cfg : Config Sh P C) (μ : P → Nat) (s : State P C) : Nat :=
  sumN (weight cfg μ s) cfg.runs + (if s.returned then 0 else 1) + (if s.crashed then 0 else 1)

theorem measure_lt_of_weight {cfg : Config Sh P C} {μ : P → Nat} {s s' : State P C} {i : Nat}
    (hi : i < cfg.runs) (hw : weight cfg μ s' i < weight cfg μ s i)
    (ho : ∀ j, j ≠ i → weight cfg μ s' j = weight cfg μ s j)
    (hr : s'.returned = s.returned) (hc : s'.crashed = s.crashed) :
    measure cfg μ s' < measure cfg μ s := by
  have := sumN_lt (f := weight cfg μ s) (f' := weight cfg μ s') hi hw (fun j _ hj => ho j hj)
  simp only [measure, hr, hc]; omega

theorem measure_dec {cfg : Config Sh P C} {μ : P → Nat} {s s' : State P C} {e : Ev} (hB : Book cfg s)
    (hμ : Terminates cfg μ) (h : exec cfg s e = some s') : measure cfg μ s' < measure cfg μ s := by
  have hlt : ∀ i, s.phase i ≠ .idle → i < cfg.runs := fun i hi => Nat.lt_of_lt_of_le (hB.lt_next hi) hB.next_le
  cases e with
  | spawn =>
    simp only [Runs.exec] at h
    split at h
    · rename_i hc
      cases h
      obtain ⟨_, _, hn, _⟩ := hc
      apply measure_lt_of_weight hn
      · simp only [weight, upd_same, hB.idle_ge s.next (Nat.le_refl _), weightOf]; omega
      · intro j hj; simp only [weight, upd_ne _ _ hj]
      · rfl
      · rfl
    · cases h
  | clone i =>
    simp only [Runs.exec] at h
    split at h
    · rename_i hc
      cases h
      obtain ⟨_, hph⟩ := hc
      have hi := hlt i (by rw [hph]; decide)
      apply measure_lt_of_weight hi
      · simp only [weight, upd_same, hph, weightOf]; split <;> omega
      · intro j hj; simp only [weight, upd_ne _ _ hj]
      · rfl
      · rfl
    · cases h
  | step i =>
    simp only [Runs.exec] at h
    split at h
    · rename_i hc
      obtain ⟨hcr, hph, herr, hd⟩ := hc
      have hi := hlt i (by rw [hph]; decide)
      split at h
      · split at h
        · cases h
          apply measure_lt_of_weight hi
          · simp only [weight, upd_same, hph, herr, weightOf]; simp
          · intro j hj; simp only [weight, upd_ne _ _ hj]
          · rfl
          · rfl
        · cases h
          have hs : sumN (weight cfg μ { s with crashed := true }) cfg.runs = sumN (weight cfg μ s) cfg.runs :=
            sumN_congr (fun _ _ => rfl)
          simp only [measure, hcr, hs]; simp
      · rename_i hf
        cases h
        have hf' : cfg.fails cfg.shared (loc cfg s i) = false := by
          cases h : cfg.fails cfg.shared (loc cfg s i) with
          | false => rfl
          | true => exact absurd h hf
        have hdec := hμ (loc cfg s i) hd hf'
        apply measure_lt_of_weight hi
        · simp only [weight, upd_same, hph, herr, weightOf]
          simp only [loc] at hdec
          simp; exact hdec
        · intro j hj; simp only [weight, upd_ne _ _ hj]
        · rfl
        · rfl
    · cases h
  | release i =>
    simp only [Runs.exec] at h
    split at h
    · rename_i hc
      cases h
      obtain ⟨_, hph, _⟩ := hc
      have hi := hlt i (by rw [hph]; decide)
      apply measure_lt_of_weight hi
      · simp only [weight, upd_same, hph, weightOf]; split <;> omega
      · intro j hj; simp only [weight, upd_ne _ _ hj]
      · rfl
      · rfl
    · cases h
  | wgDone i =>
    simp only [Runs.exec] at h
    split at h
    · rename_i hc
      cases h
      obtain ⟨_, hph⟩ := hc
      have hi := hlt i (by rw [hph]; decide)
      apply measure_lt_of_weight hi
      · simp only [weight, upd_same, hph, weightOf]; omega
      · intro j hj; simp only [weight, upd_ne _ _ hj]
      · rfl
      · rfl
    · cases h
  | ret =>
    simp only [Runs.exec] at h
    split at h
    · rename_i hc
      cases h
      obtain ⟨_, hr, _, _⟩ := hc
      have hs : sumN (weight cfg μ { s with returned := true }) cfg.runs = sumN (weight cfg μ s) cfg.runs :=
        sumN_congr (fun _ _ => rfl)
      simp only [measure, hr, hs]; simp
    · cases h

/-! ### the per-worker trace invariant (needs `ClonePrivate`) -/

/-- what is known about a started run whose local state is `l` after `k` steps from `l₀` -/
def Core (w : Worker Sh P C) (sh : Sh) (l₀ : P × C) (ob : Option (P × C)) (l : P × C) (k : Nat) (er : Bool) : Prop :=
  ob = some l₀ ∧ l = iter (w.step sh) k l₀ ∧
  (∀ j, j < k → w.done sh (iter (w.step sh) j l₀) = false ∧ w.fails sh (iter (w.step sh) j l₀) = false) ∧
  (er = true → w.done sh l = false ∧ w.fails sh l = true)

def WInv (w : Worker Sh P C) (sh : Sh) (l₀ : P × C) (ph : Phase) (ob : Option (P × C)) (l : P × C)
    (k : Nat) (er : Bool) : Prop :=
  match ph with
  | .idle => er = false ∧ k = 0
  | .spawned => er = false ∧ k = 0
  | .running => Core w sh l₀ ob l k er
  | .released => Core w sh l₀ ob l k er ∧ (er = true ∨ w.done sh l = true)
  | .finished => Core w sh l₀ ob l k er ∧ (er = true ∨ w.done sh l = true)

/-- the template's cell is never written, and every run is on its solo trajectory -/
structure Tr (cfg : Config Sh P C) (c₀ : C) (s : State P C) : Prop where
  tmpl_cell : s.cells cfg.tmpl = c₀
  worker : ∀ i, i < cfg.runs →
    WInv cfg.toWorker cfg.shared (cfg.initP i, c₀) (s.phase i) (s.obs i) (loc cfg s i) (s.steps i) (s.err i)

theorem Tr.init (cfg : Config Sh P C) (cells₀ : Nat → C) : Tr cfg (cells₀ cfg.tmpl) (init cfg cells₀) where
  tmpl_cell := rfl
  worker := fun _ _ => ⟨rfl, rfl⟩

theorem Tr.exec {cfg : Config Sh P C} {c₀ : C} {s s' : State P C} {e : Ev} (hp : ClonePrivate cfg)
    (hB : Book cfg s) (hT : Tr cfg c₀ s) (h : exec cfg s e = some s') : Tr cfg c₀ s' := by
  have hlt : ∀ i, s.phase i ≠ .idle → i < cfg.runs := fun i hi => Nat.lt_of_lt_of_le (hB.lt_next hi) hB.next_le
  cases e with
  | spawn =>
    simp only [Runs.exec] at h
    split at h
    · cases h
      refine ⟨hT.tmpl_cell, ?_⟩
      intro j hj
      have := hT.worker j hj
      by_cases hjn : j = s.next
      · have e1 : upd s.phase s.next Phase.spawned j = .spawned := by rw [hjn]; exact upd_same _ _ _
        rw [hB.idle_ge j (by omega)] at this
        simpa only [loc, e1, WInv] using this
      · simpa only [loc, upd_ne _ _ hjn] using this
    · cases h
  | clone i =>
    simp only [Runs.exec] at h
    split at h
    · rename_i hc
      cases h
      obtain ⟨_, hph⟩ := hc
      have hi := hlt i (by rw [hph]; decide)
      refine ⟨?_, ?_⟩
      · simp only
        rw [upd_ne _ _ (Ne.symm (hp.1 i hi))]; exact hT.tmpl_cell
      · intro j hj
        have hw := hT.worker j hj
        by_cases hji : j = i
        · subst hji
          rw [hph] at hw
          obtain ⟨he, hk⟩ := hw
          simp only [loc, upd_same, WInv, Core, hT.tmpl_cell, he, hk, iter]
          refine ⟨?_, ?_, ?_, ?_⟩ <;> first | trivial | rfl | (intro k hk; omega) | (intro h; cases h)
        · have hadr : cfg.addr j ≠ cfg.addr i := fun h => hji (hp.2 j hj i hi h)
          simpa only [loc, upd_ne _ _ hji, upd_ne _ _ hadr] using hw
    · cases h
  | step i =>
    simp only [Runs.exec] at h
    split at h
    · rename_i hc
      obtain ⟨_, hph, herr, hd⟩ := hc
      have hi := hlt i (by rw [hph]; decide)
      have hwi := hT.worker i hi
      rw [hph] at hwi
      obtain ⟨hob, hl, hpath, _⟩ := hwi
      split at h
      · rename_i hf
        split at h
        · cases h
          refine ⟨hT.tmpl_cell, ?_⟩
          intro j hj
          have hw := hT.worker j hj
          by_cases hji : j = i
          · subst hji
            simp only [upd_same, hph, WInv, Core]
            exact ⟨hob, hl, hpath, fun _ => ⟨hd, hf⟩⟩
          · simpa only [loc, upd_ne _ _ hji] using hw
        · cases h
          exact ⟨hT.tmpl_cell, hT.worker⟩
      · rename_i hf
        cases h
        have hf' : cfg.fails cfg.shared (loc cfg s i) = false := by
          cases h : cfg.fails cfg.shared (loc cfg s i) with
          | false => rfl
          | true => exact absurd h hf
        refine ⟨?_, ?_⟩
        · simp only
          rw [upd_ne _ _ (Ne.symm (hp.1 i hi))]; exact hT.tmpl_cell
        · intro j hj
          have hw := hT.worker j hj
          by_cases hji : j = i
          · subst hji
            simp only [loc, upd_same, hph, WInv, Core, herr]
            refine ⟨hob, ?_, ?_, ?_⟩
            · rw [iter_succ', ← hl]; rfl
            · intro k hk
              by_cases hks : k = s.steps j
              · subst hks; rw [← hl]; exact ⟨hd, hf'⟩
              · exact hpath k (by omega)
            · intro h; cases h
          · have hadr : cfg.addr j ≠ cfg.addr i := fun h => hji (hp.2 j hj i hi h)
            simpa only [loc, upd_ne _ _ hji, upd_ne _ _ hadr] using hw
    · cases h
  | release i =>
    simp only [Runs.exec] at h
    split at h
    · rename_i hc
      cases h
      obtain ⟨_, hph, hrel⟩ := hc
      have hi := hlt i (by rw [hph]; decide)
      refine ⟨hT.tmpl_cell, ?_⟩
      intro j hj
      have hw := hT.worker j hj
      by_cases hji : j = i
      · subst hji
        rw [hph] at hw
        simp only [upd_same, WInv]
        exact ⟨hw, hrel⟩
      · simpa only [loc, upd_ne _ _ hji] using hw
    · cases h
  | wgDone i =>
    simp only [Runs.exec] at h
    split at h
    · rename_i hc
      cases h
      obtain ⟨_, hph⟩ := hc
      refine ⟨hT.tmpl_cell, ?_⟩
      intro j hj
      have hw := hT.worker j hj
      by_cases hji : j = i
      · subst hji
        rw [hph] at hw
        simpa only [loc, upd_same, WInv] using hw
      · simpa only [loc, upd_ne _ _ hji] using hw
    · cases h
  | ret =>
    simp only [Runs.exec] at h
    split at h
    · cases h; exact ⟨hT.tmpl_cell, hT.worker⟩
    · cases h

theorem Tr.run {cfg : Config Sh P C} (hp : ClonePrivate cfg) {cells₀ : Nat → C} {sch : List Ev}
    {s : State P C} (h : Runs.run cfg (Runs.init cfg cells₀) sch = some s) :
    Book cfg s ∧ Tr cfg (cells₀ cfg.tmpl) s :=
  run_induction cfg (fun s => Book cfg s ∧ Tr cfg (cells₀ cfg.tmpl) s)
    (fun _ _ _ hI he => ⟨hI.1.exec he, Tr.exec hp hI.1 hI.2 he⟩) sch _ _
    ⟨Book.init cfg cells₀, Tr.init cfg cells₀⟩ h

/-- from the trace invariant: a completed run is exactly its solo outcome -/
theorem solo_of_core {w : Worker Sh P C} {sh : Sh} {l₀ l : P × C} {ob : Option (P × C)} {k : Nat} {er : Bool}
    (hc : Core w sh l₀ ob l k er) (hend : er = true ∨ w.done sh l = true) (fuel : Nat) (hf : k ≤ fuel) :
    solo w sh fuel l₀ = if er then .failed l else .finished l := by
  obtain ⟨_, hl, hpath, herr⟩ := hc
  obtain ⟨m, rfl⟩ : ∃ m, fuel = k + m := ⟨fuel - k, by omega⟩
  rw [solo_iter w sh k m l₀ hpath, ← hl]
  cases her : er with
  | true =>
    have := herr her
    simp only [if_true]
    exact solo_fails w sh m l this.1 this.2
  | false =>
    rcases hend with h | h
    · rw [her] at h; cases h
    · simp only [Bool.false_eq_true, if_false]
      exact solo_done w sh m l h

end Crem.Runs
