import Crem.Model.Dominance
/-! Helper lemmas for C17 (core Lean only). -/
namespace Crem.Dominance

theorem anyGreater_eq_false_iff : ∀ (x y : List Int), x.length = y.length →
    (anyGreater x y = false ↔ ∀ i (hx : i < x.length) (hy : i < y.length), x[i] ≤ y[i])
  | [], [], _ => by simp [anyGreater]
  | [], _ :: _, h => by simp at h
  | _ :: _, [], h => by simp at h
  | a :: xs, b :: ys, h => by
    have hl : xs.length = ys.length := by simpa using h
    have ih := anyGreater_eq_false_iff xs ys hl
    simp only [anyGreater]
    constructor
    · intro hg
      split at hg
      · simp at hg
      · rename_i hab
        intro i hx hy
        cases i with
        | zero => simp; omega
        | succ j =>
          simp only [List.getElem_cons_succ]
          exact (ih.mp hg) j (by simpa using hx) (by simpa using hy)
    · intro hall
      have h0 := hall 0 (by simp) (by simp)
      simp only [List.getElem_cons_zero] at h0
      split
      · omega
      · apply ih.mpr
        intro i hx hy
        have := hall (i+1) (by simpa using hx) (by simpa using hy)
        simpa using this

theorem anyLess_eq_true_iff : ∀ (x y : List Int), x.length = y.length →
    (anyLess x y = true ↔ ∃ i, ∃ (hx : i < x.length) (hy : i < y.length), x[i] < y[i])
  | [], [], _ => by simp [anyLess]
  | [], _ :: _, h => by simp at h
  | _ :: _, [], h => by simp at h
  | a :: xs, b :: ys, h => by
    have hl : xs.length = ys.length := by simpa using h
    have ih := anyLess_eq_true_iff xs ys hl
    simp only [anyLess]
    constructor
    · intro hg
      split at hg
      · rename_i hab
        exact ⟨0, by simp, by simp, by simpa using hab⟩
      · obtain ⟨i, hx, hy, hlt⟩ := ih.mp hg
        exact ⟨i+1, by simpa using hx, by simpa using hy, by simpa using hlt⟩
    · rintro ⟨i, hx, hy, hlt⟩
      split
      · rfl
      · rename_i hab
        cases i with
        | zero => simp at hlt; omega
        | succ j =>
          apply ih.mpr
          exact ⟨j, by simpa using hx, by simpa using hy, by simpa using hlt⟩

theorem dominates_eq_true_iff (x y : List Int) :
    dominates x y = true ↔ anyGreater x y = false ∧ anyLess x y = true := by
  unfold dominates
  cases anyGreater x y <;> cases anyLess x y <;> simp

theorem anyGreater_self : ∀ x : List Int, anyGreater x x = false
  | [] => rfl
  | a :: xs => by simp [anyGreater, anyGreater_self xs]

theorem anyLess_self : ∀ x : List Int, anyLess x x = false
  | [] => rfl
  | a :: xs => by simp [anyLess, anyLess_self xs]


theorem dominates_irrefl' (x : List Int) : dominates x x = false := by
  simp [dominates, anyGreater_self, anyLess_self]

theorem dominates_trans' (x y z : List Int) (hxy : x.length = y.length) (hyz : y.length = z.length)
    (h1 : dominates x y = true) (h2 : dominates y z = true) : dominates x z = true := by
  have hxz : x.length = z.length := hxy.trans hyz
  rw [dominates_eq_true_iff, anyGreater_eq_false_iff x y hxy, anyLess_eq_true_iff x y hxy] at h1
  rw [dominates_eq_true_iff, anyGreater_eq_false_iff y z hyz, anyLess_eq_true_iff y z hyz] at h2
  rw [dominates_eq_true_iff, anyGreater_eq_false_iff x z hxz, anyLess_eq_true_iff x z hxz]
  obtain ⟨a1, i, hix, hiy, hlt⟩ := h1
  obtain ⟨a2, _⟩ := h2
  refine ⟨?_, i, hix, by omega, ?_⟩
  · intro j hx hz
    have := a1 j hx (by omega)
    have := a2 j (by omega) hz
    omega
  · have := a2 i hiy (by omega)
    omega

/-! surplus components (vectors of unequal length) are ignored by the zipped walks -/

theorem anyGreater_append (x y s : List Int) (hl : x.length = y.length) :
    anyGreater x (y ++ s) = anyGreater x y ∧ anyGreater (x ++ s) y = anyGreater x y := by
  induction x generalizing y with
  | nil =>
    cases y with
    | nil => cases s <;> simp [anyGreater]
    | cons b t => simp at hl
  | cons a t ih =>
    cases y with
    | nil => simp at hl
    | cons b u =>
      have h := ih u (by simpa using hl)
      simp only [List.cons_append, anyGreater, h.1, h.2, and_self]

theorem anyLess_append (x y s : List Int) (hl : x.length = y.length) :
    anyLess x (y ++ s) = anyLess x y ∧ anyLess (x ++ s) y = anyLess x y := by
  induction x generalizing y with
  | nil =>
    cases y with
    | nil => cases s <;> simp [anyLess]
    | cons b t => simp at hl
  | cons a t ih =>
    cases y with
    | nil => simp at hl
    | cons b u =>
      have h := ih u (by simpa using hl)
      simp only [List.cons_append, anyLess, h.1, h.2, and_self]

end Crem.Dominance
