import Crem.Proofs.Naming
/-!
Helper lemmas for the row theorems of property C12 (`Crem/Properties/C12Rows.lean`): what the fields
of the entries of one summary are, column by column.  No property theorem lives here.
-/
namespace Crem.SummaryCsv
open Crem.Naming

/-! ## the member entries, field by field -/

theorem memberEntries_length (v : Variant) (f : Family) (rid : Str) (n i : Nat) (ms : List Row) :
    (memberEntries v f rid n i ms).length = ms.length := by
  induction ms generalizing i with
  | nil => rfl
  | cons m ms ih => simp [memberEntries, ih]

theorem memberEntries_keys (v : Variant) (f : Family) (rid : Str) (n i : Nat) (ms : List Row) :
    (memberEntries v f rid n i ms).map (·.key) =
      (List.range' i ms.length).map (fun j => memberKey rid (j + 1) (idSize f n)) := by
  induction ms generalizing i with
  | nil => rfl
  | cons m ms ih =>
    simp only [memberEntries, List.map_cons, List.length_cons, List.range'_succ, ih (i + 1)]
    cases f <;> rfl

theorem memberEntries_label_of_key (v : Variant) (f : Family) (rid : Str) (n i : Nat) (ms : List Row) :
    (memberEntries v f rid n i ms).map (·.label) = ((memberEntries v f rid n i ms).map (·.key)).map (label v) := by
  induction ms generalizing i with
  | nil => rfl
  | cons m ms ih => simp only [memberEntries, List.map_cons, ih (i + 1)]

/-- the note of member `j` (0-based) of a set of `n` -/
def noteOf (f : Family) (n j : Nat) : Str :=
  match f with
  | .single => optimisedNote
  | .multi => memberNote (j + 1) n

theorem memberEntries_notes (v : Variant) (f : Family) (rid : Str) (n i : Nat) (ms : List Row) :
    (memberEntries v f rid n i ms).map (·.note) = (List.range' i ms.length).map (noteOf f n) := by
  induction ms generalizing i with
  | nil => rfl
  | cons m ms ih =>
    simp only [memberEntries, List.map_cons, List.length_cons, List.range'_succ, ih (i + 1)]
    cases f <;> rfl

theorem memberEntries_actions (v : Variant) (f : Family) (rid : Str) (n i : Nat) (ms : List Row) :
    (memberEntries v f rid n i ms).map (·.actions) = ms.map (·.actions) := by
  induction ms generalizing i with
  | nil => rfl
  | cons m ms ih => simp only [memberEntries, List.map_cons, ih (i + 1)]

theorem memberEntries_vars (v : Variant) (f : Family) (rid : Str) (n i : Nat) (ms : List Row) :
    (memberEntries v f rid n i ms).map (·.vars) = ms.map (·.vars) := by
  induction ms generalizing i with
  | nil => rfl
  | cons m ms ih => simp only [memberEntries, List.map_cons, ih (i + 1)]

/-- the (variables, actions) content of the member entries is the members' own -/
theorem memberEntries_rows (v : Variant) (f : Family) (rid : Str) (n i : Nat) (ms : List Row) :
    (memberEntries v f rid n i ms).map (fun e => (⟨e.vars, e.actions⟩ : Row)) = ms := by
  induction ms generalizing i with
  | nil => rfl
  | cons m ms ih => simp only [memberEntries, List.map_cons, ih (i + 1)]

/-- for a well-formed family (one member when `single`) the member keys are the model's `memberKeys` -/
theorem memberEntries_keys_eq (v : Variant) (f : Family) (rid : Str) (ms : List Row)
    (hf : f = .single → ms.length = 1) :
    (memberEntries v f rid ms.length 0 ms).map (·.key) = memberKeys f rid ms.length := by
  rw [memberEntries_keys]
  cases f with
  | single => rw [hf rfl]; rfl
  | multi => simp [memberKeys, idSize, List.range_eq_range']

/-! ## every entry of the map carries the variables of one of the rows -/

theorem mem_memberEntries_vars {v : Variant} {f : Family} {rid : Str} {n i : Nat} {ms : List Row} {e : Entry}
    (h : e ∈ memberEntries v f rid n i ms) : ∃ m ∈ ms, e.vars = m.vars := by
  induction ms generalizing i with
  | nil => simp [memberEntries] at h
  | cons m ms ih =>
    simp only [memberEntries, List.mem_cons] at h
    rcases h with rfl | h
    · exact ⟨m, by simp, rfl⟩
    · obtain ⟨m', hm', he⟩ := ih h
      exact ⟨m', by simp [hm'], he⟩

theorem mem_buildSummary_vars {v : Variant} {f : Family} {rid : Str} {asIs : Row} {members : List Row} {e : Entry}
    (h : e ∈ buildSummary v f rid asIs members) : ∃ row ∈ asIs :: members, e.vars = row.vars := by
  rw [buildSummary_eq, entriesInOrder, List.mem_cons] at h
  rcases h with rfl | h
  · exact ⟨asIs, by simp, rfl⟩
  · obtain ⟨m, hm, he⟩ := mem_memberEntries_vars h
    exact ⟨m, by simp [hm], he⟩

/-- the heading depends on the variable NAMES only -/
theorem headerOf_eq_of_names {a b : List (Str × Rat)} (h : a.map (·.1) = b.map (·.1)) : headerOf a = headerOf b := by
  unfold headerOf; rw [h]

/-- the keys of the map, in insertion order, are the model's `keys` (well-formed family) -/
theorem buildSummary_keys (v : Variant) (f : Family) (rid : Str) (asIs : Row) (members : List Row)
    (hf : f = .single → members.length = 1) :
    (buildSummary v f rid asIs members).map (·.key) = keys v f rid members.length := by
  rw [buildSummary_eq, entriesInOrder, List.map_cons, memberEntries_keys_eq v f rid members hf]
  rfl

theorem flatMap_eq_map_of_singleton {α β : Type} (l : List α) (f : α → List β) (g : α → β)
    (h : ∀ a ∈ l, f a = [g a]) : l.flatMap f = l.map g := by
  induction l with
  | nil => rfl
  | cons a l ih =>
    rw [List.flatMap_cons, h a (by simp), ih (fun b hb => h b (by simp [hb]))]
    rfl

end Crem.SummaryCsv
