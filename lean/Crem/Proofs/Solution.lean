import Crem.Model.Solution
import Crem.Proofs.SumInv
import Mathlib.Algebra.BigOperators.Group.List.Basic
/-!
Helper lemmas for `Properties/C11Out.lean` (the output layer `MakeEncodeable`): per-unit values lie on the
reporting grid, sums are invariant under the zero filter and under the sort, membership in the encoded list.
-/
namespace Crem.Catchment

/-- every per-planning-unit value of a state satisfying the raw-operation invariant lies on the variable's grid -/
theorem SumInv.unitVal_onGrid {D : Data} {s : State} (h : SumInv D s) (v : VarId) (p : PU) :
    OnGrid (reportingPrecision v) (unitVal s v p) := by
  have hS : ∀ {prec : Nat} {keys : List PU} {sv : SVar}, SInv prec keys sv → OnGrid prec (unitValS sv p) := by
    intro prec keys sv hi
    unfold unitValS
    cases hg : getC sv.cells p with
    | none => exact OnGrid.zero prec
    | some c => exact hi.grid _ (getC_mem hg)
  cases v
  · exact h.sed.unitVal_onGrid p
  · exact h.pn.unitVal_onGrid p
  · exact h.dn.unitVal_onGrid p
  · exact hS h.tn
  · exact hS h.ic
  · exact hS h.oc

theorem nodup_of_pusDistinct {α : Type} {s : List (PU × α)} (h : pusDistinct s = true) : (s.map (·.1)).Nodup := by
  induction s with
  | nil => exact List.nodup_nil
  | cons x xs ih =>
    obtain ⟨q, c⟩ := x
    rw [pusDistinct_cons, Bool.and_eq_true, List.all_eq_true] at h
    rw [List.map_cons, List.nodup_cons]
    refine ⟨?_, ih h.2⟩
    intro hm
    obtain ⟨r, hr, hq⟩ := List.mem_map.mp hm
    have := h.1 r hr
    simp at this
    exact this hq

theorem sum_perm_rat {l₁ l₂ : List Rat} (h : l₁.Perm l₂) : l₁.sum = l₂.sum := h.sum_eq

theorem sum_filter_ne_zero (l : List (PU × Rat)) :
    ((l.filter fun e => e.2 != 0).map (·.2)).sum = (l.map (·.2)).sum := by
  induction l with
  | nil => rfl
  | cons x xs ih =>
    by_cases hx : x.2 = 0
    · rw [List.filter_cons_of_neg (by simpa using hx), List.map_cons, List.sum_cons, ih, hx, Rat.zero_add]
    · rw [List.filter_cons_of_pos (by simpa using hx), List.map_cons, List.sum_cons, ih, List.map_cons, List.sum_cons]

theorem insertPU_perm (e : PU × Rat) (l : List (PU × Rat)) : (insertPU e l).Perm (e :: l) := by
  induction l with
  | nil => exact List.Perm.refl _
  | cons x xs ih =>
    unfold insertPU
    split
    · exact List.Perm.refl _
    · exact (List.Perm.cons x ih).trans (List.Perm.swap e x xs)

theorem sortPU_perm (l : List (PU × Rat)) : (sortPU l).Perm l := by
  induction l with
  | nil => exact List.Perm.refl _
  | cons x xs ih => exact (insertPU_perm x (sortPU xs)).trans (List.Perm.cons x ih)

theorem insertPU_pairwise (e : PU × Rat) {l : List (PU × Rat)} (h : l.Pairwise (fun a b => a.1 ≤ b.1)) :
    (insertPU e l).Pairwise (fun a b => a.1 ≤ b.1) := by
  induction l with
  | nil => exact List.pairwise_singleton _ _
  | cons x xs ih =>
    unfold insertPU
    rw [List.pairwise_cons] at h
    split
    · next hle =>
      refine List.pairwise_cons.mpr ⟨?_, List.pairwise_cons.mpr h⟩
      intro y hy
      rcases List.mem_cons.mp hy with rfl | hy
      · exact hle
      · exact Int.le_trans hle (h.1 y hy)
    · next hnle =>
      refine List.pairwise_cons.mpr ⟨?_, ih h.2⟩
      intro y hy
      rcases List.mem_cons.mp ((insertPU_perm e xs).mem_iff.mp hy) with rfl | hy
      · exact Int.le_of_lt (Int.lt_of_not_ge hnle)
      · exact h.1 y hy

theorem sortPU_pairwise (l : List (PU × Rat)) : (sortPU l).Pairwise (fun a b => a.1 ≤ b.1) := by
  induction l with
  | nil => exact List.Pairwise.nil
  | cons x xs ih => exact insertPU_pairwise x ih

theorem encodeUnits_perm (prec : Nat) (units : List PU) (val : PU → Rat) :
    (encodeUnits prec units val).Perm ((units.map fun p => (p, rnd prec (val p))).filter fun e => e.2 != 0) :=
  sortPU_perm _

/-- the sum of the listed figures is the sum of the rounded per-unit values over all units -/
theorem encodeUnits_sum (prec : Nat) (units : List PU) (val : PU → Rat) :
    ((encodeUnits prec units val).map (·.2)).sum = (units.map fun p => rnd prec (val p)).sum := by
  rw [sum_perm_rat ((encodeUnits_perm prec units val).map (·.2)), sum_filter_ne_zero, List.map_map]
  rfl

/-- what is listed: exactly the units whose rounded value is not zero, each with its rounded value -/
theorem mem_encodeUnits {prec : Nat} {units : List PU} {val : PU → Rat} {p : PU} {x : Rat} :
    (p, x) ∈ encodeUnits prec units val ↔ p ∈ units ∧ x = rnd prec (val p) ∧ x ≠ 0 := by
  rw [(encodeUnits_perm prec units val).mem_iff, List.mem_filter, List.mem_map]
  constructor
  · rintro ⟨⟨q, hq, he⟩, hne⟩
    have h1 : q = p := (Prod.mk.inj he).1
    have h2 : rnd prec (val q) = x := (Prod.mk.inj he).2
    subst h1
    exact ⟨hq, h2.symm, by simpa using hne⟩
  · rintro ⟨hp, hx, hne⟩
    exact ⟨⟨p, hp, by rw [hx]⟩, by simpa using hne⟩

/-- the list is sorted by planning-unit id -/
theorem encodeUnits_sorted (prec : Nat) (units : List PU) (val : PU → Rat) :
    (encodeUnits prec units val).Pairwise (fun a b => a.1 ≤ b.1) := sortPU_pairwise _

/-- with distinct unit ids the ids of the list are distinct -/
theorem encodeUnits_keys_nodup {prec : Nat} {units : List PU} (val : PU → Rat) (hd : units.Nodup) :
    ((encodeUnits prec units val).map (·.1)).Nodup := by
  refine ((encodeUnits_perm prec units val).map (·.1)).nodup_iff.mpr ?_
  have hsub : (((units.map fun p => (p, rnd prec (val p))).filter fun e => e.2 != 0).map (·.1)).Sublist units := by
    have h1 : (((units.map fun p => (p, rnd prec (val p))).filter fun e => e.2 != 0).map (·.1)).Sublist
        ((units.map fun p => (p, rnd prec (val p))).map (·.1)) := List.filter_sublist.map _
    have h2 : ((units.map fun p => (p, rnd prec (val p))).map (·.1)) = units := by
      rw [List.map_map]
      exact List.map_id'' (fun _ => rfl) units
    rwa [h2] at h1
  exact hd.sublist hsub

/-- reading a unit off a list with distinct ids: the listed figure when listed -/
theorem find_of_mem_nodup {l : List (PU × Rat)} (hd : (l.map (·.1)).Nodup) {p : PU} {x : Rat} (h : (p, x) ∈ l) :
    l.find? (fun e => e.1 == p) = some (p, x) := by
  induction l with
  | nil => cases h
  | cons e es ih =>
    rw [List.map_cons, List.nodup_cons] at hd
    rcases List.mem_cons.mp h with he | he
    · subst he; simp
    · have hne : e.1 ≠ p := by
        intro heq
        exact hd.1 (heq ▸ List.mem_map_of_mem (f := (·.1)) he)
      rw [List.find?_cons_of_neg (by simpa using hne)]
      exact ih hd.2 he

/-- with distinct ids the LAST listed figure of a unit is the FIRST (the only) one: `planningUnitValueList` reads what
`EncVar.unit` reads -/
theorem unitLast_eq_find {l : List (PU × Rat)} (hd : (l.map (·.1)).Nodup) (p : PU) :
    unitLast l p = match l.find? (fun x => x.1 == p) with | some x => x.2 | none => 0 := by
  have gen : ∀ (l : List (PU × Rat)) (acc : Rat), (l.map (·.1)).Nodup →
      l.foldl (fun acc x => if x.1 = p then x.2 else acc) acc =
        match l.find? (fun x => x.1 == p) with | some x => x.2 | none => acc := by
    intro l
    induction l with
    | nil => intro acc _; rfl
    | cons e es ih =>
      intro acc hd
      rw [List.map_cons, List.nodup_cons] at hd
      rw [List.foldl_cons]
      by_cases he : e.1 = p
      · rw [if_pos he, List.find?_cons_of_pos (by simpa using he), ih _ hd.2]
        have hnone : es.find? (fun x => x.1 == p) = none := by
          rw [List.find?_eq_none]
          intro x hx hxp
          have : x.1 = p := by simpa using hxp
          exact hd.1 (he ▸ this ▸ List.mem_map_of_mem (f := (·.1)) hx)
        rw [hnone]
      · rw [if_neg he, List.find?_cons_of_neg (by simpa using he), ih _ hd.2]
  exact gen l 0 hd

/-! ### the management-actions matrix -/

theorem activeIn_cons (a : Action) (as : List Action) (b : Bool) (bs : List Bool) (p : PU) (t : ActType) :
    activeIn (a :: as) (b :: bs) p t = ((b && decide (a.pu = p) && decide (a.typ = t)) || activeIn as bs p t) := by
  simp [activeIn, List.zip_cons_cons, List.any_cons]

/-- no action of `as` has the key (p, t): nothing of that key is active among them -/
theorem activeIn_false_of_no_key {as : List Action} {bs : List Bool} {p : PU} {t : ActType}
    (h : ∀ a ∈ as, ¬ (a.pu = p ∧ a.typ = t)) : activeIn as bs p t = false := by
  induction as generalizing bs with
  | nil => simp [activeIn]
  | cons a as ih =>
    cases bs with
    | nil => simp [activeIn]
    | cons b bs =>
      rw [activeIn_cons, ih (fun a' ha' => h a' (List.mem_cons_of_mem _ ha'))]
      have := h a List.mem_cons_self
      by_cases h1 : a.pu = p <;> by_cases h2 : a.typ = t <;> simp_all

/-- with distinct (unit, type) keys the cell of an action's own unit and type IS that action's flag -/
theorem activeIn_own {acts : List Action} (hK : KeysDistinct acts) {flags : List Bool}
    (hl : flags.length = acts.length) (i : Nat) (hi : i < acts.length) :
    activeIn acts flags acts[i].pu acts[i].typ = flags[i]'(hl ▸ hi) := by
  induction acts generalizing flags i with
  | nil => cases hi
  | cons a as ih =>
    cases flags with
    | nil => cases hl
    | cons b bs =>
      have hK' : (as.all (fun a' => !(decide (a.pu = a'.pu) && decide (a.typ = a'.typ))) && keysDistinct as) = true := hK
      rw [Bool.and_eq_true, List.all_eq_true] at hK'
      rw [activeIn_cons]
      cases i with
      | zero =>
        have hno : activeIn as bs a.pu a.typ = false := by
          apply activeIn_false_of_no_key
          intro a' ha' hk
          have := hK'.1 a' ha'
          simp [hk.1, hk.2] at this
        simp [hno]
      | succ j =>
        have hj : j < as.length := Nat.lt_of_succ_lt_succ hi
        have hne : ¬ (a.pu = as[j].pu ∧ a.typ = as[j].typ) := by
          intro hk
          have := hK'.1 as[j] (List.getElem_mem hj)
          simp [hk.1, hk.2] at this
        have hfirst : (b && decide (a.pu = as[j].pu) && decide (a.typ = as[j].typ)) = false := by
          by_cases h1 : a.pu = as[j].pu <;> by_cases h2 : a.typ = as[j].typ <;> simp_all
        simp only [List.getElem_cons_succ]
        rw [hfirst, Bool.false_or]
        exact ih hK'.2 (Nat.succ.inj hl) j hj

theorem mem_typesPresent {acts : List Action} {a : Action} (ha : a ∈ acts) : a.typ ∈ typesPresent acts := by
  unfold typesPresent
  rw [List.mem_filter]
  refine ⟨by cases a.typ <;> simp [actionTypes], ?_⟩
  rw [List.any_eq_true]
  exact ⟨a, ha, by simp⟩

end Crem.Catchment
