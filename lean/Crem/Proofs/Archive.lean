import Crem.Model.Archive
import Crem.Proofs.Dominance
/-! Helper lemmas for C05: generic in the dominance test (any strict partial order). Core Lean only. -/
namespace Crem.Archive

variable {dom : List Int → List Int → Bool}

/-- strict partial order hypotheses on dominance (proved for the real one in C17) -/
structure StrictPO (dom : List Int → List Int → Bool) : Prop where
  irrefl : ∀ x, dom x x = false
  trans : ∀ x y z, dom x y = true → dom y z = true → dom x z = true

def NonDom (dom : List Int → List Int → Bool) (a : List Entry) : Prop :=
  ∀ m ∈ a, ∀ n ∈ a, dom m.vec n.vec = false

def NoDup (a : List Entry) : Prop := a.Pairwise (fun m n => m.act ≠ n.act)

theorem cannot_none_iff (a : List Entry) (c : Entry) :
    cannot dom a c = none ↔ ∀ m ∈ a, dom m.vec c.vec = false ∧ m.act ≠ c.act := by
  induction a with
  | nil => simp [cannot]
  | cons m ms ih =>
    simp only [cannot, List.mem_cons, forall_eq_or_imp]
    split
    · simp_all
    · split
      · simp_all
      · simp_all

theorem cannot_rejDominated (a : List Entry) (c : Entry) (h : cannot dom a c = some .rejDominated) :
    ∃ m ∈ a, dom m.vec c.vec = true := by
  induction a with
  | nil => simp [cannot] at h
  | cons m ms ih =>
    simp only [cannot] at h
    split at h
    · exact ⟨m, by simp, by assumption⟩
    · split at h
      · simp at h
      · obtain ⟨n, hn, hd⟩ := ih h
        exact ⟨n, by simp [hn], hd⟩

theorem cannot_rejDuplicate (a : List Entry) (c : Entry) (h : cannot dom a c = some .rejDuplicate) :
    ∃ m ∈ a, m.act = c.act := by
  induction a with
  | nil => simp [cannot] at h
  | cons m ms ih =>
    simp only [cannot] at h
    split at h
    · simp at h
    · split at h
      · exact ⟨m, by simp, by assumption⟩
      · obtain ⟨n, hn, hd⟩ := ih h
        exact ⟨n, by simp [hn], hd⟩

theorem cannot_some_cases (a : List Entry) (c : Entry) (r : Res) (h : cannot dom a c = some r) :
    r = .rejDominated ∨ r = .rejDuplicate := by
  induction a with
  | nil => simp [cannot] at h
  | cons m ms ih =>
    simp only [cannot] at h
    split at h
    · simp at h; exact Or.inl h.symm
    · split at h
      · simp at h; exact Or.inr h.symm
      · exact ih h

/-- invariant preservation for an offer -/
theorem attempt_nonDom (spo : StrictPO dom) (a : List Entry) (c : Entry) (h : NonDom dom a) :
    NonDom dom (attempt dom a c).2 := by
  unfold attempt
  split
  · exact h
  · rename_i hc
    rw [cannot_none_iff] at hc
    intro m hm n hn
    simp only [List.mem_append, List.mem_filter, List.mem_singleton, Bool.not_eq_true'] at hm hn
    rcases hm with ⟨hm, hcm⟩ | rfl <;> rcases hn with ⟨hn, hcn⟩ | rfl
    · exact h m hm n hn
    · exact (hc m hm).1
    · exact hcn
    · exact spo.irrefl _

theorem attempt_noDup (a : List Entry) (c : Entry) (h : NoDup a) : NoDup (attempt dom a c).2 := by
  unfold attempt
  split
  · exact h
  · rename_i hc
    rw [cannot_none_iff] at hc
    unfold NoDup
    rw [List.pairwise_append]
    refine ⟨List.Pairwise.filter _ h, by simp, ?_⟩
    intro m hm n hn
    simp only [List.mem_filter] at hm
    simp only [List.mem_singleton] at hn
    subst hn
    exact (hc m hm.1).2

/-- forced store right after a refusal-as-dominated keeps non-dominance -/
theorem force_nonDom (spo : StrictPO dom) (a : List Entry) (c : Entry) (h : NonDom dom a)
    (hr : ∃ m ∈ a, dom m.vec c.vec = true) : NonDom dom (force dom a c).2 := by
  obtain ⟨w, hw, hwd⟩ := hr
  intro m hm n hn
  simp only [force, List.mem_append, List.mem_filter, List.mem_singleton, Bool.not_eq_true'] at hm hn
  rcases hm with ⟨hm, hcm⟩ | rfl <;> rcases hn with ⟨hn, hcn⟩ | rfl
  · exact h m hm n hn
  · exact hcm
  · -- c dominates a surviving member n: then w ≻ c ≻ n contradicts NonDom
    cases hcn' : dom m.vec n.vec with
    | false => rfl
    | true =>
      have := spo.trans _ _ _ hwd hcn'
      rw [h w hw n hn] at this
      exact absurd this (by simp)
  · exact spo.irrefl _

def Consistent (cs : List Entry) : Prop := ∀ x ∈ cs, ∀ y ∈ cs, x.act = y.act → x.vec = y.vec

theorem mem_attempt_of_mem (a : List Entry) (c e : Entry) (h : e ∈ (attempt dom a c).2) : e ∈ a ∨ e = c := by
  unfold attempt at h
  split at h
  · exact Or.inl h
  · simp only [List.mem_append, List.mem_filter, List.mem_singleton] at h
    rcases h with ⟨h, _⟩ | h
    · exact Or.inl h
    · exact Or.inr h


/-- invariant relating an archive `a` to the list `seen` of candidates offered so far -/
structure FrontInv (dom : List Int → List Int → Bool) (seen a : List Entry) : Prop where
  sub : ∀ e ∈ a, e ∈ seen
  nd : NonDom dom a
  cover : ∀ c ∈ seen, c ∈ a ∨ ∃ m ∈ a, dom m.vec c.vec = true

theorem frontInv_step (spo : StrictPO dom) (seen a : List Entry) (c : Entry)
    (hcons : Consistent (seen ++ [c])) (h : FrontInv dom seen a) :
    FrontInv dom (seen ++ [c]) (attempt dom a c).2 := by
  refine ⟨?_, attempt_nonDom spo a c h.nd, ?_⟩
  · intro e he
    rcases mem_attempt_of_mem a c e he with h1 | h1
    · exact List.mem_append_left _ (h.sub e h1)
    · simp [h1]
  · intro x hx
    -- what happened to the archive
    unfold attempt
    split
    · -- refused: archive unchanged
      rename_i r hr
      rcases List.mem_append.mp hx with hx | hx
      · exact h.cover x hx
      · simp only [List.mem_singleton] at hx; subst hx
        rcases cannot_some_cases a x r hr with rfl | rfl
        · exact Or.inr (cannot_rejDominated a x hr)
        · obtain ⟨m, hm, hact⟩ := cannot_rejDuplicate a x hr
          -- same action set, so same vector, so the same entry
          have hv : m.vec = x.vec := hcons m (List.mem_append_left _ (h.sub m hm)) x (by simp) hact
          have : m = x := by cases m; cases x; simp_all
          exact Or.inl (this ▸ hm)
    · -- stored
      rename_i hc
      simp only [List.mem_append, List.mem_filter, List.mem_singleton, Bool.not_eq_true']
      rcases List.mem_append.mp hx with hx | hx
      · rcases h.cover x hx with hxa | ⟨m, hm, hmd⟩
        · rcases Bool.eq_false_or_eq_true (dom c.vec x.vec) with hcx | hcx
          · exact Or.inr ⟨c, Or.inr rfl, hcx⟩
          · exact Or.inl (Or.inl ⟨hxa, hcx⟩)
        · rcases Bool.eq_false_or_eq_true (dom c.vec m.vec) with hcm | hcm
          · exact Or.inr ⟨c, Or.inr rfl, spo.trans _ _ _ hcm hmd⟩
          · exact Or.inr ⟨m, Or.inl ⟨hm, hcm⟩, hmd⟩
      · simp only [List.mem_singleton] at hx; subst hx
        exact Or.inl (Or.inr rfl)

theorem offers_frontInv (spo : StrictPO dom) : ∀ (rest seen a : List Entry),
    Consistent (seen ++ rest) → FrontInv dom seen a →
    FrontInv dom (seen ++ rest) (rest.foldl (fun a c => (attempt dom a c).2) a)
  | [], seen, a, _, h => by simpa using h
  | c :: rest, seen, a, hcons, h => by
    have hc' : Consistent (seen ++ [c]) := by
      intro x hx y hy
      have hx' : x ∈ seen ++ c :: rest := by
        rcases List.mem_append.mp hx with h1 | h1
        · exact List.mem_append_left _ h1
        · exact List.mem_append_right _ (by simp at h1; simp [h1])
      have hy' : y ∈ seen ++ c :: rest := by
        rcases List.mem_append.mp hy with h1 | h1
        · exact List.mem_append_left _ h1
        · exact List.mem_append_right _ (by simp at h1; simp [h1])
      exact hcons x hx' y hy'
    have := offers_frontInv spo rest (seen ++ [c]) _ (by simpa using hcons) (frontInv_step spo seen a c hc' h)
    simpa using this

/-- with offers only, the archive is exactly the Pareto-optimal subset of everything offered -/
theorem pareto_front_generic (spo : StrictPO dom) (cs : List Entry) (hcons : Consistent cs) (e : Entry) :
    e ∈ offers dom cs ↔ (e ∈ cs ∧ ¬ ∃ d ∈ cs, dom d.vec e.vec = true) := by
  have inv : FrontInv dom cs (offers dom cs) := by
    have := offers_frontInv (dom := dom) spo cs [] [] (by simpa using hcons)
      ⟨by simp, by intro m hm; simp at hm, by simp⟩
    simpa [offers] using this
  constructor
  · intro he
    refine ⟨inv.sub e he, ?_⟩
    rintro ⟨d, hd, hde⟩
    rcases inv.cover d hd with hda | ⟨m, hm, hmd⟩
    · have := inv.nd d hda e he; simp [this] at hde
    · have := inv.nd m hm e he
      rw [spo.trans _ _ _ hmd hde] at this; simp at this
  · rintro ⟨he, hnd⟩
    rcases inv.cover e he with h | ⟨m, hm, hme⟩
    · exact h
    · exact absurd ⟨m, inv.sub m hm, hme⟩ hnd


/-! ### stored / forced specifications -/

theorem attempt_of_cannot_none (a : List Entry) (c : Entry) (h : cannot dom a c = none) :
    (attempt dom a c).2 = a.filter (fun m => !dom c.vec m.vec) ++ [c] ∧
    ((attempt dom a c).1 = .storedNoDom ∨ (attempt dom a c).1 = .storedReplacing) := by
  unfold attempt
  rw [h]
  refine ⟨rfl, ?_⟩
  simp only
  split
  · exact Or.inl rfl
  · exact Or.inr rfl

theorem attempt_of_cannot_some (a : List Entry) (c : Entry) (r : Res) (h : cannot dom a c = some r) :
    attempt dom a c = (r, a) := by
  unfold attempt; rw [h]

theorem attempt_res_cases (a : List Entry) (c : Entry) :
    (cannot dom a c = none ∧ ((attempt dom a c).1 = .storedNoDom ∨ (attempt dom a c).1 = .storedReplacing)) ∨
    (cannot dom a c = some .rejDominated ∧ attempt dom a c = (.rejDominated, a)) ∨
    (cannot dom a c = some .rejDuplicate ∧ attempt dom a c = (.rejDuplicate, a)) := by
  cases h : cannot dom a c with
  | none => exact Or.inl ⟨rfl, (attempt_of_cannot_none a c h).2⟩
  | some r =>
    rcases cannot_some_cases a c r h with rfl | rfl
    · exact Or.inr (Or.inl ⟨rfl, attempt_of_cannot_some a c _ h⟩)
    · exact Or.inr (Or.inr ⟨rfl, attempt_of_cannot_some a c _ h⟩)

/-- `storedNoDom` is reported exactly when nothing was evicted -/
theorem filter_length_eq_iff (a : List Entry) (p : Entry → Bool) :
    (a.filter p).length = a.length ↔ ∀ m ∈ a, p m = true := by
  induction a with
  | nil => simp
  | cons x xs ih =>
    simp only [List.filter_cons]
    split
    · rename_i hx
      simp [ih, hx]
    · rename_i hx
      have := List.length_filter_le p xs
      simp only [List.length_cons, List.mem_cons, forall_eq_or_imp]
      constructor
      · intro h; omega
      · intro h; exact absurd h.1 hx

/-! ### congruence: the functions use the dominance test only on the vectors at hand -/

theorem cannot_congr {dom dom' : List Int → List Int → Bool} (a : List Entry) (c : Entry)
    (h : ∀ m ∈ a, dom m.vec c.vec = dom' m.vec c.vec) : cannot dom a c = cannot dom' a c := by
  induction a with
  | nil => rfl
  | cons m ms ih =>
    simp only [cannot]
    rw [h m (by simp), ih (fun n hn => h n (by simp [hn]))]

theorem attempt_congr {dom dom' : List Int → List Int → Bool} (a : List Entry) (c : Entry)
    (h1 : ∀ m ∈ a, dom m.vec c.vec = dom' m.vec c.vec)
    (h2 : ∀ m ∈ a, dom c.vec m.vec = dom' c.vec m.vec) : attempt dom a c = attempt dom' a c := by
  have hf : a.filter (fun m => !dom c.vec m.vec) = a.filter (fun m => !dom' c.vec m.vec) := by
    apply List.filter_congr
    intro m hm; rw [h2 m hm]
  unfold attempt
  rw [cannot_congr a c h1, hf]

theorem force_congr {dom dom' : List Int → List Int → Bool} (a : List Entry) (c : Entry)
    (h1 : ∀ m ∈ a, dom m.vec c.vec = dom' m.vec c.vec) : force dom a c = force dom' a c := by
  have hf : a.filter (fun m => !dom m.vec c.vec) = a.filter (fun m => !dom' m.vec c.vec) := by
    apply List.filter_congr
    intro m hm; rw [h1 m hm]
  unfold force
  rw [hf]

/-! ### the dominance test restricted to dimension `d` is a strict partial order -/

open Crem.Dominance in
/-- `Float64Vector.Dominates` on vectors of dimension `d`, false elsewhere -/
def domN (d : Nat) (x y : List Int) : Bool :=
  if x.length = d ∧ y.length = d then dominates x y else false

open Crem.Dominance in
theorem domN_eq (d : Nat) (x y : List Int) (hx : x.length = d) (hy : y.length = d) :
    domN d x y = dominates x y := by simp [domN, hx, hy]

/-! ### forced store right after a refusal keeps the archive duplicate-free (needs consistency) -/

theorem force_noDup (a : List Entry) (c : Entry) (h : NoDup a) (hnd : NonDom dom a)
    (hr : ∃ m ∈ a, dom m.vec c.vec = true)
    (hcons : ∀ m ∈ a, m.act = c.act → m.vec = c.vec) : NoDup (force dom a c).2 := by
  obtain ⟨w, hw, hwd⟩ := hr
  unfold force NoDup
  rw [List.pairwise_append]
  refine ⟨List.Pairwise.filter _ h, by simp, ?_⟩
  intro m hm n hn
  simp only [List.mem_filter] at hm
  simp only [List.mem_singleton] at hn
  subst hn
  intro hact
  have hv := hcons m hm.1 hact
  have := hnd w hw m hm.1
  rw [hv, hwd] at this
  exact absurd this (by simp)

theorem mem_force_of_mem (a : List Entry) (c e : Entry) (h : e ∈ (force dom a c).2) : e ∈ a ∨ e = c := by
  simp only [force, List.mem_append, List.mem_filter, List.mem_singleton] at h
  rcases h with ⟨h, _⟩ | h
  · exact Or.inl h
  · exact Or.inr h


open Crem.Dominance in
theorem domN_strictPO (d : Nat) : StrictPO (domN d) where
  irrefl x := by
    unfold domN; split
    · exact dominates_irrefl' x
    · rfl
  trans x y z h1 h2 := by
    unfold domN at h1 h2 ⊢
    split at h1
    · split at h2
      · rename_i hxy hyz
        rw [if_pos ⟨hxy.1, hyz.2⟩]
        exact dominates_trans' x y z (hxy.1.trans hxy.2.symm) (hyz.1.trans hyz.2.symm) h1 h2
      · simp at h2
    · simp at h1


/-! ### the explorer's protocol: offer, and force only what was just refused as dominated -/

/-- run a protocol history from archive `a`: each step offers a candidate; the flag says whether a
refusal-as-dominated is followed by a forced store -/
def runProtocol (dom : List Int → List Int → Bool) (a : List Entry) (steps : List (Bool × Entry)) : List Entry :=
  steps.foldl (fun a s => offer dom s.1 a s.2) a

theorem mem_offer_of_mem (b : Bool) (a : List Entry) (c e : Entry) (h : e ∈ offer dom b a c) : e ∈ a ∨ e = c := by
  unfold offer at h
  rcases attempt_res_cases (dom := dom) a c with ⟨_, _⟩ | ⟨_, h2⟩ | ⟨_, h2⟩
  · split at h
    · rename_i heq
      split at h
      · rcases mem_force_of_mem _ c e h with h' | h'
        · have : e ∈ (attempt dom a c).2 := by rw [heq]; exact h'
          exact mem_attempt_of_mem a c e this
        · exact Or.inr h'
      · have : e ∈ (attempt dom a c).2 := by rw [heq]; exact h
        exact mem_attempt_of_mem a c e this
    · rename_i heq
      have : e ∈ (attempt dom a c).2 := by rw [heq]; exact h
      exact mem_attempt_of_mem a c e this
  · rw [h2] at h
    simp only at h
    split at h
    · rcases mem_force_of_mem _ c e h with h' | h'
      · exact Or.inl h'
      · exact Or.inr h'
    · exact Or.inl h
  · rw [h2] at h
    exact Or.inl h

/-- protocol invariant -/
structure ProtoInv (dom : List Int → List Int → Bool) (seen a : List Entry) : Prop where
  sub : ∀ e ∈ a, e ∈ seen
  nd : NonDom dom a
  nodup : NoDup a

theorem protoInv_step (spo : StrictPO dom) (seen a : List Entry) (b : Bool) (c : Entry)
    (hcons : Consistent (seen ++ [c])) (h : ProtoInv dom seen a) :
    ProtoInv dom (seen ++ [c]) (offer dom b a c) := by
  refine ⟨?_, ?_, ?_⟩
  · intro e he
    rcases mem_offer_of_mem b a c e he with h1 | h1
    · exact List.mem_append_left _ (h.sub e h1)
    · simp [h1]
  all_goals
    unfold offer
    rcases attempt_res_cases (dom := dom) a c with ⟨hc, hres⟩ | ⟨hc, h2⟩ | ⟨hc, h2⟩
  · -- stored
    have hnd := attempt_nonDom spo a c h.nd
    split
    · rename_i heq
      rw [heq] at hres; simp at hres
    · rename_i heq
      rw [heq] at hnd; exact hnd
  · rw [h2]; simp only
    split
    · exact force_nonDom spo a c h.nd (cannot_rejDominated a c hc)
    · exact h.nd
  · rw [h2]; exact h.nd
  · have hnd := attempt_noDup (dom := dom) a c h.nodup
    split
    · rename_i heq
      rw [heq] at hres; simp at hres
    · rename_i heq
      rw [heq] at hnd; exact hnd
  · rw [h2]; simp only
    split
    · refine force_noDup a c h.nodup h.nd (cannot_rejDominated a c hc) ?_
      intro m hm hact
      exact hcons m (List.mem_append_left _ (h.sub m hm)) c (by simp) hact
    · exact h.nodup
  · rw [h2]; exact h.nodup

theorem consistent_prefix (seen : List Entry) (c : Entry) (rest : List Entry)
    (hcons : Consistent (seen ++ c :: rest)) : Consistent (seen ++ [c]) := by
  intro x hx y hy
  have hx' : x ∈ seen ++ c :: rest := by
    rcases List.mem_append.mp hx with h1 | h1
    · exact List.mem_append_left _ h1
    · exact List.mem_append_right _ (by simp at h1; simp [h1])
  have hy' : y ∈ seen ++ c :: rest := by
    rcases List.mem_append.mp hy with h1 | h1
    · exact List.mem_append_left _ h1
    · exact List.mem_append_right _ (by simp at h1; simp [h1])
  exact hcons x hx' y hy'

theorem runProtocol_inv (spo : StrictPO dom) : ∀ (steps : List (Bool × Entry)) (seen a : List Entry),
    Consistent (seen ++ steps.map (·.2)) → ProtoInv dom seen a →
    ProtoInv dom (seen ++ steps.map (·.2)) (runProtocol dom a steps)
  | [], seen, a, _, h => by simpa [runProtocol] using h
  | s :: steps, seen, a, hcons, h => by
    have hc' : Consistent (seen ++ [s.2]) := consistent_prefix seen s.2 (steps.map (·.2)) (by simpa using hcons)
    have := runProtocol_inv spo steps (seen ++ [s.2]) _ (by simpa using hcons) (protoInv_step spo seen a s.1 s.2 hc' h)
    simpa [runProtocol] using this

/-! ### congruence lifted to folds over candidates of one dimension -/

def Dim (d : Nat) (a : List Entry) : Prop := ∀ m ∈ a, m.vec.length = d

theorem Dim.attempt {d : Nat} {a : List Entry} {c : Entry} (ha : Dim d a) (hc : c.vec.length = d) :
    Dim d (attempt dom a c).2 := by
  intro e he
  rcases mem_attempt_of_mem a c e he with h | h
  · exact ha e h
  · rw [h]; exact hc

theorem Dim.offer {d : Nat} {a : List Entry} {c : Entry} {b : Bool} (ha : Dim d a) (hc : c.vec.length = d) :
    Dim d (offer dom b a c) := by
  intro e he
  rcases mem_offer_of_mem b a c e he with h | h
  · exact ha e h
  · rw [h]; exact hc

open Crem.Dominance in
theorem attempt_real_eq (d : Nat) (a : List Entry) (c : Entry) (ha : Dim d a) (hc : c.vec.length = d) :
    attempt dominates a c = attempt (domN d) a c :=
  attempt_congr a c (fun m hm => (domN_eq d _ _ (ha m hm) hc).symm) (fun m hm => (domN_eq d _ _ hc (ha m hm)).symm)

open Crem.Dominance in
theorem force_real_eq (d : Nat) (a : List Entry) (c : Entry) (ha : Dim d a) (hc : c.vec.length = d) :
    force dominates a c = force (domN d) a c :=
  force_congr a c (fun m hm => (domN_eq d _ _ (ha m hm) hc).symm)

open Crem.Dominance in
theorem offer_real_eq (d : Nat) (b : Bool) (a : List Entry) (c : Entry) (ha : Dim d a) (hc : c.vec.length = d) :
    offer dominates b a c = offer (domN d) b a c := by
  unfold offer
  rw [attempt_real_eq d a c ha hc]
  have hd : Dim d (attempt (domN d) a c).2 := Dim.attempt ha hc
  split <;> rename_i heq
  · rw [heq] at hd
    simp only at hd
    rw [force_real_eq d _ c hd hc]
  · rfl

open Crem.Dominance in
theorem offers_real_eq (d : Nat) : ∀ (cs a : List Entry), Dim d a → Dim d cs →
    cs.foldl (fun a c => (attempt dominates a c).2) a = cs.foldl (fun a c => (attempt (domN d) a c).2) a
  | [], _, _, _ => rfl
  | c :: cs, a, ha, hcs => by
    simp only [List.foldl_cons]
    have hc : c.vec.length = d := hcs c (by simp)
    rw [attempt_real_eq d a c ha hc]
    exact offers_real_eq d cs _ (Dim.attempt ha hc) (fun m hm => hcs m (by simp [hm]))

open Crem.Dominance in
theorem runProtocol_real_eq (d : Nat) : ∀ (steps : List (Bool × Entry)) (a : List Entry), Dim d a →
    Dim d (steps.map (·.2)) → runProtocol dominates a steps = runProtocol (domN d) a steps
  | [], _, _, _ => rfl
  | s :: steps, a, ha, hcs => by
    simp only [runProtocol, List.foldl_cons]
    have hc : s.2.vec.length = d := hcs s.2 (by simp)
    rw [offer_real_eq d s.1 a s.2 ha hc]
    exact runProtocol_real_eq d steps _ (Dim.offer ha hc) (fun m hm => hcs m (by simp at hm ⊢; exact Or.inr hm))

open Crem.Dominance in
theorem nonDom_real_iff (d : Nat) (a : List Entry) (ha : Dim d a) :
    NonDom dominates a ↔ NonDom (domN d) a := by
  constructor
  · intro h m hm n hn; rw [domN_eq d _ _ (ha m hm) (ha n hn)]; exact h m hm n hn
  · intro h m hm n hn; rw [← domN_eq d _ _ (ha m hm) (ha n hn)]; exact h m hm n hn

/-! ### a held action set is refused as a duplicate (needs non-dominance and consistency) -/

/-- if the archive is non-dominated and every member with the candidate's action set carries the
candidate's vector (C01), a candidate whose action set is held is refused *as a duplicate*: no member
can dominate it, because that member would dominate the holder -/
theorem cannot_of_held (a : List Entry) (c : Entry) (hnd : NonDom dom a)
    (hcons : ∀ m ∈ a, m.act = c.act → m.vec = c.vec) (hheld : ∃ m ∈ a, m.act = c.act) :
    cannot dom a c = some .rejDuplicate := by
  obtain ⟨m, hm, hact⟩ := hheld
  cases hc : cannot dom a c with
  | none => exact absurd hact (((cannot_none_iff a c).mp hc) m hm).2
  | some r =>
    rcases cannot_some_cases a c r hc with rfl | rfl
    · obtain ⟨w, hw, hwd⟩ := cannot_rejDominated a c hc
      have := hnd w hw m hm
      rw [hcons m hm hact, hwd] at this
      exact absurd this (by simp)
    · rfl

/-! ### the archive's own self-check accepts every non-dominated archive -/

theorem isNonDominantAsWritten_of_nonDom (a : List Entry) (h : NonDom dom a) :
    isNonDominantAsWritten dom a = true := by
  unfold isNonDominantAsWritten
  simp only [List.all_eq_true]
  intro i _ j _
  split
  · split
    · rename_i x y hx hy
      have hxm := List.mem_of_getElem? hx
      have hym := List.mem_of_getElem? hy
      simp [h x hxm y hym, h y hym x hxm]
    · rfl
  · rfl

/-! ### storage order is irrelevant to the invariant (`SelectRandomIsolatedModel` sorts in place) -/

theorem NonDom.perm {a b : List Entry} (hp : a.Perm b) (h : NonDom dom a) : NonDom dom b :=
  fun m hm n hn => h m (hp.mem_iff.mpr hm) n (hp.mem_iff.mpr hn)

theorem NoDup.perm {a b : List Entry} (hp : a.Perm b) (h : NoDup a) : NoDup b :=
  (hp.pairwise_iff (R := fun m n : Entry => m.act ≠ n.act) (fun h => Ne.symm h)).mp h

/-! ### an offer (with or without the forced store) never leaves the archive empty -/

theorem attempt_ne_nil (a : List Entry) (c : Entry) : (attempt dom a c).2 ≠ [] := by
  rcases attempt_res_cases (dom := dom) a c with ⟨hc, _⟩ | ⟨hc, h2⟩ | ⟨hc, h2⟩
  · rw [(attempt_of_cannot_none a c hc).1]; simp
  · obtain ⟨m, hm, _⟩ := cannot_rejDominated a c hc
    rw [h2]; exact List.ne_nil_of_mem hm
  · obtain ⟨m, hm, _⟩ := cannot_rejDuplicate a c hc
    rw [h2]; exact List.ne_nil_of_mem hm

theorem force_ne_nil (a : List Entry) (c : Entry) : (force dom a c).2 ≠ [] := by simp [force]

theorem offer_ne_nil (b : Bool) (a : List Entry) (c : Entry) : offer dom b a c ≠ [] := by
  have h := attempt_ne_nil (dom := dom) a c
  unfold offer
  split
  · split
    · exact force_ne_nil _ c
    · rename_i heq _; rw [heq] at h; exact h
  · rename_i heq; rw [heq] at h; exact h

end Crem.Archive
