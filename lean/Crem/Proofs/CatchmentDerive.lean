import Crem.Model.CatchmentDerive
import Crem.Model.CatchmentSpec
/-
Helper lemmas for `Properties/Derive.lean`: the data crem derives from well-formed tables satisfies
the hypotheses `InitConsistent` and `KeysDistinct` of the catchment theorems.
-/
namespace Crem.Catchment

/-! ### insertion sort is a permutation -/

theorem insertBy_perm {α : Type} (le : α → α → Bool) (a : α) (l : List α) :
    (insertBy le a l).Perm (a :: l) := by
  induction l with
  | nil => exact List.Perm.refl _
  | cons b l ih =>
    simp only [insertBy]
    split
    · exact List.Perm.refl _
    · exact ((List.Perm.cons b ih).trans (List.Perm.swap a b l))

theorem isort_perm {α : Type} (le : α → α → Bool) (l : List α) : (isort le l).Perm l := by
  induction l with
  | nil => exact List.Perm.refl _
  | cons a l ih => exact (insertBy_perm le a _).trans (List.Perm.cons a ih)

/-- the output of the insertion sort is sorted, for a total and transitive `le` -/
theorem insertBy_sorted {α : Type} (le : α → α → Bool)
    (total : ∀ a b, le a b = true ∨ le b a = true)
    (trans : ∀ a b c, le a b = true → le b c = true → le a c = true)
    (a : α) (l : List α) (h : l.Pairwise (fun x y => le x y = true)) :
    (insertBy le a l).Pairwise (fun x y => le x y = true) := by
  induction l with
  | nil => simp [insertBy]
  | cons b l ih =>
    have ⟨hb, hl⟩ := List.pairwise_cons.mp h
    simp only [insertBy]
    split
    · rename_i hab
      refine List.pairwise_cons.mpr ⟨?_, h⟩
      intro c hc
      rcases List.mem_cons.mp hc with rfl | hc
      · exact hab
      · exact trans _ _ _ hab (hb c hc)
    · rename_i hab
      have hba : le b a = true := by
        rcases total a b with h1 | h1
        · exact absurd h1 hab
        · exact h1
      refine List.pairwise_cons.mpr ⟨?_, ih hl⟩
      intro c hc
      have := ((insertBy_perm le a l).mem_iff).mp hc
      rcases List.mem_cons.mp this with rfl | hc
      · exact hba
      · exact hb c hc

theorem isort_sorted {α : Type} (le : α → α → Bool)
    (total : ∀ a b, le a b = true ∨ le b a = true)
    (trans : ∀ a b c, le a b = true → le b c = true → le a c = true)
    (l : List α) : (isort le l).Pairwise (fun x y => le x y = true) := by
  induction l with
  | nil => exact List.Pairwise.nil
  | cons a l ih => exact insertBy_sorted le total trans a _ ih

/-! ### `dedup`, `nodupB` -/

theorem mem_dedup {a : PU} {l : List PU} : a ∈ dedup l ↔ a ∈ l := by
  induction l with
  | nil => simp [dedup]
  | cons b l ih =>
    simp only [dedup]
    split
    · rename_i hb
      have hb' : b ∈ l := List.contains_iff_mem.mp hb
      rw [ih, List.mem_cons]
      constructor
      · exact Or.inr
      · rintro (rfl | h)
        · exact hb'
        · exact h
    · simp only [List.mem_cons, ih]

theorem nodup_dedup (l : List PU) : (dedup l).Nodup := by
  induction l with
  | nil => simp [dedup]
  | cons b l ih =>
    simp only [dedup]
    split
    · exact ih
    · rename_i hb
      refine List.nodup_cons.mpr ⟨?_, ih⟩
      rw [mem_dedup]
      intro hm
      exact hb (List.contains_iff_mem.mpr hm)

theorem nodupB_iff {l : List PU} : nodupB l = true ↔ l.Nodup := by
  induction l with
  | nil => simp [nodupB]
  | cons a l ih =>
    simp only [nodupB, Bool.and_eq_true, Bool.not_eq_true', List.nodup_cons, ih]
    constructor
    · rintro ⟨h1, h2⟩
      refine ⟨?_, h2⟩
      intro hm
      rw [List.contains_iff_mem.mpr hm] at h1
      exact Bool.noConfusion h1
    · rintro ⟨h1, h2⟩
      refine ⟨?_, h2⟩
      rcases Bool.eq_false_or_eq_true (l.contains a) with h | h
      · exact absurd (List.contains_iff_mem.mp h) h1
      · exact h

/-! ### keyed stores built by mapping over a list of units -/

theorem getC_map_mem {f : PU → Ctx} {l : List PU} {p : PU} (h : p ∈ l) :
    getC (l.map (fun q => (q, f q))) p = some (f p) := by
  induction l with
  | nil => cases h
  | cons a l ih =>
    simp only [List.map_cons, getC]
    split
    · rename_i hq; rw [hq]
    · rename_i hq
      rcases List.mem_cons.mp h with rfl | h
      · exact absurd rfl hq
      · exact ih h

theorem pusDistinct_map {f : PU → Ctx} {l : List PU} (h : l.Nodup) :
    pusDistinct (l.map (fun q => (q, f q))) = true := by
  induction l with
  | nil => rfl
  | cons a l ih =>
    have ⟨h1, h2⟩ := List.nodup_cons.mp h
    simp only [List.map_cons, pusDistinct, Bool.and_eq_true, ih h2, and_true, List.all_eq_true,
      List.mem_map, decide_eq_true_eq]
    rintro ⟨q, c⟩ ⟨r, hr, heq⟩
    simp only [Prod.mk.injEq] at heq
    intro hqa
    apply h1
    have : r = a := by rw [heq.1]; exact hqa
    exact this ▸ hr

/-! ### `findLast` -/

theorem findLast_some {α : Type} {p : α → Bool} {l : List α} {a : α} (h : findLast p l = some a) :
    a ∈ l ∧ p a = true := by
  induction l with
  | nil => cases h
  | cons b l ih =>
    simp only [findLast] at h
    split at h
    · rename_i c hc
      cases h
      exact ⟨List.mem_cons_of_mem _ (ih hc).1, (ih hc).2⟩
    · split at h
      · rename_i hb
        cases h
        exact ⟨List.mem_cons_self, hb⟩
      · cases h

/-- with distinct ids, the last row of an id is the row itself … -/
theorem findLast_id_of_nodup {l : List SubRow} (hn : (l.map (·.id)).Nodup) {a : SubRow} (ha : a ∈ l) :
    findLast (fun r => r.id = a.id) l = some a := by
  induction l with
  | nil => cases ha
  | cons b l ih =>
    have ⟨h1, h2⟩ : b.id ∉ l.map (·.id) ∧ (l.map (·.id)).Nodup := List.nodup_cons.mp hn
    simp only [findLast]
    rcases List.mem_cons.mp ha with rfl | ha
    · -- no later row carries this id
      have : findLast (fun r => decide (r.id = a.id)) l = none := by
        cases hfl : findLast (fun r => decide (r.id = a.id)) l with
        | none => rfl
        | some c =>
          have ⟨hc, hp⟩ := findLast_some hfl
          exact absurd (List.mem_map.mpr ⟨c, hc, by simpa using hp⟩) h1
      rw [this]; simp
    · rw [ih h2 ha]

/-- … and so is the first -/
theorem find_id_of_nodup {l : List SubRow} (hn : (l.map (·.id)).Nodup) {a : SubRow} (ha : a ∈ l) :
    l.find? (fun r => r.id = a.id) = some a := by
  induction l with
  | nil => cases ha
  | cons b l ih =>
    have ⟨h1, h2⟩ : b.id ∉ l.map (·.id) ∧ (l.map (·.id)).Nodup := List.nodup_cons.mp hn
    rcases List.mem_cons.mp ha with rfl | ha
    · simp
    · have hne : b.id ≠ a.id := by
        intro he
        exact h1 (List.mem_map.mpr ⟨a, ha, he.symm⟩)
      rw [List.find?_cons_of_neg (by simpa using hne)]
      exact ih h2 ha

/-! ### the action groups -/

theorem gullyAct_key (T : Tables) (p : PU) : (gullyAct T p).pu = p ∧ (gullyAct T p).typ = .gully :=
  ⟨rfl, rfl⟩

theorem ripAct_key {T : Tables} {p : PU} {a : Action} (h : ripAct T p = some a) :
    a.pu = p ∧ a.typ = .riparian := by
  unfold ripAct at h
  split at h
  · cases h
  · cases h; exact ⟨rfl, rfl⟩

theorem hillAct_key {T : Tables} {p : PU} {a : Action} (h : hillAct T p = some a) :
    a.pu = p ∧ a.typ = .hillslope := by
  unfold hillAct at h
  split at h
  · cases h; exact ⟨rfl, rfl⟩
  · cases h

theorem wetAct_key {T : Tables} {p : PU} {a : Action} (h : wetAct T p = some a) :
    a.pu = p ∧ a.typ = .wetland := by
  unfold wetAct at h
  split at h
  · cases h
  · cases h; exact ⟨rfl, rfl⟩

/-- membership in the gathered action list, by group -/
theorem mem_gatherActs {T : Tables} {a : Action} (h : a ∈ gatherActs T) :
    (∃ p ∈ gullyIds T, a = gullyAct T p) ∨ (∃ p ∈ subIds T, ripAct T p = some a) ∨
    (∃ p ∈ subIds T, hillAct T p = some a) ∨ (∃ p ∈ subIds T, wetAct T p = some a) := by
  simp only [gatherActs, List.mem_append, List.mem_map, List.mem_filterMap] at h
  rcases h with ((⟨p, hp, rfl⟩ | ⟨p, hp, h⟩) | ⟨p, hp, h⟩) | ⟨p, hp, h⟩
  · exact Or.inl ⟨p, hp, rfl⟩
  · exact Or.inr (Or.inl ⟨p, hp, h⟩)
  · exact Or.inr (Or.inr (Or.inl ⟨p, hp, h⟩))
  · exact Or.inr (Or.inr (Or.inr ⟨p, hp, h⟩))

/-! ### keys are distinct: every group is a map keyed by unit, the groups differ in type -/

def KeyNe (a b : Action) : Prop := ¬ (a.pu = b.pu ∧ a.typ = b.typ)

theorem keysDistinct_iff {l : List Action} : keysDistinct l = true ↔ l.Pairwise KeyNe := by
  induction l with
  | nil => simp [keysDistinct]
  | cons a l ih =>
    simp only [keysDistinct, Bool.and_eq_true, ih, List.pairwise_cons, List.all_eq_true]
    refine and_congr_left fun _ => forall₂_congr fun b _ => ?_
    simp only [KeyNe, Bool.not_eq_true', Bool.and_eq_false_iff, decide_eq_false_iff_not, not_and]
    constructor
    · rintro (h | h) h1
      · exact absurd h1 h
      · exact h
    · intro h
      by_cases h1 : a.pu = b.pu
      · exact Or.inr (h h1)
      · exact Or.inl h1

theorem pairwise_group_filterMap {g : PU → Option Action} {t : ActType} {ids : List PU}
    (hn : ids.Nodup) (hk : ∀ p a, g p = some a → a.pu = p ∧ a.typ = t) :
    (ids.filterMap g).Pairwise KeyNe := by
  rw [List.pairwise_filterMap]
  refine List.Pairwise.imp ?_ hn
  intro p q hpq a ha b hb hab
  exact hpq ((hk p a ha).1.symm.trans (hab.1.trans (hk q b hb).1))

theorem gatherActs_pairwise (T : Tables) : (gatherActs T).Pairwise KeyNe := by
  have hs : (subIds T).Nodup := nodup_dedup _
  have hg : ((gullyIds T).map (gullyAct T)).Pairwise KeyNe := by
    rw [List.pairwise_map]
    have hgn : (gullyIds T).Nodup := nodup_dedup _
    refine List.Pairwise.imp ?_ hgn
    intro p q hpq hab
    exact hpq hab.1
  have hr := pairwise_group_filterMap (g := ripAct T) (t := .riparian) hs (fun _ _ h => ripAct_key h)
  have hh := pairwise_group_filterMap (g := hillAct T) (t := .hillslope) hs (fun _ _ h => hillAct_key h)
  have hw := pairwise_group_filterMap (g := wetAct T) (t := .wetland) hs (fun _ _ h => wetAct_key h)
  -- types of the members of each group
  have tg : ∀ a ∈ (gullyIds T).map (gullyAct T), a.typ = .gully := by
    intro a ha; obtain ⟨p, _, rfl⟩ := List.mem_map.mp ha; rfl
  have tr : ∀ a ∈ (subIds T).filterMap (ripAct T), a.typ = .riparian := by
    intro a ha; obtain ⟨p, _, h⟩ := List.mem_filterMap.mp ha; exact (ripAct_key h).2
  have th : ∀ a ∈ (subIds T).filterMap (hillAct T), a.typ = .hillslope := by
    intro a ha; obtain ⟨p, _, h⟩ := List.mem_filterMap.mp ha; exact (hillAct_key h).2
  have tw : ∀ a ∈ (subIds T).filterMap (wetAct T), a.typ = .wetland := by
    intro a ha; obtain ⟨p, _, h⟩ := List.mem_filterMap.mp ha; exact (wetAct_key h).2
  unfold gatherActs
  refine List.pairwise_append.mpr ⟨List.pairwise_append.mpr ⟨List.pairwise_append.mpr ⟨hg, hr, ?_⟩, hh, ?_⟩, hw, ?_⟩
  · intro a ha b hb hab
    have := tg a ha; have := tr b hb
    simp_all
  · intro a ha b hb hab
    have hb' := th b hb
    rcases List.mem_append.mp ha with ha | ha
    · have := tg a ha; simp_all
    · have := tr a ha; simp_all
  · intro a ha b hb hab
    have hb' := tw b hb
    rcases List.mem_append.mp ha with ha | ha
    · rcases List.mem_append.mp ha with ha | ha
      · have := tg a ha; simp_all
      · have := tr a ha; simp_all
    · have := th a ha; simp_all

theorem keyNe_symm {a b : Action} (h : KeyNe a b) : KeyNe b a :=
  fun hab => h ⟨hab.1.symm, hab.2.symm⟩

/-! ### the order of `ManagementActions.Less` on model actions -/

/-- `ManagementActions.Less(a, b)`: planning unit, then type string (`typRank` is the order of the
four type strings) -/
def lessAct (a b : Action) : Bool :=
  decide (a.pu < b.pu) || (decide (a.pu = b.pu) && decide (typRank a.typ < typRank b.typ))

theorem actLe_iff_not_less (a b : Action) : actLe a b = true ↔ lessAct b a = false := by
  have key : ∀ (x y : Int) (r s : Nat), (x < y ∨ x = y ∧ r ≤ s) ↔ ¬ (y < x ∨ y = x ∧ s < r) := by omega
  rw [← Bool.not_eq_true]
  simp only [actLe, lessAct, Bool.or_eq_true, Bool.and_eq_true, decide_eq_true_eq]
  exact key a.pu b.pu _ _

theorem actLe_total (a b : Action) : actLe a b = true ∨ actLe b a = true := by
  simp only [actLe, Bool.or_eq_true, Bool.and_eq_true, decide_eq_true_eq]
  have key : ∀ (x y : Int) (r s : Nat), (x < y ∨ x = y ∧ r ≤ s) ∨ (y < x ∨ y = x ∧ s ≤ r) := by omega
  exact key a.pu b.pu _ _

theorem actLe_trans (a b c : Action) : actLe a b = true → actLe b c = true → actLe a c = true := by
  simp only [actLe, Bool.or_eq_true, Bool.and_eq_true, decide_eq_true_eq]
  have key : ∀ (x y z : Int) (r s t : Nat), (x < y ∨ x = y ∧ r ≤ s) → (y < z ∨ y = z ∧ s ≤ t) →
      (x < z ∨ x = z ∧ r ≤ t) := by omega
  exact key a.pu b.pu c.pu _ _ _

theorem typRank_inj {s t : ActType} (h : typRank s = typRank t) : s = t := by
  cases s <;> cases t <;> simp_all [typRank]

/-- `actLe` both ways means the same key -/
theorem actLe_antisymm_key {a b : Action} (h1 : actLe a b = true) (h2 : actLe b a = true) :
    a.pu = b.pu ∧ a.typ = b.typ := by
  simp only [actLe, Bool.or_eq_true, Bool.and_eq_true, decide_eq_true_eq] at h1 h2
  have key : ∀ (x y : Int) (r s : Nat), (x < y ∨ x = y ∧ r ≤ s) → (y < x ∨ y = x ∧ s ≤ r) → x = y ∧ r = s := by omega
  have := key a.pu b.pu _ _ h1 h2
  exact ⟨this.1, typRank_inj this.2⟩

/-- in a list with pairwise distinct keys, the key determines the element -/
theorem eq_of_key_eq {l : List Action} (hp : l.Pairwise KeyNe) {a b : Action} (ha : a ∈ l) (hb : b ∈ l)
    (hk : a.pu = b.pu ∧ a.typ = b.typ) : a = b := by
  induction l with
  | nil => cases ha
  | cons c l ih =>
    have ⟨hc, hl⟩ := List.pairwise_cons.mp hp
    rcases List.mem_cons.mp ha with ha' | ha' <;> rcases List.mem_cons.mp hb with hb' | hb'
    · rw [ha', hb']
    · subst ha'; exact absurd hk (hc b hb')
    · subst hb'; exact absurd ⟨hk.1.symm, hk.2.symm⟩ (hc a ha')
    · exact ih hl ha' hb'

/-! ### units of the derived records -/

theorem mem_sortedUnits {T : Tables} {p : PU} : p ∈ sortedUnits T ↔ p ∈ T.subs.map (·.id) := by
  unfold sortedUnits subIds
  rw [(isort_perm puLe _).mem_iff, mem_dedup]

theorem nodup_sortedUnits (T : Tables) : (sortedUnits T).Nodup :=
  ((isort_perm puLe _).nodup_iff).mpr (nodup_dedup _)

theorem mem_subIds {T : Tables} {p : PU} : p ∈ subIds T ↔ p ∈ T.subs.map (·.id) := mem_dedup

theorem mem_gullyIds {T : Tables} {p : PU} : p ∈ gullyIds T ↔ p ∈ T.gullies.map (·.unit) := mem_dedup

/-! ### consistency of the initial records with the action constants -/

/-- under distinct ids the riparian action of a unit is built from the unit's only row -/
theorem ripAct_row {T : Tables} (hn : (T.subs.map (·.id)).Nodup) {p : PU} {a : Action}
    (h : ripAct T p = some a) :
    ∃ row, lastSub T p = some row ∧ firstSub T p = some row ∧
      a.typ = .riparian ∧ a.pu = p ∧ a.k.origVeg = row.veg ∧
      a.k.origRipSed = bankSediment T p row.veg ∧
      a.k.origFine = cell (lastRow T ripText p) (·.fineOrig) ∧
      a.k.origDN = cell (lastRow T ripText p) (·.dnOrig) := by
  unfold ripAct at h
  split at h
  · cases h
  · rename_i row hrow
    have ⟨hmem, hp⟩ := findLast_some hrow
    have hid : row.id = p := by
      simp only [Bool.and_eq_true, decide_eq_true_eq] at hp
      exact hp.1
    cases h
    refine ⟨row, ?_, ?_, rfl, rfl, rfl, rfl, rfl, rfl⟩
    · unfold lastSub; rw [← hid]; exact findLast_id_of_nodup hn hmem
    · unfold firstSub; rw [← hid]; exact find_id_of_nodup hn hmem

/-- the per-variable clause of `InitConsistent` for the derived data -/
theorem derive_initConsistentFor {T : Tables} (hW : WellFormedTables T) (v : VarKind)
    (ctx : Tables → PU → Ctx)
    (hctx : ctx = match v with | .sed => sedCtx | .pn => pnCtx | .dn => dnCtx) :
    initConsistentFor v ((sortedUnits T).map (fun p => (p, ctx T p))) (isort actLe (gatherActs T)) = true := by
  have hW' : nodupB (T.subs.map (·.id)) = true ∧
      T.gullies.all (fun g => (T.subs.map (·.id)).contains g.unit) = true := by
    simpa [WellFormedTables, wellFormedTables] using hW
  have hn : (T.subs.map (·.id)).Nodup := nodupB_iff.mp hW'.1
  have hgu : ∀ p ∈ gullyIds T, p ∈ T.subs.map (·.id) := by
    intro p hp
    obtain ⟨g, hg, rfl⟩ := List.mem_map.mp (mem_gullyIds.mp hp)
    exact List.contains_iff_mem.mp (List.all_eq_true.mp hW'.2 g hg)
  unfold initConsistentFor
  rw [(isort_perm actLe _).all_eq, List.all_eq_true]
  intro a ha
  rcases mem_gatherActs ha with ⟨p, hp, rfl⟩ | ⟨p, hp, h⟩ | ⟨p, hp, h⟩ | ⟨p, hp, h⟩
  · -- gully
    rw [show (gullyAct T p).pu = p from rfl, getC_map_mem (mem_sortedUnits.mpr (hgu p hp))]
    subst hctx
    cases v <;> simp [setP, gullyAct, sedCtx, pnCtx, dnCtx]
  · -- riparian
    obtain ⟨row, hl, hf, ht, hpu, h1, h2, h3, h4⟩ := ripAct_row hn h
    rw [hpu, getC_map_mem (mem_sortedUnits.mpr (mem_subIds.mp hp))]
    subst hctx
    cases v <;> simp [setP, ht, sedCtx, pnCtx, dnCtx, hl, hf, h1, h2, h3, h4]
  · -- hill-slope
    have hk := hillAct_key h
    rw [hk.1, getC_map_mem (mem_sortedUnits.mpr (mem_subIds.mp hp))]
    unfold hillAct at h
    split at h
    · cases h
      subst hctx
      cases v <;> simp [setP, sedCtx, pnCtx, dnCtx]
    · cases h
  · -- wetland
    have hk := wetAct_key h
    rw [hk.1, getC_map_mem (mem_sortedUnits.mpr (mem_subIds.mp hp))]
    subst hctx
    cases v <;> simp [setP, hk.2, sedCtx, pnCtx, dnCtx]

end Crem.Catchment
