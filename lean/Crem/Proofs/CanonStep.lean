import Crem.Proofs.CanonCtx
/-!
One observed-and-applied toggle, per variable: local step lemmas for a pollutant variable (`PVar`)
and for a simple variable (`SVar`: total nitrogen, the two costs).  These are the `sed_toggle`
argument of the feasibility spike on the real model.
-/
namespace Crem.Catchment

/-- `SetChange` on grid values stores exactly the to-be value -/
theorem add_rnd_sub {p : Nat} {x y : Rat} (hx : OnGrid p x) (hy : OnGrid p y) :
    x + rnd p (y - x) = y := by
  rw [rnd_of_onGrid (hy.sub hx)]; ring

/-! ### observation alone changes neither cells nor totals -/

theorem observeP_cells (v : VarKind) (a : Action) (b : Bool) (s : PVar) :
    (observeP v a b s).cells = s.cells := by
  unfold observeP; split <;> rfl

theorem observeP_total (v : VarKind) (a : Action) (b : Bool) (s : PVar) :
    (observeP v a b s).total = s.total := by
  unfold observeP; split <;> rfl

theorem observeS_cells (prec : Nat) (p : PU) (ch : Rat) (s : SVar) :
    (observeS prec p ch s).cells = s.cells := rfl

theorem observeS_total (prec : Nat) (p : PU) (ch : Rat) (s : SVar) :
    (observeS prec p ch s).total = s.total := rfl

/-- a freshly built command is un-done, so `Undo` is a no-op -/
theorem undoP_observeP (v : VarKind) (a : Action) (b : Bool) (s : PVar)
    (h : (getC s.cells a.pu).isSome = true) :
    undoP (observeP v a b s) = observeP v a b s := by
  obtain ⟨cell, hc⟩ := Option.isSome_iff_exists.mp h
  unfold observeP
  rw [hc]
  simp [undoP]

theorem undoS_observeS (prec : Nat) (p : PU) (ch : Rat) (s : SVar) :
    undoS prec (observeS prec p ch s) = observeS prec p ch s := by
  simp [undoS, observeS]

/-- `Do` does not change the reported change of a command -/
theorem changeP_doP (v : VarKind) (s : PVar) : changeP (doP v s) = changeP s := by
  unfold doP
  split
  · rfl
  · rename_i c hc
    split
    · rfl
    · split <;> simp [changeP, hc]

/-! ### pollutant variable -/

theorem stepP (v : VarKind) (a : Action) (b : Bool) (s : PVar) (cell : Cell)
    (hget : getC s.cells a.pu = some cell)
    (hval : cell.val = evalP v cell.ctx)
    (hold : setP v a.typ (!b) a.k cell.ctx = cell.ctx)
    (hgrid : OnGrid 3 s.total) :
    (doP v (observeP v a b s)).cells =
      putC s.cells a.pu { ctx := setP v a.typ b a.k cell.ctx,
                          val := evalP v (setP v a.typ b a.k cell.ctx) } ∧
    changeP (observeP v a b s) = evalP v (setP v a.typ b a.k cell.ctx) - cell.val ∧
    (doP v (observeP v a b s)).total =
      s.total + (evalP v (setP v a.typ b a.k cell.ctx) - cell.val) := by
  have hdone : cell.val + rnd 3 (evalP v (setP v a.typ b a.k cell.ctx)
        - evalP v (setP v a.typ (!b) a.k cell.ctx)) = evalP v (setP v a.typ b a.k cell.ctx) := by
    rw [hold, hval]
    exact add_rnd_sub (evalP_onGrid _ _) (evalP_onGrid _ _)
  have hcg : OnGrid 3 cell.val := hval ▸ evalP_onGrid _ _
  refine ⟨?_, ?_, ?_⟩
  · simp only [observeP, hget, doP, setPUValue, hdone, Bool.false_eq_true, if_false]
    rw [rnd_of_onGrid (evalP_onGrid _ _)]
  · simp only [observeP, hget, changeP, hdone]
  · simp only [observeP, hget, doP, setPUValue, hdone, Bool.false_eq_true, if_false]
    exact rnd_of_onGrid (hgrid.add ((evalP_onGrid _ _).sub hcg))

/-! ### simple variable -/

theorem stepS (prec : Nat) (p : PU) (ch : Rat) (s : SVar) (cur : Rat)
    (hget : getC s.cells p = some cur)
    (hcur : OnGrid prec cur) (hch : OnGrid prec ch) (hgrid : OnGrid prec s.total) :
    (doS prec (observeS prec p ch s)).cells = putC s.cells p (cur + ch) ∧
    changeS (observeS prec p ch s) = ch ∧
    (doS prec (observeS prec p ch s)).total = s.total + ch := by
  have h1 : rnd prec ch = ch := rnd_of_onGrid hch
  have h2 : rnd prec (cur + ch) = cur + ch := rnd_of_onGrid (hcur.add hch)
  have h3 : cur + ch - cur = ch := by ring
  refine ⟨?_, ?_, ?_⟩
  · simp only [observeS, doS, hget, Option.getD_some, setPUValue, h1, h2, Bool.false_eq_true,
      if_false]
  · simp only [observeS, changeS, hget, Option.getD_some, h1]; ring
  · simp only [observeS, doS, hget, Option.getD_some, setPUValue, h1, h3, Bool.false_eq_true,
      if_false]
    exact rnd_of_onGrid (hgrid.add hch)

/-! ### `Do` is idempotent (status guard) -/

theorem doP_idem (v : VarKind) (x : PVar) : doP v (doP v x) = doP v x := by
  cases hc : x.cmd with
  | none =>
    have : doP v x = x := by simp [doP, hc]
    rw [this, this]
  | some c =>
    by_cases hd : c.done = true
    · have : doP v x = x := by simp [doP, hc, hd]
      rw [this, this]
    · cases hg : getC x.cells c.pu with
      | none =>
        have : doP v x = { x with cmd := some { c with done := true } } := by simp [doP, hc, hd, hg]
        rw [this]; simp [doP]
      | some cell =>
        have : doP v x = { cells := putC x.cells c.pu { ctx := setP v c.typ c.b c.k cell.ctx,
                                                        val := rnd 3 c.doneVal },
                           total := rnd 3 (x.total + (c.doneVal - cell.val)),
                           cmd := some { c with done := true } } := by
          simp [doP, hc, hd, hg, setPUValue]
        rw [this]; simp [doP]

theorem doS_idem (n : Nat) (x : SVar) : doS n (doS n x) = doS n x := by
  cases hc : x.cmd with
  | none =>
    have : doS n x = x := by simp [doS, hc]
    rw [this, this]
  | some c =>
    by_cases hd : c.done = true
    · have : doS n x = x := by simp [doS, hc, hd]
      rw [this, this]
    · have : doS n x = { cells := putC x.cells c.pu (rnd n c.doneVal),
                         total := rnd n (x.total + (c.doneVal - (getC x.cells c.pu).getD 0)),
                         cmd := some { c with done := true } } := by
        simp [doS, hc, hd, setPUValue]
      rw [this]; simp [doS]

end Crem.Catchment
