import Crem.Proofs.CanonStep
/-!
The central invariant `Canon D s` of the catchment model (every cell of every variable is the
canonical one for the current action flags, every total is the sum of its cells), that the initial
state satisfies it, and that one accepted observed toggle preserves it.
-/
namespace Crem.Catchment

/-! ### canonical cells -/

def cellOf (v : VarKind) (x : Ctx) : Cell := { ctx := x, val := evalP v x }

/-- canonical cells of a pollutant variable for the activity assignment `bs` -/
def canonCells (v : VarKind) (acts : List Action) (bs : List Bool) (c0 : List (PU × Ctx)) :
    List (PU × Cell) :=
  mapC (fun p x0 => cellOf v (canonCtx v p acts bs x0)) c0

/-- canonical value of unit `p` (0 for an unknown unit, as `unitValP`) -/
def canonVal (v : VarKind) (acts : List Action) (bs : List Bool) (c0 : List (PU × Ctx)) (p : PU) : Rat :=
  ((getC c0 p).map fun x0 => evalP v (canonCtx v p acts bs x0)).getD 0

/-- canonical total-nitrogen cells: particulate + dissolved of the same unit -/
def canonTNCells (D : Data) (bs : List Bool) : List (PU × Rat) :=
  mapC (fun p _ => canonVal .pn D.acts bs D.pn0 p + canonVal .dn D.acts bs D.dn0 p) D.pn0

/-- canonical cost cells: sum of the rounded costs of the unit's active actions -/
def canonCostCells (sel : Consts → Rat) (D : Data) (bs : List Bool) : List (PU × Rat) :=
  mapC (fun p _ => costSum sel p D.acts bs) D.sed0

structure CanonP (v : VarKind) (acts : List Action) (c0 : List (PU × Ctx)) (bs : List Bool)
    (s : PVar) : Prop where
  cells : s.cells = canonCells v acts bs c0
  total : s.total = sumVals s.cells

structure CanonS (cells : List (PU × Rat)) (s : SVar) : Prop where
  cells : s.cells = cells
  total : s.total = sumS s.cells

/-- the central invariant.  Pending commands and `last` are deliberately unconstrained. -/
structure Canon (D : Data) (s : State) : Prop where
  len : s.flags.length = D.acts.length
  sed : CanonP .sed D.acts D.sed0 s.flags s.sed
  pn : CanonP .pn D.acts D.pn0 s.flags s.pn
  dn : CanonP .dn D.acts D.dn0 s.flags s.dn
  tn : CanonS (canonTNCells D s.flags) s.tn
  ic : CanonS (canonCostCells (·.implCost) D s.flags) s.ic
  oc : CanonS (canonCostCells (·.oppCost) D s.flags) s.oc

/-- two states agree on flags, all cells and all totals -/
structure SameVals (s s' : State) : Prop where
  flags : s'.flags = s.flags
  sedC : s'.sed.cells = s.sed.cells
  sedT : s'.sed.total = s.sed.total
  pnC : s'.pn.cells = s.pn.cells
  pnT : s'.pn.total = s.pn.total
  dnC : s'.dn.cells = s.dn.cells
  dnT : s'.dn.total = s.dn.total
  tnC : s'.tn.cells = s.tn.cells
  tnT : s'.tn.total = s.tn.total
  icC : s'.ic.cells = s.ic.cells
  icT : s'.ic.total = s.ic.total
  ocC : s'.oc.cells = s.oc.cells
  ocT : s'.oc.total = s.oc.total

theorem SameVals.refl (s : State) : SameVals s s := by constructor <;> rfl

theorem Canon.of_sameVals {D : Data} {s s' : State} (hc : Canon D s) (h : SameVals s s') :
    Canon D s' := by
  obtain ⟨len, sed, pn, dn, tn, ic, oc⟩ := hc
  exact
    { len := by rw [h.flags]; exact len
      sed := ⟨by rw [h.sedC, h.flags]; exact sed.cells, by rw [h.sedT, h.sedC]; exact sed.total⟩
      pn := ⟨by rw [h.pnC, h.flags]; exact pn.cells, by rw [h.pnT, h.pnC]; exact pn.total⟩
      dn := ⟨by rw [h.dnC, h.flags]; exact dn.cells, by rw [h.dnT, h.dnC]; exact dn.total⟩
      tn := ⟨by rw [h.tnC, h.flags]; exact tn.cells, by rw [h.tnT, h.tnC]; exact tn.total⟩
      ic := ⟨by rw [h.icC, h.flags]; exact ic.cells, by rw [h.icT, h.icC]; exact ic.total⟩
      oc := ⟨by rw [h.ocC, h.flags]; exact oc.cells, by rw [h.ocT, h.ocC]; exact oc.total⟩ }

/-- two canonical states with the same flags agree on everything observable -/
theorem Canon.sameVals {D : Data} {s s' : State} (hc : Canon D s) (hc' : Canon D s')
    (hf : s'.flags = s.flags) : SameVals s s' := by
  obtain ⟨_, sed, pn, dn, tn, ic, oc⟩ := hc
  obtain ⟨_, sed', pn', dn', tn', ic', oc'⟩ := hc'
  have e1 : s'.sed.cells = s.sed.cells := by rw [sed.cells, sed'.cells, hf]
  have e2 : s'.pn.cells = s.pn.cells := by rw [pn.cells, pn'.cells, hf]
  have e3 : s'.dn.cells = s.dn.cells := by rw [dn.cells, dn'.cells, hf]
  have e4 : s'.tn.cells = s.tn.cells := by rw [tn.cells, tn'.cells, hf]
  have e5 : s'.ic.cells = s.ic.cells := by rw [ic.cells, ic'.cells, hf]
  have e6 : s'.oc.cells = s.oc.cells := by rw [oc.cells, oc'.cells, hf]
  exact
    { flags := hf
      sedC := e1, sedT := by rw [sed.total, sed'.total, e1]
      pnC := e2, pnT := by rw [pn.total, pn'.total, e2]
      dnC := e3, dnT := by rw [dn.total, dn'.total, e3]
      tnC := e4, tnT := by rw [tn.total, tn'.total, e4]
      icC := e5, icT := by rw [ic.total, ic'.total, e5]
      ocC := e6, ocT := by rw [oc.total, oc'.total, e6] }

/-! ### values of canonical cells -/

theorem canonVal_onGrid (v : VarKind) (acts : List Action) (bs : List Bool)
    (c0 : List (PU × Ctx)) (p : PU) : OnGrid 3 (canonVal v acts bs c0 p) := by
  unfold canonVal
  cases getC c0 p with
  | none => exact OnGrid.zero 3
  | some x => exact evalP_onGrid _ _

theorem canonVal_of_getC {v : VarKind} {acts : List Action} {bs : List Bool}
    {c0 : List (PU × Ctx)} {p : PU} {x0 : Ctx} (h : getC c0 p = some x0) :
    canonVal v acts bs c0 p = evalP v (canonCtx v p acts bs x0) := by
  unfold canonVal; rw [h]; rfl

theorem unitValP_of_cells {v : VarKind} {acts : List Action} {bs : List Bool}
    {c0 : List (PU × Ctx)} {s : PVar} (h : s.cells = canonCells v acts bs c0) (p : PU) :
    unitValP s p = canonVal v acts bs c0 p := by
  unfold unitValP canonVal
  rw [h, canonCells, getC_mapC]
  cases getC c0 p <;> rfl

theorem canonVal_set_flag_other (v : VarKind) (acts : List Action) (bs : List Bool)
    (c0 : List (PU × Ctx)) {i : Nat} {a : Action} (w : Bool) {p : PU}
    (ha : acts[i]? = some a) (hp : a.pu ≠ p) :
    canonVal v acts (bs.set i w) c0 p = canonVal v acts bs c0 p := by
  unfold canonVal
  cases getC c0 p with
  | none => rfl
  | some x => simp only [Option.map_some, Option.getD_some,
                canonCtx_set_flag_other v acts bs i a w p x ha hp]

theorem canonCells_onGrid (v : VarKind) (acts : List Action) (bs : List Bool)
    (c0 : List (PU × Ctx)) : ∀ c ∈ canonCells v acts bs c0, OnGrid 3 c.2.val := by
  intro c hc
  obtain ⟨x, _, h⟩ := mem_mapC hc
  rw [h]; exact evalP_onGrid _ _

/-! ### facts packed in `InitConsistent` -/

structure InitFacts (D : Data) : Prop where
  sed : ∀ a ∈ D.acts, ∃ x, getC D.sed0 a.pu = some x ∧ setP .sed a.typ false a.k x = x
  pn : ∀ a ∈ D.acts, ∃ x, getC D.pn0 a.pu = some x ∧ setP .pn a.typ false a.k x = x
  dn : ∀ a ∈ D.acts, ∃ x, getC D.dn0 a.pu = some x ∧ setP .dn a.typ false a.k x = x
  dsed : pusDistinct D.sed0 = true
  dpn : pusDistinct D.pn0 = true
  ddn : pusDistinct D.dn0 = true
  kpn : D.sed0.map (·.1) = D.pn0.map (·.1)
  kdn : D.sed0.map (·.1) = D.dn0.map (·.1)

theorem initConsistentFor_iff (v : VarKind) (c0 : List (PU × Ctx)) (acts : List Action) :
    initConsistentFor v c0 acts = true ↔
      ∀ a ∈ acts, ∃ x, getC c0 a.pu = some x ∧ setP v a.typ false a.k x = x := by
  unfold initConsistentFor
  rw [List.all_eq_true]
  constructor
  · intro h a ha
    have := h a ha
    cases hg : getC c0 a.pu with
    | none => rw [hg] at this; simp at this
    | some x => rw [hg] at this; exact ⟨x, rfl, by simpa using this⟩
  · intro h a ha
    obtain ⟨x, hx, he⟩ := h a ha
    rw [hx]; simpa using he

theorem InitConsistent.facts {D : Data} (h : InitConsistent D) : InitFacts D := by
  unfold InitConsistent initConsistent at h
  simp only [Bool.and_eq_true, decide_eq_true_eq] at h
  obtain ⟨⟨⟨⟨⟨⟨⟨h1, h2⟩, h3⟩, h4⟩, h5⟩, h6⟩, h7⟩, h8⟩ := h
  exact ⟨(initConsistentFor_iff _ _ _).mp h1, (initConsistentFor_iff _ _ _).mp h2,
    (initConsistentFor_iff _ _ _).mp h3, h4, h5, h6, h7, h8⟩

/-! ### the initial state is canonical -/

theorem initP_canon (v : VarKind) (acts : List Action) (c0 : List (PU × Ctx))
    (hd : pusDistinct c0 = true)
    (h : ∀ a ∈ acts, ∃ x, getC c0 a.pu = some x ∧ setP v a.typ false a.k x = x) :
    CanonP v acts c0 (acts.map fun _ => false) (initP v c0) := by
  refine ⟨?_, rfl⟩
  show c0.map (fun e => (e.1, ({ ctx := e.2, val := evalP v e.2 } : Cell))) = _
  unfold canonCells
  show mapC (fun _ x => cellOf v x) c0 = _
  apply mapC_congr
  intro e he
  have hg : getC c0 e.1 = some e.2 := getC_of_mem hd he
  rw [canonCtx_all_false v e.1 acts e.2]
  intro a ha hp
  obtain ⟨x, hx, hs⟩ := h a ha
  rw [hp, hg] at hx
  rw [Option.some.inj hx]; exact hs

theorem sumS_mapC_zero {α : Type} (s : List (PU × α)) : sumS (mapC (fun _ _ => (0 : Rat)) s) = 0 := by
  induction s with
  | nil => rfl
  | cons hd t ih =>
    obtain ⟨q, x⟩ := hd
    rw [mapC_cons, sumS_cons, ih]; simp

theorem initCost_canon (sel : Consts → Rat) (D : Data) :
    CanonS (canonCostCells sel D (D.acts.map fun _ => false)) (initCost (D.sed0.map (·.1))) := by
  have hcells : (initCost (D.sed0.map (·.1))).cells = mapC (fun _ _ => (0 : Rat)) D.sed0 := by
    simp [initCost, mapC, List.map_map, Function.comp_def]
  refine ⟨?_, ?_⟩
  · rw [hcells]
    unfold canonCostCells
    apply mapC_congr
    intro e _
    rw [costSum_all_false]
  · rw [hcells, sumS_mapC_zero]; rfl

theorem initTN_canon (D : Data) (bs : List Bool) (pn dn : PVar)
    (hd : pusDistinct D.pn0 = true)
    (hpn : pn.cells = canonCells .pn D.acts bs D.pn0)
    (hdn : dn.cells = canonCells .dn D.acts bs D.dn0) :
    CanonS (canonTNCells D bs) (initTN pn dn) := by
  refine ⟨?_, rfl⟩
  show pn.cells.map (fun e => (e.1, rnd 3 (rnd 3 e.2.val + rnd 3 (unitValP dn e.1)))) = _
  rw [hpn]
  unfold canonCells canonTNCells
  simp only [mapC, List.map_map]
  apply List.map_congr_left
  intro e he
  simp only [Function.comp_def]
  have hg : getC D.pn0 e.1 = some e.2 := getC_of_mem hd he
  rw [unitValP_of_cells hdn, canonVal_of_getC hg]
  simp only [cellOf]
  rw [rnd_of_onGrid (evalP_onGrid _ _), rnd_of_onGrid (canonVal_onGrid _ _ _ _ _),
    rnd_of_onGrid ((evalP_onGrid _ _).add (canonVal_onGrid _ _ _ _ _))]

theorem canon_init {D : Data} (h : InitConsistent D) : Canon D (init D) := by
  have f := h.facts
  have hsed := initP_canon .sed D.acts D.sed0 f.dsed f.sed
  have hpn := initP_canon .pn D.acts D.pn0 f.dpn f.pn
  have hdn := initP_canon .dn D.acts D.dn0 f.ddn f.dn
  exact
    { len := by simp [init]
      sed := hsed, pn := hpn, dn := hdn
      tn := initTN_canon D _ _ _ f.dpn hpn.cells hdn.cells
      ic := initCost_canon _ D
      oc := initCost_canon _ D }

/-! ### one accepted observed toggle, per variable -/

theorem CanonP.onGrid {v : VarKind} {acts : List Action} {c0 : List (PU × Ctx)} {bs : List Bool}
    {s : PVar} (hc : CanonP v acts c0 bs s) : OnGrid 3 s.total := by
  rw [hc.total, hc.cells]
  exact sumVals_onGrid _ (canonCells_onGrid v acts bs c0)

theorem CanonP.step {v : VarKind} {acts : List Action} {c0 : List (PU × Ctx)} {bs : List Bool}
    {s : PVar} (hc : CanonP v acts c0 bs s) {i : Nat} {a : Action} {b : Bool} {x0 : Ctx}
    (hk : keysDistinct acts = true) (hd : pusDistinct c0 = true)
    (ha : acts[i]? = some a) (hb : bs[i]? = some (!b)) (hx : getC c0 a.pu = some x0) :
    CanonP v acts c0 (bs.set i b) (doP v (observeP v a b s)) ∧
    (doP v (observeP v a b s)).cells =
      putC s.cells a.pu (cellOf v (canonCtx v a.pu acts (bs.set i b) x0)) ∧
    changeP (observeP v a b s) =
      canonVal v acts (bs.set i b) c0 a.pu - canonVal v acts bs c0 a.pu ∧
    (doP v (observeP v a b s)).total = s.total + changeP (observeP v a b s) := by
  have hget : getC s.cells a.pu = some (cellOf v (canonCtx v a.pu acts bs x0)) := by
    rw [hc.cells, canonCells, getC_mapC, hx]; rfl
  have hold : setP v a.typ (!b) a.k (canonCtx v a.pu acts bs x0) = canonCtx v a.pu acts bs x0 :=
    canonCtx_reset_current v acts bs i a (!b) x0 hk ha hb
  have hl : i < bs.length := by
    rcases Nat.lt_or_ge i bs.length with h | h
    · exact h
    · simp [List.getElem?_eq_none h] at hb
  have hnew : canonCtx v a.pu acts (bs.set i b) x0
      = setP v a.typ b a.k (canonCtx v a.pu acts bs x0) :=
    canonCtx_set_flag v acts bs i a b x0 hk ha hl
  obtain ⟨h1, h2, h3⟩ := stepP v a b s (cellOf v (canonCtx v a.pu acts bs x0)) hget rfl hold hc.onGrid
  have hcells : (doP v (observeP v a b s)).cells =
      putC s.cells a.pu (cellOf v (canonCtx v a.pu acts (bs.set i b) x0)) := by
    rw [h1, hnew]; rfl
  have hchange : changeP (observeP v a b s) =
      canonVal v acts (bs.set i b) c0 a.pu - canonVal v acts bs c0 a.pu := by
    rw [h2, canonVal_of_getC hx, canonVal_of_getC hx, hnew]; rfl
  refine ⟨⟨?_, ?_⟩, hcells, hchange, ?_⟩
  · rw [hcells, hc.cells]
    unfold canonCells
    refine (mapC_update (g := fun p x0 => cellOf v (canonCtx v p acts bs x0))
      (g' := fun p x0 => cellOf v (canonCtx v p acts (bs.set i b) x0)) hd hx ?_).symm
    intro q y hq
    show cellOf v (canonCtx v q acts (bs.set i b) y) = cellOf v (canonCtx v q acts bs y)
    rw [canonCtx_set_flag_other v acts bs i a b q y ha (fun e => hq e.symm)]
  · rw [h3, hcells, sumVals_putC _ hget, hc.total, hnew]
    simp only [cellOf]; ring
  · rw [h3, h2]

theorem CanonS.step {prec : Nat} {α : Type} {c0 : List (PU × α)} {g g' : PU → Rat} {s : SVar}
    {p : PU} {ch : Rat} {x0 : α}
    (hc : CanonS (mapC (fun q _ => g q) c0) s) (hd : pusDistinct c0 = true)
    (hx : getC c0 p = some x0) (hg : ∀ q, OnGrid prec (g q)) (hch : OnGrid prec ch)
    (hp : g' p = g p + ch) (hother : ∀ q, q ≠ p → g' q = g q) :
    CanonS (mapC (fun q _ => g' q) c0) (doS prec (observeS prec p ch s)) ∧
    (doS prec (observeS prec p ch s)).cells = putC s.cells p (g p + ch) ∧
    changeS (observeS prec p ch s) = ch ∧
    (doS prec (observeS prec p ch s)).total = s.total + ch := by
  have hget : getC s.cells p = some (g p) := by
    rw [hc.cells, getC_mapC, hx]; rfl
  have hgrid : OnGrid prec s.total := by
    rw [hc.total, hc.cells]
    apply sumS_onGrid
    intro c hcm
    obtain ⟨x, _, h⟩ := mem_mapC hcm
    rw [h]; exact hg _
  obtain ⟨h1, h2, h3⟩ := stepS prec p ch s (g p) hget (hg p) hch hgrid
  refine ⟨⟨?_, ?_⟩, h1, h2, h3⟩
  · rw [h1, hc.cells, ← hp]
    refine (mapC_update (g := fun q _ => g q) (g' := fun q _ => g' q) hd hx ?_).symm
    intro q _ hq
    exact hother q hq
  · rw [h3, h1, sumS_putC _ hget, hc.total]; ring

end Crem.Catchment
