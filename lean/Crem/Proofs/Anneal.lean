import Crem.Model.Anneal
import Mathlib.Algebra.Order.Ring.Defs
import Mathlib.Algebra.Group.Basic
import Mathlib.Tactic.Linarith
/-!
Helper lemmas for C07: what the loop of `Crem/Model/Anneal.lean` produces.
-/
namespace Crem.Anneal

section loop
variable {α : Type} [Mul α]

/-- the iteration (of this `Anneal()` call) a panic site sits in, if it sits in the loop body -/
def PanicSite.iteration? : PanicSite → Option Nat
  | .tryRandomChange k | .coolDown k | .coolDownAfter k => some k
  | .notify (.startedIteration k) _ | .notify (.finishedIteration k) _ => some k
  | _ => none

/-- the panic site is in iteration `k` -/
def fires (p : Option PanicSite) (k : Nat) : Prop := p.bind PanicSite.iteration? = some k

instance (p : Option PanicSite) (k : Nat) : Decidable (fires p k) := by unfold fires; infer_instance

theorem fires_unique {p : Option PanicSite} {j k : Nat} (hj : fires p j) (hk : fires p k) : j = k := by
  unfold fires at hj hk; rw [hj] at hk; exact Option.some.inj hk

theorem iterationPanic_none (a : α) {p : Option PanicSite} {i : Nat} (h : ¬ fires p i) (cur : Nat) (T : α) :
    iterationPanic a p i cur T = none := by
  unfold fires at h
  rcases p with _ | s
  · rfl
  · cases s with
    | notify pt j => cases pt <;> simp_all [iterationPanic, PanicSite.iteration?]
    | _ => simp_all [iterationPanic, PanicSite.iteration?]

theorem fires_of_iterationPanic (a : α) {p : Option PanicSite} {i cur : Nat} {T : α}
    {x : List (Event α) × α} (h : iterationPanic a p i cur T = some x) : fires p i := by
  rcases Decidable.em (fires p i) with hf | hf
  · exact hf
  · rw [iterationPanic_none a hf] at h; cases h

theorem not_initialise_of_fires {p : Option PanicSite} {k : Nat} (h : fires p k) :
    p ≠ some .initialise := by
  intro hp; subst hp; simp [fires, PanicSite.iteration?] at h

theorem observerAt_of_fires {p : Option PanicSite} {k : Nat} (h : fires p k) :
    observerAt p .startedAnnealing = none ∧ observerAt p .finishedAnnealing = none := by
  unfold fires at h
  rcases p with _ | s
  · simp [observerAt]
  · cases s with
    | notify pt j => cases pt <;> simp_all [observerAt, PanicSite.iteration?]
    | _ => simp [observerAt]

/-- iterations `cur+1 … cur+m`, entered at temperature `T` -/
def iterationsFrom (a : α) (cur : Nat) (T : α) (m : Nat) : List (Event α) :=
  (List.range m).flatMap (fun j => iterationEvents a (cur + j + 1) (temp T a j))

theorem temp_shift (T a : α) : ∀ k, temp (T * a) a k = temp T a (k + 1)
  | 0 => rfl
  | k + 1 => by simp only [temp]; rw [temp_shift T a k]; rfl

theorem iterationsFrom_succ (a : α) (cur : Nat) (T : α) (m : Nat) :
    iterationsFrom a cur T (m + 1) =
      iterationEvents a (cur + 1) T ++ iterationsFrom a (cur + 1) (T * a) m := by
  simp only [iterationsFrom, List.range_succ_eq_map, List.flatMap_cons, List.flatMap_map]
  congr 1
  congr 1
  funext j
  rw [temp_shift]
  congr 1
  omega

theorem iterationsFrom_succ_last (a : α) (cur : Nat) (T : α) (m : Nat) :
    iterationsFrom a cur T (m + 1) =
      iterationsFrom a cur T m ++ iterationEvents a (cur + m + 1) (temp T a m) := by
  simp [iterationsFrom, List.range_succ, List.flatMap_append]

theorem iterations_eq_from (T0 a : α) (n : Nat) : iterations T0 a n = iterationsFrom a 0 T0 n := by
  simp [iterations, iterationsFrom]

theorem iterations_succ (T0 a : α) (n : Nat) :
    iterations T0 a (n + 1) = iterations T0 a n ++ iterationEvents a (n + 1) (temp T0 a n) := by
  simp [iterations, List.range_succ, List.flatMap_append]

/-- complete iterations: no panic fires in the next `m + 1` iterations, which exhaust the budget -/
theorem loop_complete (N : Nat) (a : α) (p : Option PanicSite) :
    ∀ (m fuel i cur : Nat) (T : α), cur + (m + 1) = N → m + 1 ≤ fuel →
      (∀ k, i < k → k ≤ i + (m + 1) → ¬ fires p k) →
      loop N a p fuel i cur T = (iterationsFrom a cur T (m + 1), .done N (temp T a (m + 1)))
  | m, 0, _, _, _, _, hf, _ => by omega
  | 0, fuel + 1, i, cur, T, hN, _, hp => by
    have h1 := iterationPanic_none a (hp (i + 1) (by omega) (by omega)) (cur + 1) T
    have h3 : cur + 1 ≥ N := by omega
    have h4 : cur + 1 = N := by omega
    simp only [loop, h1]
    simp [iterationsFrom, iterationEvents, temp, h4]
  | m + 1, fuel + 1, i, cur, T, hN, hf, hp => by
    have h1 := iterationPanic_none a (hp (i + 1) (by omega) (by omega)) (cur + 1) T
    have h3 : ¬ cur + 1 ≥ N := by omega
    have ih := loop_complete N a p m fuel (i + 1) (cur + 1) (T * a) (by omega) (by omega)
      (fun k hk1 hk2 => hp k (by omega) (by omega))
    rw [iterationsFrom_succ]
    simp only [loop, h1, h3, if_false, ih, iterationEvents, temp_shift]

/-- `d` complete iterations, then the injected panic fires in the next one (iteration `j` of this
call), wherever in the loop body it sits -/
theorem loop_panic (N : Nat) (a : α) (p : Option PanicSite) (j : Nat) (evs : List (Event α)) (T' : α) :
    ∀ (d fuel i cur : Nat) (T : α), j = i + d + 1 → cur + d + 1 ≤ N → d + 1 ≤ fuel →
      iterationPanic a p j (cur + d + 1) (temp T a d) = some (evs, T') →
      loop N a p fuel i cur T = (iterationsFrom a cur T d ++ evs, .panicked (cur + d + 1) T')
  | d, 0, _, _, _, _, _, hf, _ => by omega
  | 0, fuel + 1, i, cur, T, hj, _, _, h => by
    subst hj
    simp only [Nat.add_zero, temp] at h
    simp [loop, iterationsFrom, h]
  | d + 1, fuel + 1, i, cur, T, hj, hN, hf, h => by
    have hfj := fires_of_iterationPanic a h
    have h1 : iterationPanic a p (i + 1) (cur + 1) T = none :=
      iterationPanic_none a (fun hk => by have := fires_unique hfj hk; omega) _ _
    have h3 : ¬ cur + 1 ≥ N := by omega
    have h' : iterationPanic a p j (cur + 1 + d + 1) (temp (T * a) a d) = some (evs, T') := by
      rw [temp_shift]
      have e : cur + 1 + d + 1 = cur + (d + 1) + 1 := by omega
      rw [e]; exact h
    have ih := loop_panic N a p j evs T' d fuel (i + 1) (cur + 1) (T * a) (by omega) (by omega) (by omega) h'
    rw [iterationsFrom_succ]
    simp only [loop, h1, h3, if_false, ih, iterationEvents]
    have e : cur + 1 + d + 1 = cur + (d + 1) + 1 := by omega
    simp [e]

/-- entered with the counter already at or beyond the budget (a second `Anneal()` on the same
annealer object): exactly one more iteration runs -/
theorem loop_overrun (N : Nat) (a : α) (p : Option PanicSite) (fuel i cur : Nat) (T : α)
    (h : N ≤ cur + 1) (hp : ¬ fires p (i + 1)) :
    loop N a p (fuel + 1) i cur T = (iterationEvents a (cur + 1) T, .done (cur + 1) (T * a)) := by
  have h3 : cur + 1 ≥ N := h
  simp [loop, h3, iterationEvents, iterationPanic_none a hp]

/-- the fuel `anneal` passes is enough, whatever happens -/
theorem loop_not_outOfFuel (N : Nat) (a : α) (p : Option PanicSite) :
    ∀ (fuel i cur : Nat) (T : α), N ≤ cur + fuel → 0 < fuel →
      ∀ c T', (loop N a p fuel i cur T).2 ≠ .outOfFuel c T'
  | 0, _, _, _, _, h, _, _ => by omega
  | fuel + 1, i, cur, T, hN, _, c, T' => by
    simp only [loop]
    split
    · simp
    · split
      · simp
      · rename_i hlt
        exact loop_not_outOfFuel N a p fuel (i + 1) (cur + 1) (T * a) (by omega) (by omega) c T'

/-- `anneal` past `annealingStarted()` -/
theorem anneal_eq (N cur0 : Nat) (T0 a : α) {p : Option PanicSite} (hinit : p ≠ some .initialise)
    (hS : observerAt p .startedAnnealing = none) :
    anneal N cur0 T0 a p =
      if N = 0 then finish p [.explorerInitialise, .startedAnnealing T0] cur0 T0
      else conclude p T0 (loop N a p (N - cur0 + 1) 0 cur0 T0) := by
  simp [anneal, hinit, hS]

/-- `anneal` when an observer panics on the start event -/
theorem anneal_eq_start_panic (N cur0 : Nat) (T0 a : α) {p : Option PanicSite} {j : Nat}
    (hinit : p ≠ some .initialise) (hS : observerAt p .startedAnnealing = some j) :
    anneal N cur0 T0 a p =
      ⟨[.explorerInitialise, .startedAnnealing T0, .observerPanic j, .explorerTearDown],
        .repanicked, cur0, T0⟩ := by
  simp [anneal, hinit, hS]

/-- a run with a fresh counter in which no panic fires before the loop is done -/
theorem anneal_loop_complete (N : Nat) (T0 a : α) (p : Option PanicSite) (hinit : p ≠ some .initialise)
    (hS : observerAt p .startedAnnealing = none) (hp : ∀ k, 1 ≤ k → k ≤ N → ¬ fires p k) :
    anneal N 0 T0 a p =
      finish p ([.explorerInitialise, .startedAnnealing T0] ++ iterations T0 a N) N (temp T0 a N) := by
  cases N with
  | zero => simp [anneal, hinit, hS, iterations, temp]
  | succ n =>
    have hl := loop_complete (n + 1) a p n (n + 1 - 0 + 1) 0 0 T0 (by omega) (by omega)
      (fun k hk1 hk2 => hp k (by omega) (by omega))
    simp only [anneal, conclude, hinit, hS, if_false, hl, iterations_eq_from]
    simp

/-- the panic site never fires in a run of budget `N` (fresh counter): there is none, or it sits
in an iteration that does not happen -/
def Quiet (p : Option PanicSite) (N : Nat) : Prop :=
  p = none ∨ ∃ k, fires p k ∧ (k = 0 ∨ N < k)

omit [Mul α] in
theorem finish_quiet {p : Option PanicSite} {N : Nat} (h : Quiet p N) (pre : List (Event α)) (cur : Nat) (T : α) :
    finish p pre cur T = ⟨pre ++ [.finishedAnnealing cur T, .explorerTearDown], .returned, cur, T⟩ := by
  rcases h with rfl | ⟨k, hk, -⟩
  · simp [finish, observerAt]
  · have h2 := (observerAt_of_fires hk).2
    have h3 : p ≠ some .finishAttributes := by
      intro hp; subst hp; simp [fires, PanicSite.iteration?] at hk
    have h4 : p ≠ some .tearDown := by
      intro hp; subst hp; simp [fires, PanicSite.iteration?] at hk
    simp [finish, h2, h3, h4]

/-- a run without a (firing) panic site, fresh counter -/
theorem anneal_complete (N : Nat) (T0 a : α) (p : Option PanicSite) (hq : Quiet p N) :
    anneal N 0 T0 a p =
      ⟨[.explorerInitialise, .startedAnnealing T0] ++ iterations T0 a N ++
          [.finishedAnnealing N (temp T0 a N), .explorerTearDown],
        .returned, N, temp T0 a N⟩ := by
  have hinit : p ≠ some .initialise := by
    rcases hq with rfl | ⟨k, hk, -⟩
    · simp
    · exact not_initialise_of_fires hk
  have hS : observerAt p .startedAnnealing = none := by
    rcases hq with rfl | ⟨k, hk, -⟩
    · simp [observerAt]
    · exact (observerAt_of_fires hk).1
  have hp : ∀ k, 1 ≤ k → k ≤ N → ¬ fires p k := by
    intro k h1 h2 hk
    rcases hq with rfl | ⟨k', hk', hout⟩
    · simp [fires] at hk
    · have := fires_unique hk hk'; omega
  rw [anneal_loop_complete N T0 a p hinit hS hp, finish_quiet hq]

/-- a run with a fresh counter in which the injected panic fires in iteration `j` of the budget -/
theorem anneal_iteration_panic (N j : Nat) (T0 a : α) (p : Option PanicSite) (evs : List (Event α)) (T' : α)
    (hj1 : 1 ≤ j) (hjN : j ≤ N)
    (h : iterationPanic a p j j (temp T0 a (j - 1)) = some (evs, T')) :
    anneal N 0 T0 a p =
      ⟨[.explorerInitialise, .startedAnnealing T0] ++ iterations T0 a (j - 1) ++ evs ++ [.explorerTearDown],
        .repanicked, j, T'⟩ := by
  have hf := fires_of_iterationPanic a h
  have hinit := not_initialise_of_fires hf
  have hS := (observerAt_of_fires hf).1
  have hN : N ≠ 0 := by omega
  have hjj : 0 + (j - 1) + 1 = j := by omega
  have hl := loop_panic N a p j evs T' (j - 1) (N - 0 + 1) 0 0 T0 (by omega) (by omega) (by omega)
    (by rw [hjj]; exact h)
  simp only [anneal, conclude, hinit, hS, hN, if_false, hl, ← iterations_eq_from, hjj]
  simp

end loop

section counting
variable {α : Type} [Mul α]

theorem countP_iterations (T0 a : α) (n : Nat) :
    (iterations T0 a n).countP Event.isTry = n ∧
    (iterations T0 a n).countP Event.isStartedIteration = n ∧
    (iterations T0 a n).countP Event.isFinishedIteration = n ∧
    (iterations T0 a n).countP Event.isFinishedAnnealing = 0 := by
  induction n with
  | zero => simp [iterations]
  | succ n ih =>
    obtain ⟨h1, h2, h3, h4⟩ := ih
    rw [iterations_succ]
    simp [List.countP_append, h1, h2, h3, h4, iterationEvents, Event.isTry, Event.isStartedIteration,
      Event.isFinishedIteration, Event.isFinishedAnnealing, List.countP_cons]

theorem countP_isTry_iterationsFrom (a : α) (cur : Nat) (T : α) :
    ∀ m, (iterationsFrom a cur T m).countP Event.isTry = m
  | 0 => by simp [iterationsFrom]
  | m + 1 => by
    rw [iterationsFrom_succ_last, List.countP_append, countP_isTry_iterationsFrom a cur T m]
    simp [iterationEvents, Event.isTry, List.countP_cons]

theorem mem_iterations {T0 a : α} {n : Nat} {e : Event α} (h : e ∈ iterations T0 a n) :
    ∃ j, j < n ∧ e ∈ iterationEvents a (j + 1) (temp T0 a j) := by
  simp only [iterations, List.mem_flatMap, List.mem_range] at h
  exact h

end counting

section temperature

theorem temp_eq_mul_pow {α : Type} [Monoid α] (T0 a : α) : ∀ k, temp T0 a k = T0 * a ^ k
  | 0 => by simp [temp]
  | k + 1 => by simp only [temp]; rw [temp_eq_mul_pow T0 a k, pow_succ, mul_assoc]

variable {α : Type} [Semiring α] [PartialOrder α] [IsOrderedRing α]

theorem temp_nonneg (T0 a : α) (hT : 0 ≤ T0) (ha : 0 ≤ a) : ∀ k, 0 ≤ temp T0 a k
  | 0 => hT
  | k + 1 => mul_nonneg (temp_nonneg T0 a hT ha k) ha

theorem temp_succ_le (T0 a : α) (hT : 0 ≤ T0) (ha : 0 ≤ a) (ha1 : a ≤ 1) (k : Nat) :
    temp T0 a (k + 1) ≤ temp T0 a k := by
  have h := mul_le_mul_of_nonneg_left ha1 (temp_nonneg T0 a hT ha k)
  simpa [temp] using h

theorem temp_antitone (T0 a : α) (hT : 0 ≤ T0) (ha : 0 ≤ a) (ha1 : a ≤ 1) :
    ∀ {j k : Nat}, j ≤ k → temp T0 a k ≤ temp T0 a j := by
  intro j k hjk
  induction hjk with
  | refl => exact le_refl _
  | step _ ih => exact le_trans (temp_succ_le T0 a hT ha ha1 _) ih

omit [PartialOrder α] [IsOrderedRing α] in
/-- the temperatures carried by the iteration events, in order -/
theorem temps_iterations_succ (T0 a : α) (n : Nat) :
    (iterations T0 a (n + 1)).filterMap Event.temperature? =
      (iterations T0 a n).filterMap Event.temperature? ++ [temp T0 a n, temp T0 a (n + 1)] := by
  rw [iterations_succ]
  simp [List.filterMap_append, iterationEvents, temp, List.filterMap_cons, Event.temperature?]

omit [PartialOrder α] [IsOrderedRing α] in
theorem mem_temps_iterations (T0 a : α) : ∀ (n : Nat) (x : α),
    x ∈ (iterations T0 a n).filterMap Event.temperature? → ∃ j, j ≤ n ∧ x = temp T0 a j
  | 0, x, h => by simp [iterations] at h
  | n + 1, x, h => by
    rw [temps_iterations_succ, List.mem_append] at h
    rcases h with h | h
    · obtain ⟨j, hj, rfl⟩ := mem_temps_iterations T0 a n x h
      exact ⟨j, by omega, rfl⟩
    · simp only [List.mem_cons, List.not_mem_nil, or_false] at h
      rcases h with rfl | rfl
      · exact ⟨n, by omega, rfl⟩
      · exact ⟨n + 1, by omega, rfl⟩

theorem pairwise_temps_iterations (T0 a : α) (hT : 0 ≤ T0) (ha : 0 ≤ a) (ha1 : a ≤ 1) :
    ∀ n, ((iterations T0 a n).filterMap Event.temperature?).Pairwise (fun x y => y ≤ x)
  | 0 => by simp [iterations]
  | n + 1 => by
    rw [temps_iterations_succ, List.pairwise_append]
    refine ⟨pairwise_temps_iterations T0 a hT ha ha1 n, ?_, ?_⟩
    · simp only [List.pairwise_cons, List.mem_cons, List.not_mem_nil, or_false, forall_eq,
        List.Pairwise.nil, and_true, IsEmpty.forall_iff, implies_true]
      exact temp_succ_le T0 a hT ha ha1 n
    · intro x hx y hy
      obtain ⟨j, hj, rfl⟩ := mem_temps_iterations T0 a n x hx
      simp only [List.mem_cons, List.not_mem_nil, or_false] at hy
      rcases hy with rfl | rfl
      · exact temp_antitone T0 a hT ha ha1 hj
      · exact temp_antitone T0 a hT ha ha1 (by omega)

end temperature

section observers
variable {α : Type}

theorem filterMap_range_none (e : Event α) (i : Nat) : ∀ n, n ≤ i →
    (List.range n).filterMap (fun k => if k = i then some e else none) = []
  | 0, _ => rfl
  | n + 1, h => by
    rw [List.range_succ, List.filterMap_append, filterMap_range_none e i n (by omega)]
    have : n ≠ i := by omega
    simp [this]

theorem filterMap_range_one (e : Event α) (i : Nat) : ∀ n, i < n →
    (List.range n).filterMap (fun k => if k = i then some e else none) = [e]
  | 0, h => by omega
  | n + 1, h => by
    rw [List.range_succ, List.filterMap_append]
    by_cases hn : n = i
    · subst hn
      rw [filterMap_range_none e n n (le_refl _)]
      simp
    · rw [filterMap_range_one e i n (by omega)]
      simp [hn]

theorem receivedBy_deliveries_aux (n i : Nat) (hi : i < n) : ∀ l : List (Event α),
    receivedBy i (l.flatMap (fun e => (List.range n).map (fun k => (k, e)))) = l
  | [] => rfl
  | e :: l => by
    have ih := receivedBy_deliveries_aux n i hi l
    simp only [receivedBy] at ih ⊢
    rw [List.flatMap_cons, List.filterMap_append, ih, List.filterMap_map]
    have : ((fun p : Nat × Event α => if p.1 = i then some p.2 else none) ∘ fun k => (k, e)) =
        fun k => if k = i then some e else none := rfl
    rw [this, filterMap_range_one e i n hi]
    rfl

/-- no delivery in the list was cut short by a panicking observer -/
def MarkerFree (l : List (Event α)) : Prop := ∀ e ∈ l, e.isObserverPanic = false

theorem markerFree_append {l₁ l₂ : List (Event α)} :
    MarkerFree (l₁ ++ l₂) ↔ MarkerFree l₁ ∧ MarkerFree l₂ := by
  simp [MarkerFree, or_imp, forall_and]

theorem markerFree_cons {e : Event α} {l : List (Event α)} :
    MarkerFree (e :: l) ↔ e.isObserverPanic = false ∧ MarkerFree l := by
  simp [MarkerFree]

theorem receivedBy_append (i : Nat) (d₁ d₂ : List (Nat × Event α)) :
    receivedBy i (d₁ ++ d₂) = receivedBy i d₁ ++ receivedBy i d₂ := by
  simp [receivedBy]

theorem receivedBy_range_map (e : Event α) (i m : Nat) :
    receivedBy i ((List.range m).map (fun k => (k, e))) = if i < m then [e] else [] := by
  simp only [receivedBy, List.filterMap_map]
  have : ((fun p : Nat × Event α => if p.1 = i then some p.2 else none) ∘ fun k => (k, e)) =
      fun k => if k = i then some e else none := rfl
  rw [this]
  split
  · rename_i h; exact filterMap_range_one e i m h
  · rename_i h; exact filterMap_range_none e i m (by omega)

theorem reach_of_head (n : Nat) {l : List (Event α)} (h : ∀ e, l.head? = some e → e.isObserverPanic = false) :
    reach n l = n := by
  cases l with
  | nil => rfl
  | cons e l =>
    have := h e rfl
    cases e <;> simp_all [reach, Event.isObserverPanic]

/-- what observer `i` receives of the first event of a list: the event, if it is one the
annealer sends to observers and its delivery got as far as `i` -/
theorem receivedBy_deliveries_cons (n i : Nat) (e : Event α) (rest : List (Event α)) :
    receivedBy i (deliveries n (e :: rest)) =
      (if e.observable = true ∧ i < reach n rest then [e] else []) ++ receivedBy i (deliveries n rest) := by
  simp only [deliveries, receivedBy_append]
  congr 1
  by_cases he : e.observable = true
  · simp only [he, if_true, receivedBy_range_map, true_and]
  · simp [he, receivedBy]

theorem receivedBy_deliveries_markerFree (n i : Nat) (hi : i < n) : ∀ l : List (Event α),
    MarkerFree l → receivedBy i (deliveries n l) = l.filter Event.observable
  | [], _ => rfl
  | e :: l, h => by
    have hl : MarkerFree l := (markerFree_cons.mp h).2
    have hr : reach n l = n := reach_of_head n (fun e' he' => hl e' (List.mem_of_mem_head? he'))
    rw [receivedBy_deliveries_cons, receivedBy_deliveries_markerFree n i hi l hl, hr]
    by_cases he : e.observable = true <;> simp [he, hi]

theorem deliveries_markerFree (n : Nat) : ∀ l : List (Event α), MarkerFree l →
    deliveries n l = (l.filter Event.observable).flatMap (fun e => (List.range n).map (fun i => (i, e)))
  | [], _ => rfl
  | e :: l, h => by
    have hl : MarkerFree l := (markerFree_cons.mp h).2
    have hr : reach n l = n := reach_of_head n (fun e' he' => hl e' (List.mem_of_mem_head? he'))
    simp only [deliveries, hr, deliveries_markerFree n l hl]
    by_cases he : e.observable = true <;> simp [he]

/-- the delivery of `e` stops in observer `j`: observers `0 … j` have `e` in what they received,
the others do not; everything else reaches everybody -/
theorem receivedBy_deliveries_panic (n i j : Nat) (hi : i < n) (e : Event α) (post : List (Event α))
    (he : e.observable = true) (hpost : MarkerFree post) : ∀ pre : List (Event α), MarkerFree pre →
    receivedBy i (deliveries n (pre ++ e :: .observerPanic j :: post)) =
      pre.filter Event.observable ++ (if i ≤ j then [e] else []) ++ post.filter Event.observable
  | [], _ => by
    have hm : (Event.observerPanic j : Event α).observable = false := rfl
    rw [List.nil_append, receivedBy_deliveries_cons, receivedBy_deliveries_cons,
      receivedBy_deliveries_markerFree n i hi post hpost]
    have hiff : i < min (j + 1) n ↔ i ≤ j := by omega
    simp [he, hm, reach, hiff]
  | x :: pre, h => by
    have hpre : MarkerFree pre := (markerFree_cons.mp h).2
    have hr : reach n (pre ++ e :: .observerPanic j :: post) = n := by
      apply reach_of_head
      intro e' he'
      cases pre with
      | nil =>
        simp only [List.nil_append, List.head?_cons, Option.some.injEq] at he'
        subst he'
        cases e <;> simp_all [Event.observable, Event.isObserverPanic]
      | cons y pre' =>
        simp only [List.cons_append, List.head?_cons, Option.some.injEq] at he'
        subst he'
        exact hpre _ (List.mem_cons_self ..)
    rw [List.cons_append, receivedBy_deliveries_cons, hr,
      receivedBy_deliveries_panic n i j hi e post he hpost pre hpre]
    by_cases hx : x.observable = true <;> simp [hx, hi]

end observers

section runshape
variable {α : Type} [Mul α]

/-- the panic site is not an observer's callback -/
def NotNotify (p : Option PanicSite) : Prop := ∀ pt j, p ≠ some (.notify pt j)

theorem observerAt_notNotify {p : Option PanicSite} (h : NotNotify p) (pt : NotifyPoint) :
    observerAt p pt = none := by
  rcases p with _ | s
  · rfl
  · cases s with
    | notify pt' j => exact absurd rfl (h pt' j)
    | _ => rfl

theorem iterationPanic_markerFree (a : α) {p : Option PanicSite} (hp : NotNotify p) {i cur : Nat} {T : α}
    {evs : List (Event α)} {T' : α} (h : iterationPanic a p i cur T = some (evs, T')) : MarkerFree evs := by
  rcases p with _ | s
  · simp [iterationPanic] at h
  · cases s with
    | notify pt' j => exact absurd rfl (hp pt' j)
    | initialise => simp [iterationPanic] at h
    | finishAttributes => simp [iterationPanic] at h
    | tearDown => simp [iterationPanic] at h
    | tryRandomChange k =>
      simp only [iterationPanic] at h
      split at h
      · cases h; simp [MarkerFree, Event.isObserverPanic]
      · cases h
    | coolDown k =>
      simp only [iterationPanic] at h
      split at h
      · cases h; simp [MarkerFree, Event.isObserverPanic]
      · cases h
    | coolDownAfter k =>
      simp only [iterationPanic] at h
      split at h
      · cases h; simp [MarkerFree, Event.isObserverPanic]
      · cases h

theorem iterationEvents_markerFree (a : α) (k : Nat) (T : α) : MarkerFree (iterationEvents a k T) := by
  simp [MarkerFree, iterationEvents, Event.isObserverPanic]

theorem loop_markerFree (N : Nat) (a : α) {p : Option PanicSite} (hp : NotNotify p) :
    ∀ (fuel i cur : Nat) (T : α), MarkerFree (loop N a p fuel i cur T).1
  | 0, _, _, _ => by simp [loop, MarkerFree]
  | fuel + 1, i, cur, T => by
    simp only [loop]
    split
    · rename_i evs T' heq
      exact iterationPanic_markerFree a hp heq
    · split
      · exact iterationEvents_markerFree a (cur + 1) T
      · exact markerFree_append.mpr ⟨iterationEvents_markerFree a (cur + 1) T,
          loop_markerFree N a hp fuel (i + 1) (cur + 1) (T * a)⟩

omit [Mul α] in
theorem finish_markerFree {p : Option PanicSite} (hp : NotNotify p) {pre : List (Event α)}
    (hpre : MarkerFree pre) (cur : Nat) (T : α) : MarkerFree (finish p pre cur T).events := by
  unfold finish
  split
  · exact markerFree_append.mpr ⟨hpre, by simp [MarkerFree, Event.isObserverPanic]⟩
  · rw [observerAt_notNotify hp]
    exact markerFree_append.mpr ⟨hpre, by simp [MarkerFree, Event.isObserverPanic]⟩

omit [Mul α] in
theorem conclude_markerFree {p : Option PanicSite} (hp : NotNotify p) (T0 : α)
    (r : List (Event α) × LoopExit α) (hr : MarkerFree r.1) : MarkerFree (conclude p T0 r).events := by
  have h2 : MarkerFree ([.explorerInitialise, .startedAnnealing T0] : List (Event α)) := by
    simp [MarkerFree, Event.isObserverPanic]
  rcases r with ⟨evs, _ | _ | _⟩
  · exact finish_markerFree hp (markerFree_append.mpr ⟨h2, hr⟩) _ _
  · exact markerFree_append.mpr ⟨markerFree_append.mpr ⟨h2, hr⟩, by simp [MarkerFree, Event.isObserverPanic]⟩
  · exact markerFree_append.mpr ⟨h2, hr⟩

/-- unless the injected panic is in an observer, no delivery of a run is cut short -/
theorem anneal_markerFree (N cur0 : Nat) (T0 a : α) {p : Option PanicSite} (hp : NotNotify p) :
    MarkerFree (anneal N cur0 T0 a p).events := by
  have h2 : MarkerFree ([.explorerInitialise, .startedAnnealing T0] : List (Event α)) := by
    simp [MarkerFree, Event.isObserverPanic]
  by_cases hinit : p = some .initialise
  · subst hinit; simp [anneal, MarkerFree, Event.isObserverPanic]
  · rw [anneal_eq N cur0 T0 a hinit (observerAt_notNotify hp _)]
    split
    · exact finish_markerFree hp h2 _ _
    · exact conclude_markerFree hp T0 _ (loop_markerFree N a hp _ _ _ _)

/-- shape of "the delivery of the last event sent stopped in observer `j`" -/
def CutAt (j : Nat) (evs : List (Event α)) : Prop :=
  ∃ pre e, evs = pre ++ [e, .observerPanic j] ∧ MarkerFree pre ∧ e.observable = true

theorem iterationPanic_notify (a : α) {pt : NotifyPoint} {j i cur : Nat} {T : α}
    {evs : List (Event α)} {T' : α}
    (h : iterationPanic a (some (.notify pt j)) i cur T = some (evs, T')) : CutAt j evs := by
  cases pt with
  | startedAnnealing => simp [iterationPanic] at h
  | finishedAnnealing => simp [iterationPanic] at h
  | startedIteration k =>
    simp only [iterationPanic] at h
    split at h
    · cases h
      exact ⟨[], _, rfl, by simp [MarkerFree], rfl⟩
    · cases h
  | finishedIteration k =>
    simp only [iterationPanic] at h
    split at h
    · cases h
      exact ⟨[.startedIteration cur T, .tryRandomChange, .coolDown], _, rfl,
        by simp [MarkerFree, Event.isObserverPanic], rfl⟩
    · cases h

theorem loop_notify (N : Nat) (a : α) (pt : NotifyPoint) (j : Nat) :
    ∀ (fuel i cur : Nat) (T : α),
      (MarkerFree (loop N a (some (.notify pt j)) fuel i cur T).1 ∧
        ∀ c T', (loop N a (some (.notify pt j)) fuel i cur T).2 ≠ .panicked c T') ∨
      ((∃ c T', (loop N a (some (.notify pt j)) fuel i cur T).2 = .panicked c T') ∧
        CutAt j (loop N a (some (.notify pt j)) fuel i cur T).1)
  | 0, _, _, _ => by simp [loop, MarkerFree]
  | fuel + 1, i, cur, T => by
    simp only [loop]
    split
    · rename_i evs T' heq
      exact Or.inr ⟨⟨_, _, rfl⟩, iterationPanic_notify a heq⟩
    · split
      · exact Or.inl ⟨iterationEvents_markerFree a (cur + 1) T, by simp⟩
      · rcases loop_notify N a pt j fuel (i + 1) (cur + 1) (T * a) with ⟨h1, h2⟩ | ⟨h1, pre, e, h2, h3, h4⟩
        · exact Or.inl ⟨markerFree_append.mpr ⟨iterationEvents_markerFree a (cur + 1) T, h1⟩, h2⟩
        · refine Or.inr ⟨h1, iterationEvents a (cur + 1) T ++ pre, e, ?_, ?_, h4⟩
          · dsimp only
            rw [h2]; simp [iterationEvents]
          · exact markerFree_append.mpr ⟨iterationEvents_markerFree a (cur + 1) T, h3⟩

omit [Mul α] in
theorem finish_notify (pt : NotifyPoint) (j : Nat) {pre : List (Event α)} (hpre : MarkerFree pre)
    (cur : Nat) (T : α) :
    ((finish (some (.notify pt j)) pre cur T).outcome = .returned ∧
      MarkerFree (finish (some (.notify pt j)) pre cur T).events) ∨
    ((finish (some (.notify pt j)) pre cur T).outcome = .repanicked ∧
      ∃ pre' e, (finish (some (.notify pt j)) pre cur T).events = pre' ++ [e, .observerPanic j, .explorerTearDown] ∧
        MarkerFree pre' ∧ e.observable = true) := by
  by_cases hpt : pt = .finishedAnnealing
  · subst hpt
    refine Or.inr ?_
    simp only [finish, observerAt, if_true]
    exact ⟨rfl, pre, _, rfl, hpre, rfl⟩
  · refine Or.inl ?_
    simp only [finish, observerAt, if_false, hpt]
    exact ⟨rfl, markerFree_append.mpr ⟨hpre, by simp [MarkerFree, Event.isObserverPanic]⟩⟩

/-- a run whose injected panic is in observer `j` at notify point `pt` (any budget, any entry
counter): either the point is never reached and the run is an undisturbed one, or the run is
re-panicked and its events end with the event of that point, the marker, and the teardown -/
theorem anneal_notify (N cur0 : Nat) (T0 a : α) (pt : NotifyPoint) (j : Nat) :
    ((anneal N cur0 T0 a (some (.notify pt j))).outcome = .returned ∧
      MarkerFree (anneal N cur0 T0 a (some (.notify pt j))).events) ∨
    ((anneal N cur0 T0 a (some (.notify pt j))).outcome = .repanicked ∧
      ∃ pre e, (anneal N cur0 T0 a (some (.notify pt j))).events =
          pre ++ [e, .observerPanic j, .explorerTearDown] ∧
        MarkerFree pre ∧ e.observable = true) := by
  have h2 : MarkerFree ([.explorerInitialise, .startedAnnealing T0] : List (Event α)) := by
    simp [MarkerFree, Event.isObserverPanic]
  have hinit : (some (.notify pt j) : Option PanicSite) ≠ some .initialise := by simp
  by_cases hpt : pt = .startedAnnealing
  · subst hpt
    refine Or.inr ?_
    rw [anneal_eq_start_panic N cur0 T0 a (j := j) hinit (by simp [observerAt])]
    exact ⟨rfl, [.explorerInitialise], _, rfl, by simp [MarkerFree, Event.isObserverPanic], rfl⟩
  · rw [anneal_eq N cur0 T0 a hinit (by simp [observerAt, hpt])]
    split
    · exact finish_notify pt j h2 _ _
    · have hl := loop_notify N a pt j (N - cur0 + 1) 0 cur0 T0
      have hf := loop_not_outOfFuel N a (some (.notify pt j)) (N - cur0 + 1) 0 cur0 T0 (by omega) (by omega)
      rcases hloop : loop N a (some (.notify pt j)) (N - cur0 + 1) 0 cur0 T0 with ⟨evs, ⟨cur, T⟩ | ⟨cur, T⟩ | ⟨cur, T⟩⟩
      · rw [hloop] at hl
        rcases hl with ⟨h1, -⟩ | ⟨⟨c, T', h1⟩, -⟩
        · exact finish_notify pt j (markerFree_append.mpr ⟨h2, h1⟩) _ _
        · cases h1
      · rw [hloop] at hl
        rcases hl with ⟨-, h1⟩ | ⟨-, pre, e, h1, h3, h4⟩
        · exact absurd rfl (h1 cur T)
        · refine Or.inr ⟨rfl, [.explorerInitialise, .startedAnnealing T0] ++ pre, e, ?_,
            markerFree_append.mpr ⟨h2, h3⟩, h4⟩
          dsimp only at h1
          simp [conclude, h1]
      · rw [hloop] at hf
        exact absurd rfl (hf cur T)

theorem iterationPanic_forms (a : α) {p : Option PanicSite} {i cur : Nat} {T : α}
    {evs : List (Event α)} {T' : α} (h : iterationPanic a p i cur T = some (evs, T')) :
    ∃ j, evs = [.startedIteration cur T, .observerPanic j] ∨
      evs = [.startedIteration cur T, .tryRandomChange] ∨
      evs = [.startedIteration cur T, .tryRandomChange, .coolDown] ∨
      evs = [.startedIteration cur T, .tryRandomChange, .coolDown, .finishedIteration cur (T * a),
        .observerPanic j] := by
  rcases p with _ | s
  · simp [iterationPanic] at h
  · cases s with
    | initialise => simp [iterationPanic] at h
    | finishAttributes => simp [iterationPanic] at h
    | tearDown => simp [iterationPanic] at h
    | tryRandomChange k =>
      simp only [iterationPanic] at h
      split at h
      · cases h; exact ⟨0, Or.inr (Or.inl rfl)⟩
      · cases h
    | coolDown k =>
      simp only [iterationPanic] at h
      split at h
      · cases h; exact ⟨0, Or.inr (Or.inr (Or.inl rfl))⟩
      · cases h
    | coolDownAfter k =>
      simp only [iterationPanic] at h
      split at h
      · cases h; exact ⟨0, Or.inr (Or.inr (Or.inl rfl))⟩
      · cases h
    | notify pt j =>
      cases pt with
      | startedAnnealing => simp [iterationPanic] at h
      | finishedAnnealing => simp [iterationPanic] at h
      | startedIteration k =>
        simp only [iterationPanic] at h
        split at h
        · cases h; exact ⟨j, Or.inl rfl⟩
        · cases h
      | finishedIteration k =>
        simp only [iterationPanic] at h
        split at h
        · cases h; exact ⟨j, Or.inr (Or.inr (Or.inr rfl))⟩
        · cases h

theorem loop_no_teardown (N : Nat) (a : α) (p : Option PanicSite) :
    ∀ (fuel i cur : Nat) (T : α), (loop N a p fuel i cur T).1.countP Event.isTearDown = 0
  | 0, _, _, _ => rfl
  | fuel + 1, i, cur, T => by
    simp only [loop]
    split
    · rename_i evs T' heq
      obtain ⟨j, h | h | h | h⟩ := iterationPanic_forms a heq <;> subst h <;> rfl
    · split
      · rfl
      · dsimp only
        rw [List.countP_append, loop_no_teardown N a p fuel (i + 1) (cur + 1) (T * a)]
        rfl

theorem loop_none_not_panicked (N : Nat) (a : α) :
    ∀ (fuel i cur : Nat) (T : α) (c : Nat) (T' : α), (loop N a none fuel i cur T).2 ≠ .panicked c T'
  | 0, _, _, _, _, _ => by simp [loop]
  | fuel + 1, i, cur, T, c, T' => by
    have hnone : iterationPanic a none (i + 1) (cur + 1) T = none := rfl
    simp only [loop, hnone]
    split
    · simp
    · exact loop_none_not_panicked N a fuel (i + 1) (cur + 1) (T * a) c T'

omit [Mul α] in
theorem finish_teardown (p : Option PanicSite) {pre : List (Event α)}
    (hpre : pre.countP Event.isTearDown = 0) (cur : Nat) (T : α) :
    (finish p pre cur T).events.getLast? = some .explorerTearDown ∧
    (finish p pre cur T).events.countP Event.isTearDown = 1 := by
  unfold finish
  split
  · simp [List.countP_append, hpre, Event.isTearDown]
  · split <;> simp [List.countP_append, hpre, Event.isTearDown]

/-- in every run in which the explorer's `Initialise()` returned the explorer is torn down exactly
once, and that is the last thing that happens -/
theorem anneal_teardown (N cur0 : Nat) (T0 a : α) (p : Option PanicSite) (hinit : p ≠ some .initialise) :
    (anneal N cur0 T0 a p).events.getLast? = some .explorerTearDown ∧
    (anneal N cur0 T0 a p).events.countP Event.isTearDown = 1 := by
  rcases hS : observerAt p .startedAnnealing with _ | j
  · rw [anneal_eq N cur0 T0 a hinit hS]
    split
    · exact finish_teardown p rfl _ _
    · have hf := loop_not_outOfFuel N a p (N - cur0 + 1) 0 cur0 T0 (by omega) (by omega)
      have hc := loop_no_teardown N a p (N - cur0 + 1) 0 cur0 T0
      rcases hloop : loop N a p (N - cur0 + 1) 0 cur0 T0 with ⟨evs, ⟨cur, T⟩ | ⟨cur, T⟩ | ⟨cur, T⟩⟩
      · rw [hloop] at hc
        exact finish_teardown p (by simpa [List.countP_append, Event.isTearDown] using hc) _ _
      · rw [hloop] at hc
        dsimp only at hc
        refine ⟨?_, by simp [conclude, List.countP_append, hc, Event.isTearDown]⟩
        simp only [conclude]
        rw [List.getLast?_append]
        simp
      · rw [hloop] at hf; exact absurd rfl (hf cur T)
  · rw [anneal_eq_start_panic N cur0 T0 a hinit hS]
    simp [Event.isTearDown]

end runshape

section prefixes
variable {α : Type} [Mul α]

theorem filter_observable_iterationEvents (a : α) (k : Nat) (T : α) :
    (iterationEvents a k T).filter Event.observable = [.startedIteration k T, .finishedIteration k (T * a)] := by
  simp [iterationEvents, List.filter_cons, Event.observable]

/-- the events a panicking iteration sends to observers are the first ones the complete
iteration would have sent -/
theorem iterationPanic_prefix (a : α) {p : Option PanicSite} {i cur : Nat} {T : α}
    {evs : List (Event α)} {T' : α} (h : iterationPanic a p i cur T = some (evs, T')) :
    evs.filter Event.observable <+: (iterationEvents a cur T).filter Event.observable := by
  rw [filter_observable_iterationEvents]
  rcases p with _ | s
  · simp [iterationPanic] at h
  · cases s with
    | initialise => simp [iterationPanic] at h
    | finishAttributes => simp [iterationPanic] at h
    | tearDown => simp [iterationPanic] at h
    | tryRandomChange k =>
      simp only [iterationPanic] at h
      split at h
      · cases h; exact ⟨[.finishedIteration cur (T * a)], by simp [List.filter_cons, Event.observable]⟩
      · cases h
    | coolDown k =>
      simp only [iterationPanic] at h
      split at h
      · cases h; exact ⟨[.finishedIteration cur (T * a)], by simp [List.filter_cons, Event.observable]⟩
      · cases h
    | coolDownAfter k =>
      simp only [iterationPanic] at h
      split at h
      · cases h; exact ⟨[.finishedIteration cur (T * a)], by simp [List.filter_cons, Event.observable]⟩
      · cases h
    | notify pt j =>
      cases pt with
      | startedAnnealing => simp [iterationPanic] at h
      | finishedAnnealing => simp [iterationPanic] at h
      | startedIteration k =>
        simp only [iterationPanic] at h
        split at h
        · cases h; exact ⟨[.finishedIteration cur (T * a)], by simp [List.filter_cons, Event.observable]⟩
        · cases h
      | finishedIteration k =>
        simp only [iterationPanic] at h
        split at h
        · cases h; exact ⟨[], by simp [List.filter_cons, Event.observable]⟩
        · cases h

theorem loop_prefix (N : Nat) (a : α) (p : Option PanicSite) :
    ∀ (fuel i cur : Nat) (T : α),
      loop N a p fuel i cur T = loop N a none fuel i cur T ∨
      ((∃ c T', (loop N a p fuel i cur T).2 = .panicked c T') ∧
        (loop N a p fuel i cur T).1.filter Event.observable <+:
          (loop N a none fuel i cur T).1.filter Event.observable)
  | 0, _, _, _ => Or.inl rfl
  | fuel + 1, i, cur, T => by
    have hnone : iterationPanic a none (i + 1) (cur + 1) T = none := rfl
    simp only [loop, hnone]
    split
    · rename_i evs T' heq
      refine Or.inr ⟨⟨_, _, rfl⟩, ?_⟩
      have hp := iterationPanic_prefix a heq
      simp only [iterationEvents] at hp
      split
      · exact hp
      · dsimp only
        rw [List.filter_append]
        exact hp.trans (List.prefix_append _ _)
    · split
      · exact Or.inl rfl
      · rcases loop_prefix N a p fuel (i + 1) (cur + 1) (T * a) with h | ⟨h1, h2⟩
        · exact Or.inl (by rw [h])
        · refine Or.inr ⟨h1, ?_⟩
          dsimp only
          rw [List.filter_append, List.filter_append]
          exact (List.prefix_append_right_inj _).mpr h2

omit [Mul α] in
theorem finish_prefix (p : Option PanicSite) (pre : List (Event α)) (cur : Nat) (T : α) :
    (finish p pre cur T).events.filter Event.observable <+:
      (finish none pre cur T).events.filter Event.observable := by
  have hn : (finish none pre cur T).events = pre ++ [.finishedAnnealing cur T, .explorerTearDown] := by
    simp [finish, observerAt]
  rw [hn]
  unfold finish
  split
  · simp only [List.filter_append]
    exact (List.prefix_append_right_inj _).mpr (by simp [List.filter_cons, Event.observable])
  · split
    · simp only [List.filter_append]
      exact (List.prefix_append_right_inj _).mpr
        (by simp [List.filter_cons, Event.observable])
    · exact List.prefix_refl _

omit [Mul α] in
theorem conclude_prefix (p : Option PanicSite) (T0 : α) (r r0 : List (Event α) × LoopExit α)
    (h : r = r0 ∨ ((∃ c T', r.2 = .panicked c T') ∧
      r.1.filter Event.observable <+: r0.1.filter Event.observable)) :
    (conclude p T0 r).events.filter Event.observable <+:
      (conclude none T0 r0).events.filter Event.observable := by
  rcases h with rfl | ⟨⟨c, T', h1⟩, h2⟩
  · rcases r with ⟨evs, _ | _ | _⟩
    · exact finish_prefix p _ _ _
    · exact List.prefix_refl _
    · exact List.prefix_refl _
  · rcases r with ⟨evs, ex⟩
    dsimp only at h1 h2
    subst h1
    have hstep : ([.explorerInitialise, .startedAnnealing T0] ++ evs ++ [.explorerTearDown] : List (Event α)).filter Event.observable <+:
        ([.explorerInitialise, .startedAnnealing T0] ++ r0.1 : List (Event α)).filter Event.observable := by
      have : ([.explorerTearDown] : List (Event α)).filter Event.observable = [] := rfl
      rw [List.filter_append, List.filter_append, List.filter_append, this, List.append_nil]
      exact (List.prefix_append_right_inj _).mpr h2
    refine List.IsPrefix.trans hstep ?_
    rcases r0 with ⟨evs0, _ | _ | _⟩
    · simp only [conclude, finish, observerAt, reduceCtorEq, if_false]
      rw [List.filter_append (l₂ := [_, _])]
      exact List.prefix_append _ _
    · simp only [conclude]
      rw [List.filter_append (l₂ := [_])]
      exact List.prefix_append _ _
    · exact List.prefix_refl _

/-- what a run with an injected panic sends to the observers is an initial part of what the
undisturbed run with the same budget, entry counter, temperature and cooling factor sends -/
theorem anneal_prefix (N cur0 : Nat) (T0 a : α) (p : Option PanicSite) :
    (anneal N cur0 T0 a p).events.filter Event.observable <+:
      (anneal N cur0 T0 a none).events.filter Event.observable := by
  have hn := anneal_eq N cur0 T0 a (p := none) (by simp) rfl
  by_cases hinit : p = some .initialise
  · subst hinit
    simp [anneal, Event.observable]
  · rcases hS : observerAt p .startedAnnealing with _ | j
    · rw [anneal_eq N cur0 T0 a hinit hS, hn]
      split
      · exact finish_prefix p _ _ _
      · exact conclude_prefix p T0 _ _ (loop_prefix N a p _ _ _ _)
    · rw [anneal_eq_start_panic N cur0 T0 a hinit hS, hn]
      have hl : ([.explorerInitialise, .startedAnnealing T0, .observerPanic j, .explorerTearDown] : List (Event α)).filter Event.observable =
          [.startedAnnealing T0] := rfl
      dsimp only
      rw [hl]
      split
      · exact ⟨[.finishedAnnealing cur0 T0], by simp [finish, observerAt, List.filter_cons, Event.observable]⟩
      · rcases loop N a none (N - cur0 + 1) 0 cur0 T0 with ⟨evs0, _ | _ | _⟩ <;>
          simp [conclude, finish, observerAt, List.filter_cons, Event.observable]

omit [Mul α] in
/-- only the events sent to observers carry a temperature -/
theorem filterMap_temperature_filter (l : List (Event α)) :
    l.filterMap Event.temperature? = (l.filter Event.observable).filterMap Event.temperature? := by
  induction l with
  | nil => rfl
  | cons e l ih =>
    cases e <;> simp [List.filter_cons, List.filterMap_cons, Event.temperature?, Event.observable, ih]

end prefixes

end Crem.Anneal
