import Crem.Model.Anneal
import Mathlib.Algebra.Order.Ring.Defs
import Mathlib.Algebra.Group.Basic
import Mathlib.Tactic.Linarith
/-!
Helper lemmas for C07: what the loop of `Crem/Model/Anneal.lean` produces.
-/
namespace Crem.Anneal

section loop
variable {α : Type} [Mul α]

/-- the panic site is iteration `k` (either call) -/
def fires (p : Option PanicSite) (k : Nat) : Prop :=
  p = some (.tryRandomChange k) ∨ p = some (.coolDown k)

/-- iterations `cur+1 … cur+m`, entered at temperature `T` -/
def iterationsFrom (a : α) (cur : Nat) (T : α) (m : Nat) : List (Event α) :=
  (List.range m).flatMap (fun j => iterationEvents a (cur + j + 1) (temp T a j))

theorem temp_shift (T a : α) : ∀ k, temp (T * a) a k = temp T a (k + 1)
  | 0 => rfl
  | k + 1 => by simp only [temp]; rw [temp_shift T a k]; rfl

theorem iterationsFrom_succ (a : α) (cur : Nat) (T : α) (m : Nat) :
    iterationsFrom a cur T (m + 1) =
      iterationEvents a (cur + 1) T ++ iterationsFrom a (cur + 1) (T * a) m := by
  simp only [iterationsFrom, List.range_succ_eq_map, List.flatMap_cons, List.flatMap_map]
  congr 1
  congr 1
  funext j
  rw [temp_shift]
  congr 1
  omega

theorem iterations_eq_from (T0 a : α) (n : Nat) : iterations T0 a n = iterationsFrom a 0 T0 n := by
  simp [iterations, iterationsFrom]

theorem iterations_succ (T0 a : α) (n : Nat) :
    iterations T0 a (n + 1) = iterations T0 a n ++ iterationEvents a (n + 1) (temp T0 a n) := by
  simp [iterations, List.range_succ, List.flatMap_append]

/-- complete iterations: no panic fires in the next `m` iterations, which exhaust the budget -/
theorem loop_complete (N : Nat) (a : α) (p : Option PanicSite) :
    ∀ (m fuel i cur : Nat) (T : α), cur + (m + 1) = N → m + 1 ≤ fuel →
      (∀ k, i < k → k ≤ i + (m + 1) → ¬ fires p k) →
      loop N a p fuel i cur T = (iterationsFrom a cur T (m + 1), .done N (temp T a (m + 1)))
  | m, 0, _, _, _, _, hf, _ => by omega
  | 0, fuel + 1, i, cur, T, hN, _, hp => by
    have h1 : p ≠ some (.tryRandomChange (i + 1)) := fun h => hp (i + 1) (by omega) (by omega) (Or.inl h)
    have h2 : p ≠ some (.coolDown (i + 1)) := fun h => hp (i + 1) (by omega) (by omega) (Or.inr h)
    have h3 : cur + 1 ≥ N := by omega
    have h4 : cur + 1 = N := by omega
    simp [loop, h1, h2, iterationsFrom, iterationEvents, temp, h4]
  | m + 1, fuel + 1, i, cur, T, hN, hf, hp => by
    have h1 : p ≠ some (.tryRandomChange (i + 1)) := fun h => hp (i + 1) (by omega) (by omega) (Or.inl h)
    have h2 : p ≠ some (.coolDown (i + 1)) := fun h => hp (i + 1) (by omega) (by omega) (Or.inr h)
    have h3 : ¬ cur + 1 ≥ N := by omega
    have ih := loop_complete N a p m fuel (i + 1) (cur + 1) (T * a) (by omega) (by omega)
      (fun k hk1 hk2 => hp k (by omega) (by omega))
    rw [iterationsFrom_succ]
    simp only [loop, h1, h2, h3, if_false, ih, iterationEvents, temp_shift]

/-- `d` complete iterations, then `TryRandomChange` panics in the next one -/
theorem loop_panic_try (N : Nat) (a : α) (j : Nat) :
    ∀ (d fuel i cur : Nat) (T : α), j = i + d + 1 → cur + d + 1 ≤ N → d + 1 ≤ fuel →
      loop N a (some (.tryRandomChange j)) fuel i cur T =
        (iterationsFrom a cur T d ++ [.startedIteration (cur + d + 1) (temp T a d), .tryRandomChange],
          .panicked (cur + d + 1) (temp T a d))
  | d, 0, _, _, _, _, _, hf => by omega
  | 0, fuel + 1, i, cur, T, hj, _, _ => by
    subst hj
    simp [loop, iterationsFrom, temp]
  | d + 1, fuel + 1, i, cur, T, hj, hN, hf => by
    have h1 : (some (PanicSite.tryRandomChange j) : Option PanicSite) ≠ some (.tryRandomChange (i + 1)) := by
      simp; omega
    have h3 : ¬ cur + 1 ≥ N := by omega
    have ih := loop_panic_try N a j d fuel (i + 1) (cur + 1) (T * a) (by omega) (by omega) (by omega)
    rw [iterationsFrom_succ]
    simp only [loop, h1, h3, if_false, ih, iterationEvents, temp_shift]
    simp [Nat.add_assoc, Nat.add_comm 1 d]

/-- `d` complete iterations, then `CoolDown` panics in the next one -/
theorem loop_panic_cool (N : Nat) (a : α) (j : Nat) :
    ∀ (d fuel i cur : Nat) (T : α), j = i + d + 1 → cur + d + 1 ≤ N → d + 1 ≤ fuel →
      loop N a (some (.coolDown j)) fuel i cur T =
        (iterationsFrom a cur T d ++
          [.startedIteration (cur + d + 1) (temp T a d), .tryRandomChange, .coolDown],
          .panicked (cur + d + 1) (temp T a d))
  | d, 0, _, _, _, _, _, hf => by omega
  | 0, fuel + 1, i, cur, T, hj, _, _ => by
    subst hj
    simp [loop, iterationsFrom, temp]
  | d + 1, fuel + 1, i, cur, T, hj, hN, hf => by
    have h1 : (some (PanicSite.coolDown j) : Option PanicSite) ≠ some (.coolDown (i + 1)) := by
      simp; omega
    have h3 : ¬ cur + 1 ≥ N := by omega
    have ih := loop_panic_cool N a j d fuel (i + 1) (cur + 1) (T * a) (by omega) (by omega) (by omega)
    rw [iterationsFrom_succ]
    simp only [loop, h1, h3, if_false, ih, iterationEvents, temp_shift]
    simp [Nat.add_assoc, Nat.add_comm 1 d]

/-- entered with the counter already at or beyond the budget (a second `Anneal()` on the same
annealer object): exactly one more iteration runs -/
theorem loop_overrun (N : Nat) (a : α) (fuel i cur : Nat) (T : α) (h : N ≤ cur + 1) :
    loop N a none (fuel + 1) i cur T = (iterationEvents a (cur + 1) T, .done (cur + 1) (T * a)) := by
  have h3 : cur + 1 ≥ N := h
  simp [loop, h3, iterationEvents]

/-- a run without a (firing) panic site, fresh counter -/
theorem anneal_complete (N : Nat) (T0 a : α) (p : Option PanicSite) (hinit : p ≠ some .initialise)
    (hp : ∀ k, 1 ≤ k → k ≤ N → ¬ fires p k) :
    anneal N 0 T0 a p =
      ⟨[.explorerInitialise, .startedAnnealing T0] ++ iterations T0 a N ++
          [.finishedAnnealing N (temp T0 a N), .explorerTearDown],
        .returned, N, temp T0 a N⟩ := by
  cases N with
  | zero => simp [anneal, hinit, iterations, temp]
  | succ n =>
    have hl := loop_complete (n + 1) a p n (n + 1 - 0 + 1) 0 0 T0 (by omega) (by omega)
      (fun k hk1 hk2 => hp k (by omega) (by omega))
    simp only [anneal, hinit, if_false, hl, iterations_eq_from]
    simp

end loop

section counting
variable {α : Type} [Mul α]

theorem countP_iterations (T0 a : α) (n : Nat) :
    (iterations T0 a n).countP Event.isTry = n ∧
    (iterations T0 a n).countP Event.isStartedIteration = n ∧
    (iterations T0 a n).countP Event.isFinishedIteration = n ∧
    (iterations T0 a n).countP Event.isFinishedAnnealing = 0 := by
  induction n with
  | zero => simp [iterations]
  | succ n ih =>
    obtain ⟨h1, h2, h3, h4⟩ := ih
    rw [iterations_succ]
    simp [List.countP_append, h1, h2, h3, h4, iterationEvents, Event.isTry, Event.isStartedIteration,
      Event.isFinishedIteration, Event.isFinishedAnnealing, List.countP_cons]

theorem mem_iterations {T0 a : α} {n : Nat} {e : Event α} (h : e ∈ iterations T0 a n) :
    ∃ j, j < n ∧ e ∈ iterationEvents a (j + 1) (temp T0 a j) := by
  simp only [iterations, List.mem_flatMap, List.mem_range] at h
  exact h

end counting

section temperature

theorem temp_eq_mul_pow {α : Type} [Monoid α] (T0 a : α) : ∀ k, temp T0 a k = T0 * a ^ k
  | 0 => by simp [temp]
  | k + 1 => by simp only [temp]; rw [temp_eq_mul_pow T0 a k, pow_succ, mul_assoc]

variable {α : Type} [Semiring α] [PartialOrder α] [IsOrderedRing α]

theorem temp_nonneg (T0 a : α) (hT : 0 ≤ T0) (ha : 0 ≤ a) : ∀ k, 0 ≤ temp T0 a k
  | 0 => hT
  | k + 1 => mul_nonneg (temp_nonneg T0 a hT ha k) ha

theorem temp_succ_le (T0 a : α) (hT : 0 ≤ T0) (ha : 0 ≤ a) (ha1 : a ≤ 1) (k : Nat) :
    temp T0 a (k + 1) ≤ temp T0 a k := by
  have h := mul_le_mul_of_nonneg_left ha1 (temp_nonneg T0 a hT ha k)
  simpa [temp] using h

theorem temp_antitone (T0 a : α) (hT : 0 ≤ T0) (ha : 0 ≤ a) (ha1 : a ≤ 1) :
    ∀ {j k : Nat}, j ≤ k → temp T0 a k ≤ temp T0 a j := by
  intro j k hjk
  induction hjk with
  | refl => exact le_refl _
  | step _ ih => exact le_trans (temp_succ_le T0 a hT ha ha1 _) ih

omit [PartialOrder α] [IsOrderedRing α] in
/-- the temperatures carried by the iteration events, in order -/
theorem temps_iterations_succ (T0 a : α) (n : Nat) :
    (iterations T0 a (n + 1)).filterMap Event.temperature? =
      (iterations T0 a n).filterMap Event.temperature? ++ [temp T0 a n, temp T0 a (n + 1)] := by
  rw [iterations_succ]
  simp [List.filterMap_append, iterationEvents, temp, List.filterMap_cons, Event.temperature?]

omit [PartialOrder α] [IsOrderedRing α] in
theorem mem_temps_iterations (T0 a : α) : ∀ (n : Nat) (x : α),
    x ∈ (iterations T0 a n).filterMap Event.temperature? → ∃ j, j ≤ n ∧ x = temp T0 a j
  | 0, x, h => by simp [iterations] at h
  | n + 1, x, h => by
    rw [temps_iterations_succ, List.mem_append] at h
    rcases h with h | h
    · obtain ⟨j, hj, rfl⟩ := mem_temps_iterations T0 a n x h
      exact ⟨j, by omega, rfl⟩
    · simp only [List.mem_cons, List.not_mem_nil, or_false] at h
      rcases h with rfl | rfl
      · exact ⟨n, by omega, rfl⟩
      · exact ⟨n + 1, by omega, rfl⟩

theorem pairwise_temps_iterations (T0 a : α) (hT : 0 ≤ T0) (ha : 0 ≤ a) (ha1 : a ≤ 1) :
    ∀ n, ((iterations T0 a n).filterMap Event.temperature?).Pairwise (fun x y => y ≤ x)
  | 0 => by simp [iterations]
  | n + 1 => by
    rw [temps_iterations_succ, List.pairwise_append]
    refine ⟨pairwise_temps_iterations T0 a hT ha ha1 n, ?_, ?_⟩
    · simp only [List.pairwise_cons, List.mem_cons, List.not_mem_nil, or_false, forall_eq,
        List.Pairwise.nil, and_true, IsEmpty.forall_iff, implies_true]
      exact temp_succ_le T0 a hT ha ha1 n
    · intro x hx y hy
      obtain ⟨j, hj, rfl⟩ := mem_temps_iterations T0 a n x hx
      simp only [List.mem_cons, List.not_mem_nil, or_false] at hy
      rcases hy with rfl | rfl
      · exact temp_antitone T0 a hT ha ha1 hj
      · exact temp_antitone T0 a hT ha ha1 (by omega)

end temperature

section observers
variable {α : Type}

theorem filterMap_range_none (e : Event α) (i : Nat) : ∀ n, n ≤ i →
    (List.range n).filterMap (fun k => if k = i then some e else none) = []
  | 0, _ => rfl
  | n + 1, h => by
    rw [List.range_succ, List.filterMap_append, filterMap_range_none e i n (by omega)]
    have : n ≠ i := by omega
    simp [this]

theorem filterMap_range_one (e : Event α) (i : Nat) : ∀ n, i < n →
    (List.range n).filterMap (fun k => if k = i then some e else none) = [e]
  | 0, h => by omega
  | n + 1, h => by
    rw [List.range_succ, List.filterMap_append]
    by_cases hn : n = i
    · subst hn
      rw [filterMap_range_none e n n (le_refl _)]
      simp
    · rw [filterMap_range_one e i n (by omega)]
      simp [hn]

theorem receivedBy_deliveries_aux (n i : Nat) (hi : i < n) : ∀ l : List (Event α),
    receivedBy i (l.flatMap (fun e => (List.range n).map (fun k => (k, e)))) = l
  | [] => rfl
  | e :: l => by
    have ih := receivedBy_deliveries_aux n i hi l
    simp only [receivedBy] at ih ⊢
    rw [List.flatMap_cons, List.filterMap_append, ih, List.filterMap_map]
    have : ((fun p : Nat × Event α => if p.1 = i then some p.2 else none) ∘ fun k => (k, e)) =
        fun k => if k = i then some e else none := rfl
    rw [this, filterMap_range_one e i n hi]
    rfl

end observers

end Crem.Anneal
