import Crem.Model.SummaryCsv
import Std.Data.String.ToNat
/-!
Helper lemmas for property C12 (names, labels, rows).  No property theorem lives here.
-/
namespace Crem.Naming

/-! ## decimal numerals -/

theorem natStr_ne_nil (n : Nat) : natStr n ≠ [] := Nat.toDigits_ne_nil

theorem natStr_isDigit (n : Nat) : ∀ c ∈ natStr n, c.isDigit = true :=
  fun _ hc => Nat.isDigit_of_mem_toDigits (by decide) (by decide) hc

theorem natStr_inj {m n : Nat} (h : natStr m = natStr n) : m = n := by
  apply Nat.repr_inj.mp
  rw [Nat.repr_eq_ofList_toDigits, Nat.repr_eq_ofList_toDigits]
  exact congrArg String.ofList h

theorem natStr_one : natStr 1 = ['1'] := by decide

/-- a string of decimal digits -/
def Digits (s : Str) : Prop := ∀ c ∈ s, c.isDigit = true

theorem digits_natStr (n : Nat) : Digits (natStr n) := natStr_isDigit n

theorem Digits.not_mem {s : Str} (h : Digits s) {c : Char} (hc : c.isDigit = false) : c ∉ s :=
  fun hm => by have := h c hm; simp [hc] at this

/-! ## prefix / substring -/

theorem isPrefix_iff {pat s : Str} : isPrefix pat s = true ↔ ∃ t, s = pat ++ t := by
  induction pat generalizing s with
  | nil => simp [isPrefix]
  | cons p ps ih =>
    cases s with
    | nil => simp [isPrefix]
    | cons c cs =>
      simp only [isPrefix, Bool.and_eq_true, beq_iff_eq, ih, List.cons_append, List.cons.injEq]
      constructor
      · rintro ⟨rfl, t, rfl⟩; exact ⟨t, rfl, rfl⟩
      · rintro ⟨t, rfl, rfl⟩; exact ⟨rfl, t, rfl⟩

theorem isPrefix_append_self (pat t : Str) : isPrefix pat (pat ++ t) = true :=
  isPrefix_iff.mpr ⟨t, rfl⟩

/-- a pattern that lacks the character `sep` cannot reach across it -/
theorem isPrefix_append_sep {pat : Str} {sep : Char} (h : sep ∉ pat) (a b : Str) :
    isPrefix pat (a ++ sep :: b) = isPrefix pat a := by
  induction pat generalizing a with
  | nil => simp [isPrefix]
  | cons p ps ih =>
    have hp : p ≠ sep := fun e => h (by simp [e])
    have hps : sep ∉ ps := fun e => h (by simp [e])
    cases a with
    | nil => simp [isPrefix, hp]
    | cons x a' => simp [isPrefix, ih hps]

theorem contains_append_sep {pat : Str} {sep : Char} (h : sep ∉ pat) (a b : Str) :
    contains pat (a ++ sep :: b) = (contains pat a || contains pat b) := by
  induction a with
  | nil =>
    have := isPrefix_append_sep h [] b
    simp only [List.nil_append] at this
    simp [contains, this]
  | cons x a' ih =>
    have := isPrefix_append_sep h (x :: a') b
    simp only [List.cons_append] at this ⊢
    simp [contains, this, ih, Bool.or_assoc]

theorem contains_false_of_head_not_mem {p : Char} {ps s : Str} (h : p ∉ s) :
    contains (p :: ps) s = false := by
  induction s with
  | nil => simp [contains, isPrefix]
  | cons c cs ih =>
    have hc : p ≠ c := fun e => h (by simp [e])
    have hcs : p ∉ cs := fun e => h (by simp [e])
    simp [contains, isPrefix, hc, ih hcs]

theorem contains_true_of_isPrefix {pat s : Str} (h : isPrefix pat s = true) : contains pat s = true := by
  cases s with
  | nil => simpa [contains] using h
  | cons c cs => simp [contains, h]

theorem contains_cons_of_contains {pat s : Str} (c : Char) (h : contains pat s = true) :
    contains pat (c :: s) = true := by simp [contains, h]

theorem contains_append_left_of {pat s : Str} (a : Str) (h : contains pat s = true) :
    contains pat (a ++ s) = true := by
  induction a with
  | nil => simpa
  | cons x a ih => exact contains_cons_of_contains x ih

/-- every suffix of a string without the pattern lacks it as a prefix -/
theorem isPrefix_false_of_contains_false {pat s : Str} (h : contains pat s = false) :
    isPrefix pat s = false := by
  rcases Bool.eq_false_or_eq_true (isPrefix pat s) with h' | h'
  · rw [contains_true_of_isPrefix h'] at h; exact absurd h (by simp)
  · exact h'

theorem contains_tail_false {pat : Str} {c : Char} {s : Str} (h : contains pat (c :: s) = false) :
    contains pat s = false := by
  simp [contains] at h; exact h.2

/-- a longer pattern occurring implies its prefix occurring -/
theorem contains_of_contains_append {q r s : Str} (h : contains (q ++ r) s = true) : contains q s = true := by
  induction s with
  | nil =>
    simp only [contains] at h ⊢
    obtain ⟨t, ht⟩ := isPrefix_iff.mp h
    have : q = [] := by
      have := congrArg List.length ht; simp at this; exact List.eq_nil_of_length_eq_zero (by omega)
    subst this; simp [isPrefix]
  | cons c cs ih =>
    simp only [contains, Bool.or_eq_true] at h ⊢
    rcases h with h | h
    · left
      obtain ⟨t, ht⟩ := isPrefix_iff.mp h
      exact isPrefix_iff.mpr ⟨r ++ t, by simp [ht]⟩
    · right; exact ih h

/-! ## splitting at the first occurrence of a character -/

theorem append_cons_unique {c : Char} {l₁ l₂ r₁ r₂ : Str} (h₁ : c ∉ l₁) (h₂ : c ∉ l₂)
    (h : l₁ ++ c :: r₁ = l₂ ++ c :: r₂) : l₁ = l₂ ∧ r₁ = r₂ := by
  induction l₁ generalizing l₂ with
  | nil =>
    cases l₂ with
    | nil => simpa using h
    | cons y l₂ => simp at h; exact absurd h.1 (fun e => h₂ (by simp [e]))
  | cons x l₁ ih =>
    cases l₂ with
    | nil => simp at h; exact absurd h.1.symm (fun e => h₁ (by simp [e]))
    | cons y l₂ =>
      simp only [List.cons_append, List.cons.injEq] at h
      have := ih (fun e => h₁ (by simp [e])) (fun e => h₂ (by simp [e])) h.2
      exact ⟨by rw [h.1, this.1], this.2⟩

theorem exists_first_split {c : Char} {s : Str} (h : c ∈ s) :
    ∃ s₁ s₂, s = s₁ ++ c :: s₂ ∧ c ∉ s₁ := by
  induction s with
  | nil => simp at h
  | cons x s ih =>
    by_cases hx : x = c
    · exact ⟨[], s, by simp [hx], by simp⟩
    · have hs : c ∈ s := by
        rcases List.mem_cons.mp h with e | e
        · exact absurd e.symm hx
        · exact e
      obtain ⟨s₁, s₂, e, hn⟩ := ih hs
      exact ⟨x :: s₁, s₂, by simp [e], by simp [hn, Ne.symm hx]⟩

/-- the literal `q ++ [c]` (with `c ∉ q`) cannot start inside a non-empty `X` that does not contain it
and finish inside a following copy of itself -/
theorem isPrefix_overlap_false {q : Str} {c : Char} (hc : c ∉ q) {X : Str} (hX : X ≠ [])
    (hn : contains (q ++ [c]) X = false) (w : Str) :
    isPrefix (q ++ [c]) (X ++ (q ++ c :: w)) = false := by
  rcases Bool.eq_false_or_eq_true (isPrefix (q ++ [c]) (X ++ (q ++ c :: w))) with h | h
  · exfalso
    obtain ⟨Z, hZ⟩ := isPrefix_iff.mp h
    have hZ2 : X ++ (q ++ c :: w) = q ++ c :: Z := by rw [hZ]; simp
    by_cases hcX : c ∈ X
    · obtain ⟨X₁, X₂, e, hX₁⟩ := exists_first_split hcX
      have hZ' : X₁ ++ c :: (X₂ ++ (q ++ c :: w)) = q ++ c :: Z := by
        rw [← hZ2, e]; simp
      have hq : X₁ = q := (append_cons_unique hX₁ hc hZ').1
      have : contains (q ++ [c]) X = true := by
        apply contains_true_of_isPrefix
        exact isPrefix_iff.mpr ⟨X₂, by rw [e, hq]; simp⟩
      rw [this] at hn; exact absurd hn (by simp)
    · have hZ' : (X ++ q) ++ c :: w = q ++ c :: Z := by rw [← hZ2]; simp
      have hXq : c ∉ X ++ q := by simp [hcX, hc]
      have := (append_cons_unique hXq hc hZ').1
      have hl := congrArg List.length this
      simp only [List.length_append] at hl
      exact hX (List.eq_nil_of_length_eq_zero (by omega))
  · exact h

/-! ## `<literal>.+\)` within one line -/

theorem afterLastClose_append_close {t : Str} (h : ')' ∉ t) : afterLastClose (t ++ [')']) = some [] := by
  induction t with
  | nil => simp [afterLastClose]
  | cons x t ih =>
    have hx : x ≠ ')' := fun e => h (by simp [e])
    have ht : ')' ∉ t := fun e => h (by simp [e])
    simp [afterLastClose, ih ht]

theorem replaceLine_skip {q : Str} {c : Char} (hc : c ∉ q) (rep : Str) {a : Str}
    (hn : contains (q ++ [c]) a = false) (w : Str) :
    replaceLine (q ++ [c]) rep (a ++ (q ++ c :: w)) = a ++ replaceLine (q ++ [c]) rep (q ++ c :: w) := by
  induction a with
  | nil => simp
  | cons x a ih =>
    have h1 : isPrefix (q ++ [c]) ((x :: a) ++ (q ++ c :: w)) = false :=
      isPrefix_overlap_false hc (by simp) hn w
    have h2 := contains_tail_false hn
    simp only [List.cons_append] at h1 ⊢
    rw [replaceLine, if_neg (by simp [h1]), ih h2]

theorem replaceLine_hit (pat rep : Str) {s : Str} (hs : s ≠ []) (hp : isPrefix pat s = true)
    {x : Char} {u r : Str} (hd : s.drop pat.length = x :: u) (ha : afterLastClose u = some r) :
    replaceLine pat rep s = rep ++ r := by
  cases s with
  | nil => exact absurd rfl hs
  | cons c t =>
    rw [replaceLine, if_pos hp]
    simp only [hd, ha]

/-- the shape every summary key of the repaired code has: `a ++ q ++ c :: x :: t ++ ")"` -/
theorem replaceLine_key {q : Str} {c : Char} (hc : c ∉ q) (rep : Str) {a : Str}
    (hn : contains (q ++ [c]) a = false) (x : Char) {t : Str} (ht : ')' ∉ t) :
    replaceLine (q ++ [c]) rep (a ++ (q ++ c :: (x :: t ++ [')']))) = a ++ rep := by
  rw [replaceLine_skip hc rep hn]
  have hs : q ++ c :: (x :: t ++ [')']) ≠ [] := by cases q <;> simp
  have hp : isPrefix (q ++ [c]) (q ++ c :: (x :: t ++ [')'])) = true :=
    isPrefix_iff.mpr ⟨x :: t ++ [')'], by simp⟩
  have hd : (q ++ c :: (x :: t ++ [')'])).drop (q ++ [c]).length = x :: (t ++ [')']) := by
    have e : q ++ c :: (x :: t ++ [')']) = (q ++ [c]) ++ (x :: (t ++ [')'])) := by simp
    rw [e, List.drop_left]
  have := replaceLine_hit (q ++ [c]) rep hs hp hd (afterLastClose_append_close ht)
  rw [this]; simp

theorem splitLines_of_no_newline {s : Str} (h : '\n' ∉ s) : splitLines s = [s] := by
  induction s with
  | nil => rfl
  | cons x s ih =>
    have hx : x ≠ '\n' := fun e => h (by simp [e])
    have hs : '\n' ∉ s := fun e => h (by simp [e])
    simp [splitLines, hx, ih hs]

theorem replaceAllLines_of_no_newline (pat rep : Str) {s : Str} (h : '\n' ∉ s) :
    replaceAllLines pat rep s = replaceLine pat rep s := by
  simp [replaceAllLines, splitLines_of_no_newline h, joinLines]

/-! ## `(.*) Solution.*` -/

theorem beforeLast_append {pat b r : Str} (a : Str) (h : beforeLast pat b = some r) :
    beforeLast pat (a ++ b) = some (a ++ r) := by
  induction a with
  | nil => simpa
  | cons x a ih => simp [beforeLast, ih]

theorem beforeLast_none_of_contains_false {pat s : Str} (h : contains pat s = false) :
    beforeLast pat s = none := by
  induction s with
  | nil =>
    simp only [contains] at h
    cases pat with
    | nil => simp [isPrefix] at h
    | cons p ps => simp [beforeLast]
  | cons c cs ih =>
    have h1 := isPrefix_false_of_contains_false h
    have h2 := contains_tail_false h
    simp [beforeLast, ih h2, h1]

theorem beforeLast_hit {pat s : Str} (hs : s ≠ []) (hp : isPrefix pat s = true)
    (ht : contains pat s.tail = false) : beforeLast pat s = some [] := by
  cases s with
  | nil => exact absurd rfl hs
  | cons c t =>
    simp only [List.tail_cons] at ht
    simp [beforeLast, beforeLast_none_of_contains_false ht, hp]

/-! ## the `\d+/\d+` scanner -/

def scanRun (st : Scan × List Str) (s : Str) : Scan × List Str := s.foldl scanStep st

theorem allMatches_eq (s : Str) : allMatches s = scanFinish (scanRun (.idle, []) s) := rfl

theorem scanRun_append (st : Scan × List Str) (a b : Str) :
    scanRun st (a ++ b) = scanRun (scanRun st a) b := by simp [scanRun]

theorem scanRun_cons (st : Scan × List Str) (c : Char) (s : Str) :
    scanRun st (c :: s) = scanRun (scanStep st c) s := rfl

/-- not past a `/`: idle or inside a first digit run -/
def Scan.quiet : Scan → Bool
  | .idle => true
  | .d1 _ => true
  | _ => false

theorem scanStep_quiet_sep {st : Scan} (hq : st.quiet = true) (ms : List Str) {c : Char}
    (hd : c.isDigit = false) (hs : c ≠ '/') : scanStep (st, ms) c = (.idle, ms) := by
  cases st <;> simp_all [scanStep, Scan.quiet]

theorem scanRun_noslash {s : Str} (h : '/' ∉ s) {st : Scan} (hq : st.quiet = true) (ms : List Str) :
    ∃ st' : Scan, st'.quiet = true ∧ scanRun (st, ms) s = (st', ms) := by
  induction s generalizing st with
  | nil => exact ⟨st, hq, rfl⟩
  | cons c s ih =>
    have hc : c ≠ '/' := fun e => h (by simp [e])
    have hs : '/' ∉ s := fun e => h (by simp [e])
    rw [scanRun_cons]
    cases st with
    | idle =>
      by_cases hd : c.isDigit = true
      · simpa [scanStep, hd] using ih hs (st := .d1 [c]) rfl
      · simpa [scanStep, hd] using ih hs (st := .idle) rfl
    | d1 a =>
      by_cases hd : c.isDigit = true
      · simpa [scanStep, hd] using ih hs (st := .d1 (a ++ [c])) rfl
      · simpa [scanStep, hd, hc] using ih hs (st := .idle) rfl
    | slash a => simp [Scan.quiet] at hq
    | d2 a b => simp [Scan.quiet] at hq

theorem scanRun_digits_d1 {ds : Str} (h : Digits ds) (a : Str) (ms : List Str) :
    scanRun (.d1 a, ms) ds = (.d1 (a ++ ds), ms) := by
  induction ds generalizing a with
  | nil => simp [scanRun]
  | cons c ds ih =>
    have hc : c.isDigit = true := h c (by simp)
    have hds : Digits ds := fun x hx => h x (by simp [hx])
    rw [scanRun_cons]
    simp [scanStep, hc, ih hds]

theorem scanRun_digits_quiet {ds : Str} (h : Digits ds) (hne : ds ≠ []) {st : Scan}
    (hq : st.quiet = true) (ms : List Str) : ∃ a, scanRun (st, ms) ds = (.d1 (a ++ ds), ms) := by
  cases st with
  | idle =>
    cases ds with
    | nil => exact absurd rfl hne
    | cons c ds =>
      have hc : c.isDigit = true := h c (by simp)
      have hds : Digits ds := fun x hx => h x (by simp [hx])
      refine ⟨[], ?_⟩
      rw [scanRun_cons]
      simp [scanStep, hc, scanRun_digits_d1 hds]
  | d1 a => exact ⟨a, scanRun_digits_d1 h a ms⟩
  | slash a => simp [Scan.quiet] at hq
  | d2 a b => simp [Scan.quiet] at hq

theorem scanRun_digits_d2 {ds : Str} (h : Digits ds) (a b : Str) (ms : List Str) :
    scanRun (.d2 a b, ms) ds = (.d2 a (b ++ ds), ms) := by
  induction ds generalizing b with
  | nil => simp [scanRun]
  | cons c ds ih =>
    have hc : c.isDigit = true := h c (by simp)
    have hds : Digits ds := fun x hx => h x (by simp [hx])
    rw [scanRun_cons]
    simp [scanStep, hc, ih hds]

theorem scanRun_digits_slash {ds : Str} (h : Digits ds) (hne : ds ≠ []) (a : Str) (ms : List Str) :
    scanRun (.slash a, ms) ds = (.d2 a ds, ms) := by
  cases ds with
  | nil => exact absurd rfl hne
  | cons c ds =>
    have hc : c.isDigit = true := h c (by simp)
    have hds : Digits ds := fun x hx => h x (by simp [hx])
    rw [scanRun_cons]
    simp [scanStep, hc, scanRun_digits_d2 hds]

/-- `(K/N)` -/
def paren (K N : Str) : Str := '(' :: K ++ '/' :: N ++ [')']

/-- scanning ` (K/N)` from a quiet state yields exactly the match `K/N` -/
theorem scanRun_paren {K N : Str} (hK : Digits K) (hKne : K ≠ []) (hN : Digits N) (hNne : N ≠ [])
    {st : Scan} (hq : st.quiet = true) (ms : List Str) :
    scanRun (st, ms) (' ' :: paren K N) = (.idle, ms ++ [K ++ '/' :: N]) := by
  rw [scanRun_cons, scanStep_quiet_sep hq ms (by decide) (by decide)]
  unfold paren
  rw [List.cons_append, List.cons_append, scanRun_cons,
    scanStep_quiet_sep (st := .idle) rfl ms (by decide) (by decide), List.append_assoc, scanRun_append]
  obtain ⟨a, ha⟩ := scanRun_digits_quiet hK hKne (st := .idle) rfl ms
  have ha' : scanRun (.idle, ms) K = (.d1 K, ms) := by
    cases K with
    | nil => exact absurd rfl hKne
    | cons c K =>
      have hc : c.isDigit = true := hK c (by simp)
      have hds : Digits K := fun x hx => hK x (by simp [hx])
      rw [scanRun_cons]; simp [scanStep, hc, scanRun_digits_d1 hds]
  rw [ha', List.cons_append, scanRun_cons]
  have : scanStep (.d1 K, ms) '/' = (.slash K, ms) := by simp [scanStep]
  rw [this, scanRun_append, scanRun_digits_slash hN hNne]
  simp [scanRun, scanStep]

/-! ## character replacement / removal -/

theorem slashToOf_append (a b : Str) : slashToOf (a ++ b) = slashToOf a ++ slashToOf b := by
  simp [slashToOf]

theorem slashToOf_of_no_slash {s : Str} (h : '/' ∉ s) : slashToOf s = s := by
  induction s with
  | nil => rfl
  | cons c s ih =>
    have hc : c ≠ '/' := fun e => h (by simp [e])
    have hs : '/' ∉ s := fun e => h (by simp [e])
    have := ih hs
    simp only [slashToOf] at this ⊢
    simp [hc, this]

theorem slashToUOf_append (a b : Str) : slashToUOf (a ++ b) = slashToUOf a ++ slashToUOf b := by
  simp [slashToUOf]

theorem slashToUOf_of_no_slash {s : Str} (h : '/' ∉ s) : slashToUOf s = s := by
  induction s with
  | nil => rfl
  | cons c s ih =>
    have hc : c ≠ '/' := fun e => h (by simp [e])
    have hs : '/' ∉ s := fun e => h (by simp [e])
    have := ih hs
    simp only [slashToUOf] at this ⊢
    simp [hc, this]

theorem stripSpaces_append (a b : Str) : stripSpaces (a ++ b) = stripSpaces a ++ stripSpaces b := by
  simp [stripSpaces]

theorem stripSpaces_of_no_space {s : Str} (h : ' ' ∉ s) : stripSpaces s = s := by
  unfold stripSpaces
  rw [List.filter_eq_self]
  intro c hc
  have : c ≠ ' ' := fun e => h (e ▸ hc)
  simp [this]

theorem mem_stripSpaces {c : Char} {s : Str} (h : c ∈ stripSpaces s) : c ∈ s := by
  unfold stripSpaces at h
  exact (List.mem_filter.mp h).1

/-! ## `(K/N)` -/

theorem not_mem_body {K N : Str} (hK : Digits K) (hN : Digits N) {c : Char} (hd : c.isDigit = false)
    (h2 : c ≠ '/') (h3 : c ≠ ')') : c ∉ K ++ '/' :: N ++ [')'] := by
  simp only [List.mem_append, List.mem_cons, List.not_mem_nil, or_false, not_or]
  exact ⟨⟨hK.not_mem hd, h2, hN.not_mem hd⟩, h3⟩

theorem not_mem_paren {K N : Str} (hK : Digits K) (hN : Digits N) {c : Char} (hd : c.isDigit = false)
    (h1 : c ≠ '(') (h2 : c ≠ '/') (h3 : c ≠ ')') : c ∉ paren K N := by
  unfold paren
  rw [List.cons_append, List.cons_append, List.mem_cons, not_or]
  exact ⟨h1, not_mem_body hK hN hd h2 h3⟩

theorem contains_one_paren {K N : Str} (hK : Digits K) (hN : Digits N)
    (h : contains sOneOfOne (paren K N) = true) : K = ['1'] ∧ N = ['1'] := by
  have hrest : contains sOneOfOne (K ++ '/' :: N ++ [')']) = false := by
    exact contains_false_of_head_not_mem (not_mem_body hK hN (by decide) (by decide) (by decide))
  unfold paren at h
  simp only [List.cons_append, contains, sOneOfOne, Bool.or_eq_true] at h
  simp only [sOneOfOne] at hrest
  rcases h with h | h
  · -- the pattern sits at the front
    cases K with
    | nil => simp [isPrefix] at h
    | cons k0 K' =>
      cases K' with
      | nil =>
        cases N with
        | nil => simp [isPrefix] at h
        | cons n0 N' =>
          cases N' with
          | nil => simp [isPrefix] at h; exact ⟨by rw [h.1], by rw [h.2]⟩
          | cons n1 N'' =>
            have : n1.isDigit = true := hN n1 (by simp)
            simp [isPrefix] at h
            rw [← h.2.2] at this; exact absurd this (by decide)
      | cons k1 K'' =>
        have : k1.isDigit = true := hK k1 (by simp)
        simp [isPrefix] at h
        rw [← h.2.1] at this; exact absurd this (by decide)
  · rw [hrest] at h; exact absurd h (by simp)

/-! ## the run id of a clean name -/

/-- what `generateCloneId` appends to the scenario name -/
def ridTail (r R : Nat) : Str := if R > 1 then ' ' :: paren (natStr r) (natStr R) else []

theorem runId_eq (name : Str) (r R : Nat) : runId name r R = name ++ ridTail r R := by
  unfold runId ridTail paren
  split <;> simp

theorem memberKey_eq (rid : Str) (k n : Nat) :
    memberKey rid k n = rid ++ ' ' :: (sSolution ++ ' ' :: paren (natStr k) (natStr n)) := by
  simp [memberKey, sSolOpen, paren]

theorem not_mem_ridTail (r R : Nat) {c : Char} (hd : c.isDigit = false)
    (h0 : c ≠ ' ') (h1 : c ≠ '(') (h2 : c ≠ '/') (h3 : c ≠ ')') : c ∉ ridTail r R := by
  unfold ridTail
  split
  · simp only [List.mem_cons, not_or]
    exact ⟨h0, not_mem_paren (digits_natStr r) (digits_natStr R) hd h1 h2 h3⟩
  · simp

theorem rid_no_newline {name : Str} (hc : Clean name) (r R : Nat) : '\n' ∉ runId name r R := by
  rw [runId_eq]
  simp only [List.mem_append, not_or]
  exact ⟨hc.2.2.2.1, not_mem_ridTail r R (by decide) (by decide) (by decide) (by decide) (by decide)⟩

theorem rid_contains_general {pat : Str} (hsp : ' ' ∉ pat) {name : Str} (hn : contains pat name = false)
    (hp : ∀ K N, Digits K → Digits N → contains pat (paren K N) = false) (r R : Nat) :
    contains pat (runId name r R) = false := by
  rw [runId_eq]; unfold ridTail
  split
  · rw [contains_append_sep hsp, hn, hp _ _ (digits_natStr r) (digits_natStr R)]; rfl
  · simpa using hn

theorem rid_no_Solution {name : Str} (hc : Clean name) (r R : Nat) :
    contains sSolution (runId name r R) = false :=
  rid_contains_general (by decide) hc.2.2.2.2.2.1
    (fun K N hK hN => contains_false_of_head_not_mem
      (not_mem_paren hK hN (by decide) (by decide) (by decide) (by decide))) r R

theorem rid_no_AsIs {name : Str} (hc : Clean name) (r R : Nat) :
    contains sAsIs (runId name r R) = false :=
  rid_contains_general (by decide) hc.2.2.2.2.1
    (fun K N hK hN => contains_false_of_head_not_mem
      (not_mem_paren hK hN (by decide) (by decide) (by decide) (by decide))) r R

theorem rid_no_OneOfOne {name : Str} (hc : Clean name) (r R : Nat) :
    contains sOneOfOne (runId name r R) = false := by
  have hname : contains sOneOfOne name = false := contains_false_of_head_not_mem hc.2.1
  rw [runId_eq]; unfold ridTail
  split
  · rename_i hR
    rw [contains_append_sep (by decide), hname]
    rcases Bool.eq_false_or_eq_true (contains sOneOfOne (paren (natStr r) (natStr R))) with h | h
    · have := (contains_one_paren (digits_natStr r) (digits_natStr R) h).2
      rw [← natStr_one] at this
      have := natStr_inj this
      omega
    · simp [h]
  · simpa using hname

theorem stripSpaces_ridTail (r R : Nat) :
    stripSpaces (ridTail r R) = if R > 1 then paren (natStr r) (natStr R) else [] := by
  unfold ridTail
  split
  · have : ' ' ∉ paren (natStr r) (natStr R) :=
      not_mem_paren (digits_natStr r) (digits_natStr R) (by decide) (by decide) (by decide) (by decide)
    have h2 := stripSpaces_of_no_space this
    simp only [stripSpaces] at h2 ⊢
    simp [h2]
  · rfl

theorem rid_stripped_no_Solution {name : Str} (hc : Clean name) (r R : Nat) :
    contains sSolution (stripSpaces (runId name r R)) = false := by
  rw [runId_eq, stripSpaces_append, stripSpaces_ridTail]
  split
  · unfold paren
    rw [List.cons_append, List.cons_append, contains_append_sep (by decide), hc.2.2.2.2.2.2]
    simp only [Bool.false_or]
    exact contains_false_of_head_not_mem
      (not_mem_body (digits_natStr r) (digits_natStr R) (by decide) (by decide) (by decide))
  · simpa using hc.2.2.2.2.2.2

theorem rid_stripped_no_newline {name : Str} (hc : Clean name) (r R : Nat) :
    '\n' ∉ stripSpaces (runId name r R) := fun h => rid_no_newline hc r R (mem_stripSpaces h)

theorem rid_fileStem {name : Str} (hc : Clean name) (r R : Nat) :
    slashToUOf (stripSpaces (runId name r R)) = runFileStem name r R := by
  have hs : '/' ∉ stripSpaces name := fun h => hc.1 (mem_stripSpaces h)
  rw [runId_eq, stripSpaces_append, stripSpaces_ridTail, slashToUOf_append, slashToUOf_of_no_slash hs]
  unfold runFileStem
  split
  · unfold paren
    have h1 := slashToUOf_of_no_slash ((digits_natStr r).not_mem (c := '/') (by decide))
    have h2 := slashToUOf_of_no_slash ((digits_natStr R).not_mem (c := '/') (by decide))
    have e : '(' :: natStr r ++ '/' :: natStr R ++ [')'] = ['('] ++ natStr r ++ ['/'] ++ natStr R ++ [')'] := by simp
    rw [e]
    simp only [slashToUOf_append, h1, h2]
    simp [slashToUOf, sUOf]
  · simp [slashToUOf]

/-- the matches the scanner has found after the run id, and that it is quiet there -/
theorem rid_scan {name : Str} (hc : Clean name) (r R : Nat) :
    ∃ st : Scan, st.quiet = true ∧
      scanRun (.idle, []) (runId name r R) =
        (st, if R > 1 then [natStr r ++ '/' :: natStr R] else []) := by
  obtain ⟨st, hq, hst⟩ := scanRun_noslash hc.1 (st := .idle) rfl []
  rw [runId_eq, scanRun_append, hst]; unfold ridTail
  split
  · refine ⟨.idle, rfl, ?_⟩
    rw [scanRun_paren (digits_natStr r) (natStr_ne_nil r) (digits_natStr R) (natStr_ne_nil R) hq]
    simp
  · exact ⟨st, hq, rfl⟩

/-! ## the keys of the repaired code -/

/-- what stands between `Solution (` and the closing `)` of a key -/
structure KeyBody (T : Str) : Prop where
  ne : T ≠ []
  noClose : ')' ∉ T
  noSpace : ' ' ∉ T
  noNewline : '\n' ∉ T

theorem keyBody_asIs : KeyBody sAsIs := ⟨by decide, by decide, by decide, by decide⟩

theorem keyBody_member (k n : Nat) : KeyBody (natStr k ++ '/' :: natStr n) := by
  have hk := digits_natStr k
  have hn := digits_natStr n
  refine ⟨?_, ?_, ?_, ?_⟩
  · simp
  all_goals
    simp only [List.mem_append, List.mem_cons, not_or]
    exact ⟨hk.not_mem (by decide), by decide, hn.not_mem (by decide)⟩

/-- the common shape `rid ++ " Solution (" ++ T ++ ")"` -/
def keyOf (rid T : Str) : Str := rid ++ sSolOpen ++ T ++ [')']

theorem fixed_key_shape {f : Family} {rid : Str} {n : Nat} {key : Str}
    (h : key ∈ keys .fixed f rid n) : ∃ T, KeyBody T ∧ key = keyOf rid T := by
  simp only [keys, List.mem_cons] at h
  rcases h with h | h
  · refine ⟨sAsIs, keyBody_asIs, ?_⟩
    subst h
    cases f <;> simp [asIsKey, sSolAsIs, keyOf]
  · cases f with
    | single =>
      simp only [memberKeys, List.mem_singleton] at h
      exact ⟨_, keyBody_member 1 1, by subst h; simp [memberKey, keyOf]⟩
    | multi =>
      simp only [memberKeys, List.mem_map, List.mem_range] at h
      obtain ⟨i, _, rfl⟩ := h
      exact ⟨_, keyBody_member (i + 1) n, by simp [memberKey, keyOf]⟩

theorem keyOf_no_newline {rid T : Str} (hr : '\n' ∉ rid) (hT : KeyBody T) : '\n' ∉ keyOf rid T := by
  unfold keyOf
  simp only [List.mem_append, List.mem_cons, List.not_mem_nil, or_false, not_or]
  exact ⟨⟨⟨hr, by decide⟩, hT.noNewline⟩, by decide⟩

theorem setId_keyOf {rid T : Str} (hr : '\n' ∉ rid) (hs : contains sSolution rid = false) (hT : KeyBody T) :
    setIdOfKey (keyOf rid T) = rid ++ ' ' :: sSummary := by
  unfold setIdOfKey
  rw [replaceAllLines_of_no_newline _ _ (keyOf_no_newline hr hT)]
  obtain ⟨x, t, rfl⟩ : ∃ x t, T = x :: t := by
    cases T with
    | nil => exact absurd rfl hT.ne
    | cons x t => exact ⟨x, t, rfl⟩
  have ht : ')' ∉ t := fun h => hT.noClose (by simp [h])
  have e : keyOf rid (x :: t) = (rid ++ [' ']) ++ ((sSolution ++ [' ']) ++ '(' :: (x :: t ++ [')'])) := by
    simp [keyOf, sSolOpen]
  have ep : patSolSpOpen = (sSolution ++ [' ']) ++ ['('] := by simp [patSolSpOpen]
  have hn : contains ((sSolution ++ [' ']) ++ ['(']) (rid ++ [' ']) = false := by
    rcases Bool.eq_false_or_eq_true (contains ((sSolution ++ [' ']) ++ ['(']) (rid ++ [' '])) with h | h
    · have h' : contains (sSolution ++ ([' '] ++ ['('])) (rid ++ [' ']) = true := by simpa using h
      have := contains_of_contains_append h'
      rw [contains_append_sep (by decide), hs] at this
      exact absurd this (by decide)
    · exact h
  rw [e, ep, replaceLine_key (by decide) sSummary hn x ht]
  simp

theorem stripSpaces_keyOf {rid T : Str} (hT : KeyBody T) :
    stripSpaces (keyOf rid T) = stripSpaces rid ++ (sSolution ++ '(' :: (T ++ [')'])) := by
  unfold keyOf
  rw [stripSpaces_append, stripSpaces_append, stripSpaces_append, stripSpaces_of_no_space hT.noSpace]
  have h1 : stripSpaces sSolOpen = sSolution ++ ['('] := by decide
  have h2 : stripSpaces [')'] = [')'] := by decide
  rw [h1, h2]; simp

theorem fileSafeId_keyOf {rid T : Str} (hr : '\n' ∉ stripSpaces rid)
    (hs : contains sSolution (stripSpaces rid) = false) (hT : KeyBody T) :
    fileSafeIdOfKey (keyOf rid T) = slashToUOf (stripSpaces rid) := by
  unfold fileSafeIdOfKey
  rw [stripSpaces_keyOf hT]
  have hnl : '\n' ∉ stripSpaces rid ++ (sSolution ++ '(' :: (T ++ [')'])) := by
    simp only [List.mem_append, List.mem_cons, List.not_mem_nil, or_false, not_or]
    exact ⟨hr, by decide, by decide, hT.noNewline, by decide⟩
  rw [replaceAllLines_of_no_newline _ _ hnl]
  obtain ⟨x, t, rfl⟩ : ∃ x t, T = x :: t := by
    cases T with
    | nil => exact absurd rfl hT.ne
    | cons x t => exact ⟨x, t, rfl⟩
  have ht : ')' ∉ t := fun h => hT.noClose (by simp [h])
  have ep : patSolOpen = sSolution ++ ['('] := rfl
  have hn : contains (sSolution ++ ['(']) (stripSpaces rid) = false := by
    rcases Bool.eq_false_or_eq_true (contains (sSolution ++ ['(']) (stripSpaces rid)) with h | h
    · rw [contains_of_contains_append h] at hs; exact absurd hs (by decide)
    · exact h
  rw [ep, replaceLine_key (by decide) [] hn x ht]
  simp

theorem jsonSetName_keyOf {rid T : Str} (hr : '\n' ∉ rid) (hT : KeyBody T) :
    jsonSetNameOfKey (keyOf rid T) = some rid := by
  unfold jsonSetNameOfKey
  rw [splitLines_of_no_newline (keyOf_no_newline hr hT)]
  simp only [List.findSome?_cons, List.findSome?_nil]
  have e : keyOf rid T = rid ++ (patSpSol ++ ' ' :: '(' :: (T ++ [')'])) := by
    simp [keyOf, sSolOpen, patSpSol]
  have hb : beforeLast patSpSol (patSpSol ++ ' ' :: '(' :: (T ++ [')'])) = some [] := by
    apply beforeLast_hit
    · simp [patSpSol]
    · exact isPrefix_append_self _ _
    · have : (patSpSol ++ ' ' :: '(' :: (T ++ [')'])).tail = (sSolution ++ [' ']) ++ '(' :: (T ++ [')']) := by
        simp [patSpSol]
      rw [this, contains_append_sep (by decide)]
      have h1 : contains patSpSol (sSolution ++ [' ']) = false := by decide
      have h2 : contains patSpSol (T ++ [')']) = false := by
        apply contains_false_of_head_not_mem
        simp only [List.mem_append, List.mem_cons, List.not_mem_nil, or_false, not_or]
        exact ⟨hT.noSpace, by decide⟩
      rw [h1, h2]; rfl
  rw [e, beforeLast_append rid hb]
  simp

/-! ## labels of the repaired code -/

theorem label_asIs_fixed {name : Str} (hc : Clean name) (r R : Nat) (f : Family) :
    labelFixed (asIsKey .fixed f (runId name r R)) = sAsIs := by
  have e : asIsKey .fixed f (runId name r R) = runId name r R ++ ' ' :: (sSolution ++ ' ' :: ('(' :: sAsIs ++ [')'])) := by
    cases f <;> simp [asIsKey, sSolAsIs, sSolOpen]
  have h1 : contains sOneOfOne (asIsKey .fixed f (runId name r R)) = false := by
    rw [e, contains_append_sep (by decide), contains_append_sep (by decide), rid_no_OneOfOne hc]
    decide
  have h2 : contains sAsIs (asIsKey .fixed f (runId name r R)) = true := by
    rw [e]
    apply contains_append_left_of
    decide
  simp [labelFixed, labelOf, h1, h2]

theorem label_member_fixed {name : Str} (hc : Clean name) (r R k n : Nat) :
    labelFixed (memberKey (runId name r R) k n) =
      if k = 1 ∧ n = 1 then sOptimised else natStr k ++ sOf ++ natStr n := by
  have hk := digits_natStr k
  have hn := digits_natStr n
  have hone : contains sOneOfOne (memberKey (runId name r R) k n) =
      contains sOneOfOne (paren (natStr k) (natStr n)) := by
    rw [memberKey_eq, contains_append_sep (by decide), contains_append_sep (by decide), rid_no_OneOfOne hc]
    have : contains sOneOfOne sSolution = false := by decide
    rw [this]; rfl
  have hasis : contains sAsIs (memberKey (runId name r R) k n) = false := by
    rw [memberKey_eq, contains_append_sep (by decide), contains_append_sep (by decide), rid_no_AsIs hc]
    have h1 : contains sAsIs sSolution = false := by decide
    have h2 : contains sAsIs (paren (natStr k) (natStr n)) = false :=
      contains_false_of_head_not_mem (not_mem_paren hk hn (by decide) (by decide) (by decide) (by decide))
    rw [h1, h2]; rfl
  by_cases h11 : k = 1 ∧ n = 1
  · obtain ⟨rfl, rfl⟩ := h11
    have : contains sOneOfOne (paren (natStr 1) (natStr 1)) = true := by decide
    simp [labelFixed, labelOf, hone, this]
  · have hno : contains sOneOfOne (paren (natStr k) (natStr n)) = false := by
      rcases Bool.eq_false_or_eq_true (contains sOneOfOne (paren (natStr k) (natStr n))) with h | h
      · obtain ⟨e1, e2⟩ := contains_one_paren hk hn h
        rw [← natStr_one] at e1 e2
        exact absurd ⟨natStr_inj e1, natStr_inj e2⟩ h11
      · exact h
    -- the matches: possibly r/R, then k/n
    obtain ⟨st, hq, hst⟩ := rid_scan hc r R
    have hsol : '/' ∉ ' ' :: sSolution := by decide
    have hm : allMatches (memberKey (runId name r R) k n) =
        (if R > 1 then [natStr r ++ '/' :: natStr R] else []) ++ [natStr k ++ '/' :: natStr n] := by
      have e : memberKey (runId name r R) k n =
          runId name r R ++ ((' ' :: sSolution) ++ (' ' :: paren (natStr k) (natStr n))) := by
        rw [memberKey_eq]; simp
      rw [allMatches_eq, e, scanRun_append, hst, scanRun_append]
      obtain ⟨st', hq', hst'⟩ := scanRun_noslash hsol hq (if R > 1 then [natStr r ++ '/' :: natStr R] else [])
      rw [hst', scanRun_paren hk (natStr_ne_nil k) hn (natStr_ne_nil n) hq']
      rfl
    have hlast : ((allMatches (memberKey (runId name r R) k n)).getLast?.getD []) = natStr k ++ '/' :: natStr n := by
      rw [hm]; simp
    have hs : slashToOf (natStr k ++ '/' :: natStr n) = natStr k ++ sOf ++ natStr n := by
      have e : natStr k ++ '/' :: natStr n = natStr k ++ (['/'] ++ natStr n) := by simp
      rw [e, slashToOf_append, slashToOf_append, slashToOf_of_no_slash (hk.not_mem (by decide)),
        slashToOf_of_no_slash (hn.not_mem (by decide))]
      simp [slashToOf]
    simp only [labelFixed, labelOf, hone, hno, hasis, hlast, hs, if_neg h11]
    simp

/-! ## round 3: the anchored variant, every run id -/

theorem anchored_key_shape {f : Family} {rid : Str} {n : Nat} {key : Str}
    (h : key ∈ keys .anchored f rid n) : ∃ T, KeyBody T ∧ key = keyOf rid T := by
  have e : keys .anchored f rid n = keys .fixed f rid n := by cases f <;> rfl
  rw [e] at h
  exact fixed_key_shape h

theorem contains_cons_ne {p c : Char} (ps s : Str) (h : p ≠ c) :
    contains (p :: ps) (c :: s) = contains (p :: ps) s := by
  simp [contains, isPrefix, h]

/-- no ` Solution (` starts inside `Solution (T)` -/
theorem contains_solOpen_tail {T : Str} (hT : KeyBody T) :
    contains sSolOpen (sSolution ++ ' ' :: '(' :: (T ++ [')'])) = false := by
  have h2 : contains sSolOpen (T ++ [')']) = false := by
    apply contains_false_of_head_not_mem
    simp only [List.mem_append, List.mem_cons, List.not_mem_nil, or_false, not_or]
    exact ⟨hT.noSpace, by decide⟩
  simp only [sSolOpen, sSolution, List.cons_append, List.nil_append] at h2 ⊢
  simp [contains, isPrefix, h2]

theorem beforeLast_solOpen_keyOf (rid : Str) {T : Str} (hT : KeyBody T) :
    beforeLast sSolOpen (keyOf rid T) = some rid := by
  have e : keyOf rid T = rid ++ (sSolOpen ++ (T ++ [')'])) := by simp [keyOf]
  have hb : beforeLast sSolOpen (sSolOpen ++ (T ++ [')'])) = some [] := by
    apply beforeLast_hit
    · simp [sSolOpen]
    · exact isPrefix_append_self _ _
    · have : (sSolOpen ++ (T ++ [')'])).tail = sSolution ++ ' ' :: '(' :: (T ++ [')']) := by
        simp [sSolOpen]
      rw [this]; exact contains_solOpen_tail hT
  rw [e, beforeLast_append rid hb]; simp

theorem fromLast_solOpen_keyOf (rid : Str) {T : Str} (hT : KeyBody T) :
    fromLast sSolOpen (keyOf rid T) = sSolOpen ++ T ++ [')'] := by
  unfold fromLast
  rw [beforeLast_solOpen_keyOf rid hT]
  simp [keyOf]

theorem runPart_keyOf (rid : Str) {T : Str} (hT : KeyBody T) : runPartOfKey (keyOf rid T) = some rid :=
  beforeLast_solOpen_keyOf rid hT

theorem setIdA_keyOf (rid : Str) {T : Str} (hT : KeyBody T) :
    setIdOfKeyA (keyOf rid T) = rid ++ ' ' :: sSummary := by
  simp [setIdOfKeyA, runPart_keyOf rid hT]

theorem fileSafeIdA_keyOf (rid : Str) {T : Str} (hT : KeyBody T) :
    fileSafeIdOfKeyA (keyOf rid T) = slashToUOf (stripSpaces rid) := by
  simp [fileSafeIdOfKeyA, runPart_keyOf rid hT]

/-! ### labels -/

theorem asIsKey_anchored_eq (f : Family) (rid : Str) : asIsKey .anchored f rid = keyOf rid sAsIs := by
  cases f <;> simp [asIsKey, sSolAsIs, keyOf]

theorem memberKey_eq_keyOf (rid : Str) (k n : Nat) : memberKey rid k n = keyOf rid (natStr k ++ '/' :: natStr n) := by
  simp [memberKey, keyOf]

theorem label_asIs_anchored (f : Family) (rid : Str) : labelAnchored (asIsKey .anchored f rid) = sAsIs := by
  unfold labelAnchored
  rw [asIsKey_anchored_eq, fromLast_solOpen_keyOf rid keyBody_asIs]
  decide

theorem label_member_anchored (rid : Str) (k n : Nat) :
    labelAnchored (memberKey rid k n) =
      if k = 1 ∧ n = 1 then sOptimised else natStr k ++ sOf ++ natStr n := by
  unfold labelAnchored
  rw [memberKey_eq_keyOf, fromLast_solOpen_keyOf rid (keyBody_member k n)]
  have hc : Clean [] := by decide
  have := label_member_fixed hc 0 1 k n
  have e : memberKey (runId [] 0 1) k n = sSolOpen ++ (natStr k ++ '/' :: natStr n) ++ [')'] := by
    simp [memberKey, runId]
  rw [e] at this
  exact this

/-- a labelling that gives `As-Is` to the as-is key and `k-of-n` / `Optimised` to the members is injective on the keys -/
theorem labels_nodup_of_spec (lab : Str → Str) (v : Variant) (f : Family) (rid : Str) (n : Nat)
    (h0 : lab (asIsKey v f rid) = sAsIs)
    (h1 : ∀ k m, lab (memberKey rid k m) = if k = 1 ∧ m = 1 then sOptimised else natStr k ++ sOf ++ natStr m) :
    ((keys v f rid n).map lab).Nodup := by
  have hAO : sAsIs ≠ sOptimised := by decide
  have hAd : ∀ k m : Nat, sAsIs ≠ natStr k ++ sOf ++ natStr m := by
    intro k m h
    cases hk : natStr k with
    | nil => exact natStr_ne_nil k hk
    | cons d ds =>
      have hd : d.isDigit = true := digits_natStr k d (by simp [hk])
      rw [hk] at h
      simp [sAsIs] at h
      rw [← h.1] at hd
      exact absurd hd (by decide)
  simp only [keys, List.map_cons, List.nodup_cons, h0]
  cases f with
  | single =>
    simp only [memberKeys, List.map_cons, List.map_nil, h1 1 1]
    simp [hAO]
  | multi =>
    simp only [memberKeys, List.map_map]
    constructor
    · intro hmem
      obtain ⟨i, _, hi⟩ := List.mem_map.mp hmem
      simp only [Function.comp, h1 (i + 1) n] at hi
      split at hi
      · exact hAO hi.symm
      · exact hAd _ _ hi.symm
    · rw [List.Nodup, List.pairwise_map]
      refine List.Pairwise.imp_of_mem ?_ (List.nodup_range (n := n))
      intro i j hi hj hij heq
      simp only [Function.comp, h1 _ n] at heq
      have hi' := List.mem_range.mp hi
      have hj' := List.mem_range.mp hj
      by_cases hn : n = 1
      · omega
      · rw [if_neg (by omega), if_neg (by omega), List.append_assoc, List.append_assoc] at heq
        have := natStr_inj (List.append_cancel_right heq)
        omega

theorem slashToUOf_paren (r R : Nat) :
    slashToUOf (paren (natStr r) (natStr R)) = ['('] ++ natStr r ++ sUOf ++ natStr R ++ [')'] := by
  unfold paren
  have h1 := slashToUOf_of_no_slash ((digits_natStr r).not_mem (c := '/') (by decide))
  have h2 := slashToUOf_of_no_slash ((digits_natStr R).not_mem (c := '/') (by decide))
  have e : '(' :: natStr r ++ '/' :: natStr R ++ [')'] = ['('] ++ natStr r ++ ['/'] ++ natStr R ++ [')'] := by simp
  rw [e]
  simp only [slashToUOf_append, h1, h2]
  simp [slashToUOf, sUOf]

/-- the file stem of a run id, for every scenario name -/
theorem rid_fileStemA (name : Str) (r R : Nat) :
    slashToUOf (stripSpaces (runId name r R)) = runFileStemA name r R := by
  rw [runId_eq, stripSpaces_append, stripSpaces_ridTail, slashToUOf_append]
  unfold runFileStemA
  split
  · rw [slashToUOf_paren]; simp
  · simp [slashToUOf]

theorem runFileStemA_inj (name : Str) {r₁ r₂ R : Nat} (hR : R > 1)
    (h : runFileStemA name r₁ R = runFileStemA name r₂ R) : r₁ = r₂ := by
  unfold runFileStemA at h
  rw [if_pos hR, if_pos hR] at h
  simp only [List.append_assoc] at h
  have h2 := List.append_cancel_left (List.append_cancel_left h)
  have h3 : natStr r₁ ++ '_' :: (['o', 'f', '_'] ++ (natStr R ++ [')'])) =
      natStr r₂ ++ '_' :: (['o', 'f', '_'] ++ (natStr R ++ [')'])) := by simpa [sUOf] using h2
  exact natStr_inj (append_cons_unique ((digits_natStr r₁).not_mem (by decide))
    ((digits_natStr r₂).not_mem (by decide)) h3).1

/-! ## lines of a key whose run id holds newlines -/

/-- all lines but the last -/
def initLines (s : Str) : List Str := (splitLines s).dropLast
/-- the last line -/
def lastLine (s : Str) : Str := (splitLines s).getLast?.getD []

theorem splitLines_append_aux (a : Str) : ∃ init last, splitLines a = init ++ [last] ∧
    ∀ b, '\n' ∉ b → splitLines (a ++ b) = init ++ [last ++ b] := by
  induction a with
  | nil => exact ⟨[], [], rfl, fun b hb => by simpa using splitLines_of_no_newline hb⟩
  | cons c a ih =>
    obtain ⟨init, last, h1, h2⟩ := ih
    by_cases hc : c = '\n'
    · refine ⟨[] :: init, last, by simp [splitLines, hc, h1], fun b hb => ?_⟩
      simp [splitLines, hc, h2 b hb]
    · cases init with
      | nil =>
        refine ⟨[], c :: last, by simp [splitLines, hc, h1], fun b hb => ?_⟩
        simp [splitLines, hc, h2 b hb]
      | cons i is =>
        refine ⟨(c :: i) :: is, last, by simp [splitLines, hc, h1], fun b hb => ?_⟩
        simp [splitLines, hc, h2 b hb]

theorem splitLines_eq (a : Str) : splitLines a = initLines a ++ [lastLine a] := by
  obtain ⟨init, last, h1, _⟩ := splitLines_append_aux a
  simp [initLines, lastLine, h1]

/-- appending a newline-free string extends the last line -/
theorem splitLines_append_of_no_newline (a : Str) {b : Str} (hb : '\n' ∉ b) :
    splitLines (a ++ b) = initLines a ++ [lastLine a ++ b] := by
  obtain ⟨init, last, h1, h2⟩ := splitLines_append_aux a
  simp [initLines, lastLine, h1, h2 b hb]

theorem keyTail_no_newline {T : Str} (hT : KeyBody T) : '\n' ∉ sSolOpen ++ (T ++ [')']) := by
  simp only [List.mem_append, List.mem_cons, List.not_mem_nil, or_false, not_or]
  exact ⟨by decide, hT.noNewline, by decide⟩

theorem splitLines_keyOf (rid : Str) {T : Str} (hT : KeyBody T) :
    splitLines (keyOf rid T) = initLines rid ++ [lastLine rid ++ (sSolOpen ++ (T ++ [')']))] := by
  have e : keyOf rid T = rid ++ (sSolOpen ++ (T ++ [')'])) := by simp [keyOf]
  rw [e, splitLines_append_of_no_newline rid (keyTail_no_newline hT)]

/-- the greedy group of `(.*) Solution.*` on a line that ends in the Saver's own ` Solution (T)` -/
theorem beforeLast_spSol_tail (L : Str) {T : Str} (hT : KeyBody T) :
    beforeLast patSpSol (L ++ (sSolOpen ++ (T ++ [')']))) = some L := by
  have e : sSolOpen ++ (T ++ [')']) = patSpSol ++ ' ' :: '(' :: (T ++ [')']) := by
    simp [sSolOpen, patSpSol]
  have hb : beforeLast patSpSol (patSpSol ++ ' ' :: '(' :: (T ++ [')'])) = some [] := by
    apply beforeLast_hit
    · simp [patSpSol]
    · exact isPrefix_append_self _ _
    · have : (patSpSol ++ ' ' :: '(' :: (T ++ [')'])).tail = (sSolution ++ [' ']) ++ '(' :: (T ++ [')']) := by
        simp [patSpSol]
      rw [this, contains_append_sep (by decide)]
      have h1 : contains patSpSol (sSolution ++ [' ']) = false := by decide
      have h2 : contains patSpSol (T ++ [')']) = false := by
        apply contains_false_of_head_not_mem
        simp only [List.mem_append, List.mem_cons, List.not_mem_nil, or_false, not_or]
        exact ⟨hT.noSpace, by decide⟩
      rw [h1, h2]; rfl
  rw [e, beforeLast_append L hb]; simp

/-- the JSON set name of a key of ANY run id: taken from the first line of the run id that holds
` Solution`, else the last line of the run id - the same for every key of the run -/
theorem jsonSetName_keyOf_all (rid : Str) {T : Str} (hT : KeyBody T) :
    jsonSetNameOfKey (keyOf rid T) =
      ((initLines rid).findSome? (beforeLast patSpSol)).or (some (lastLine rid)) := by
  unfold jsonSetNameOfKey
  rw [splitLines_keyOf rid hT, List.findSome?_append]
  simp [beforeLast_spSol_tail _ hT]

/-! ## `<literal>.+\)` on a line that ends in `)`: exact result for every line -/

theorem afterLastClose_concat_close (u : Str) : afterLastClose (u ++ [')']) = some [] := by
  induction u with
  | nil => simp [afterLastClose]
  | cons x u ih => simp [afterLastClose, ih]

theorem length_le_of_isPrefix {pat s : Str} (h : isPrefix pat s = true) : pat.length ≤ s.length := by
  obtain ⟨t, rfl⟩ := isPrefix_iff.mp h
  simp

theorem length_le_of_contains {pat s : Str} (h : contains pat s = true) : pat.length ≤ s.length := by
  induction s with
  | nil => exact length_le_of_isPrefix (by simpa [contains] using h)
  | cons c s ih =>
    simp only [contains, Bool.or_eq_true] at h
    rcases h with h | h
    · exact length_le_of_isPrefix h
    · have := ih h; simp; omega

theorem isPrefix_append_of_le {pat a : Str} (h : pat.length ≤ a.length) (b : Str) :
    isPrefix pat (a ++ b) = isPrefix pat a := by
  induction pat generalizing a with
  | nil => simp [isPrefix]
  | cons p ps ih =>
    cases a with
    | nil => simp at h
    | cons x a => simp [isPrefix, ih (a := a) (by simpa using h)]

/-- the part of a line before the FIRST occurrence of `pat` (the whole line if there is none) -/
def cutFirst (pat : Str) : Str → Str
  | [] => []
  | c :: t => if isPrefix pat (c :: t) then [] else c :: cutFirst pat t

theorem cutFirst_append_of_contains {pat s : Str} (h : contains pat s = true) (t : Str) :
    cutFirst pat (s ++ t) = cutFirst pat s := by
  induction s with
  | nil =>
    have : pat = [] := List.eq_nil_of_length_eq_zero (by simpa using length_le_of_contains h)
    subst this
    cases t <;> simp [cutFirst, isPrefix]
  | cons c s ih =>
    have hl : pat.length ≤ (c :: s).length := length_le_of_contains h
    have hp := isPrefix_append_of_le hl t
    simp only [List.cons_append] at hp ⊢
    rcases Bool.eq_false_or_eq_true (isPrefix pat (c :: s)) with hc | hc
    · simp [cutFirst, hp, hc]
    · have hs : contains pat s = true := by simpa [contains, hc] using h
      simp [cutFirst, hp, hc, ih hs]

/-- a line that holds `pat` and goes on with at least one more character and a final `)`:
everything from the first `pat` on is replaced -/
theorem replaceLine_closed (pat rep : Str) {s : Str} (h : contains pat s = true) (x : Char) (u : Str) :
    replaceLine pat rep (s ++ x :: (u ++ [')'])) = cutFirst pat s ++ rep := by
  induction s with
  | nil =>
    have : pat = [] := List.eq_nil_of_length_eq_zero (by simpa using length_le_of_contains h)
    subst this
    simp [replaceLine, isPrefix, cutFirst, afterLastClose_concat_close]
  | cons c s ih =>
    have hl : pat.length ≤ (c :: s).length := length_le_of_contains h
    have hp := isPrefix_append_of_le hl (x :: (u ++ [')']))
    simp only [List.cons_append] at hp ⊢
    rcases Bool.eq_false_or_eq_true (isPrefix pat (c :: s)) with hc | hc
    · rw [replaceLine, if_pos (by rw [hp, hc])]
      have hd : (c :: (s ++ x :: (u ++ [')']))).drop pat.length =
          (c :: s).drop pat.length ++ x :: (u ++ [')']) := by
        rw [← List.cons_append, List.drop_append_of_le_length hl]
      rw [hd]
      cases hds : (c :: s).drop pat.length with
      | nil => simp [afterLastClose_concat_close, cutFirst, hc]
      | cons y w =>
        have : w ++ x :: (u ++ [')']) = (w ++ x :: u) ++ [')'] := by simp
        simp only [List.cons_append, this, afterLastClose_concat_close]
        simp [cutFirst, hc]
    · have hs : contains pat s = true := by simpa [contains, hc] using h
      rw [replaceLine, if_neg (by rw [hp, hc]; simp), ih hs]
      simp [cutFirst, hc]

theorem contains_append_right_of {pat s : Str} (b : Str) (h : contains pat s = true) :
    contains pat (s ++ b) = true := by
  induction s with
  | nil =>
    have : pat = [] := List.eq_nil_of_length_eq_zero (by simpa using length_le_of_contains h)
    subst this
    cases b <;> simp [contains, isPrefix]
  | cons c s ih =>
    simp only [contains, Bool.or_eq_true] at h
    simp only [List.cons_append, contains, Bool.or_eq_true]
    rcases h with h | h
    · left
      obtain ⟨t, ht⟩ := isPrefix_iff.mp h
      exact isPrefix_iff.mpr ⟨t ++ b, by rw [← List.cons_append, ht]; simp⟩
    · right; exact ih h

/-- `Summary.Id` of a key of ANY run id -/
theorem setId_keyOf_all (rid : Str) {T : Str} (hT : KeyBody T) :
    setIdOfKey (keyOf rid T) =
      joinLines ((initLines rid).map (replaceLine patSolSpOpen sSummary) ++
        [cutFirst patSolSpOpen (lastLine rid ++ sSolOpen) ++ sSummary]) := by
  obtain ⟨x, t, rfl⟩ : ∃ x t, T = x :: t := by
    cases T with
    | nil => exact absurd rfl hT.ne
    | cons x t => exact ⟨x, t, rfl⟩
  unfold setIdOfKey replaceAllLines
  rw [splitLines_keyOf rid hT, List.map_append, List.map_singleton]
  have e : lastLine rid ++ (sSolOpen ++ (x :: t ++ [')'])) = (lastLine rid ++ sSolOpen) ++ x :: (t ++ [')']) := by
    simp
  have hc : contains patSolSpOpen (lastLine rid ++ sSolOpen) = true :=
    contains_append_left_of _ (by decide)
  rw [e, replaceLine_closed _ _ hc]

/-- `Summary.FileNameSafeId` of a key of ANY run id -/
theorem fileSafeId_keyOf_all (rid : Str) {T : Str} (hT : KeyBody T) :
    fileSafeIdOfKey (keyOf rid T) =
      slashToUOf (joinLines ((initLines (stripSpaces rid)).map (replaceLine patSolOpen []) ++
        [cutFirst patSolOpen (lastLine (stripSpaces rid) ++ patSolOpen)])) := by
  obtain ⟨x, t, rfl⟩ : ∃ x t, T = x :: t := by
    cases T with
    | nil => exact absurd rfl hT.ne
    | cons x t => exact ⟨x, t, rfl⟩
  unfold fileSafeIdOfKey replaceAllLines
  rw [stripSpaces_keyOf hT]
  have hnl : '\n' ∉ sSolution ++ '(' :: (x :: t ++ [')']) := by
    simp only [List.mem_append, List.mem_cons, List.not_mem_nil, or_false, not_or]
    have := hT.noNewline
    simp only [List.mem_cons, not_or] at this
    exact ⟨by decide, by decide, ⟨this.1, this.2⟩, by decide⟩
  rw [splitLines_append_of_no_newline _ hnl, List.map_append, List.map_singleton]
  have e : lastLine (stripSpaces rid) ++ (sSolution ++ '(' :: (x :: t ++ [')'])) =
      (lastLine (stripSpaces rid) ++ patSolOpen) ++ x :: (t ++ [')']) := by
    simp [patSolOpen]
  have hc : contains patSolOpen (lastLine (stripSpaces rid) ++ patSolOpen) = true :=
    contains_append_left_of _ (by decide)
  rw [e, replaceLine_closed _ _ hc]
  simp

/-! ## labels of the D6-D8 code for every run id -/

/-- a character that is neither a digit nor `/` resets the scanner from ANY state; the matches only grow -/
theorem scanStep_sep_any (st : Scan) (ms : List Str) {c : Char} (hd : c.isDigit = false) (hs : c ≠ '/') :
    ∃ ms', scanStep (st, ms) c = (.idle, ms ++ ms') := by
  cases st with
  | idle => exact ⟨[], by simp [scanStep, hd]⟩
  | d1 a => exact ⟨[], by simp [scanStep, hd, hs]⟩
  | slash a => exact ⟨[], by simp [scanStep, hd]⟩
  | d2 a b => exact ⟨[a ++ '/' :: b], by simp [scanStep, hd]⟩

/-- scanning ` (K/N)` from ANY state ends with the match `K/N` -/
theorem scanRun_paren_any {K N : Str} (hK : Digits K) (hKne : K ≠ []) (hN : Digits N) (hNne : N ≠ [])
    (st : Scan) (ms : List Str) :
    ∃ ms', scanRun (st, ms) (' ' :: paren K N) = (.idle, ms' ++ [K ++ '/' :: N]) := by
  obtain ⟨ms', h⟩ := scanStep_sep_any st ms (c := ' ') (by decide) (by decide)
  refine ⟨ms ++ ms', ?_⟩
  have h2 : scanRun (.idle, ms ++ ms') (' ' :: paren K N) = scanRun (.idle, ms ++ ms') (paren K N) := by
    rw [scanRun_cons]; simp [scanStep]
  rw [scanRun_cons, h, ← h2, scanRun_paren hK hKne hN hNne rfl]

/-- the LAST `\d+/\d+` match of `x ++ " (k/n)"` is `k/n`, whatever `x` is -/
theorem allMatches_last_paren (x : Str) (k n : Nat) :
    (allMatches (x ++ ' ' :: paren (natStr k) (natStr n))).getLast?.getD [] = natStr k ++ '/' :: natStr n := by
  rw [allMatches_eq, scanRun_append]
  obtain ⟨ms', h⟩ := scanRun_paren_any (digits_natStr k) (natStr_ne_nil k) (digits_natStr n) (natStr_ne_nil n)
    (scanRun (.idle, []) x).1 (scanRun (.idle, []) x).2
  rw [h]
  simp [scanFinish]

theorem contains_oneOfOne_paren (k n : Nat) :
    contains sOneOfOne (paren (natStr k) (natStr n)) = decide (k = 1 ∧ n = 1) := by
  by_cases h11 : k = 1 ∧ n = 1
  · obtain ⟨rfl, rfl⟩ := h11; decide
  · rcases Bool.eq_false_or_eq_true (contains sOneOfOne (paren (natStr k) (natStr n))) with h | h
    · obtain ⟨e1, e2⟩ := contains_one_paren (digits_natStr k) (digits_natStr n) h
      rw [← natStr_one] at e1 e2
      exact absurd ⟨natStr_inj e1, natStr_inj e2⟩ h11
    · simp [h, h11]

theorem contains_oneOfOne_memberKey (rid : Str) (k n : Nat) :
    contains sOneOfOne (memberKey rid k n) = (contains sOneOfOne rid || decide (k = 1 ∧ n = 1)) := by
  rw [memberKey_eq, contains_append_sep (by decide), contains_append_sep (by decide), contains_oneOfOne_paren]
  have : contains sOneOfOne sSolution = false := by decide
  rw [this]; rfl

theorem contains_asIs_memberKey (rid : Str) (k n : Nat) :
    contains sAsIs (memberKey rid k n) = contains sAsIs rid := by
  rw [memberKey_eq, contains_append_sep (by decide), contains_append_sep (by decide)]
  have h1 : contains sAsIs sSolution = false := by decide
  have h2 : contains sAsIs (paren (natStr k) (natStr n)) = false :=
    contains_false_of_head_not_mem
      (not_mem_paren (digits_natStr k) (digits_natStr n) (by decide) (by decide) (by decide) (by decide))
  rw [h1, h2]; simp

theorem asIsKey_fixed_eq (f : Family) (rid : Str) :
    asIsKey .fixed f rid = rid ++ ' ' :: (sSolution ++ ' ' :: ('(' :: sAsIs ++ [')'])) := by
  cases f <;> simp [asIsKey, sSolAsIs, sSolOpen]

theorem contains_oneOfOne_asIsKey (f : Family) (rid : Str) :
    contains sOneOfOne (asIsKey .fixed f rid) = contains sOneOfOne rid := by
  rw [asIsKey_fixed_eq, contains_append_sep (by decide), contains_append_sep (by decide)]
  have h1 : contains sOneOfOne sSolution = false := by decide
  have h2 : contains sOneOfOne ('(' :: sAsIs ++ [')']) = false := by decide
  rw [h1, h2]; simp

theorem contains_asIs_asIsKey (f : Family) (rid : Str) : contains sAsIs (asIsKey .fixed f rid) = true := by
  rw [asIsKey_fixed_eq]
  exact contains_append_left_of _ (by decide)

/-- the as-is row under the D6-D8 code, every run id -/
theorem label_asIs_fixed_any (f : Family) (rid : Str) :
    labelFixed (asIsKey .fixed f rid) = if contains sOneOfOne rid then sOptimised else sAsIs := by
  simp [labelFixed, labelOf, contains_oneOfOne_asIsKey, contains_asIs_asIsKey]

/-- a member row under the D6-D8 code, every run id -/
theorem label_member_fixed_any (rid : Str) (k n : Nat) :
    labelFixed (memberKey rid k n) =
      if contains sOneOfOne rid = true ∨ (k = 1 ∧ n = 1) then sOptimised
      else if contains sAsIs rid then sAsIs else natStr k ++ sOf ++ natStr n := by
  have hk := digits_natStr k
  have hn := digits_natStr n
  have hlast : (allMatches (memberKey rid k n)).getLast?.getD [] = natStr k ++ '/' :: natStr n := by
    have e : memberKey rid k n = (rid ++ ' ' :: sSolution) ++ ' ' :: paren (natStr k) (natStr n) := by
      rw [memberKey_eq]; simp
    rw [e, allMatches_last_paren]
  have hs : slashToOf (natStr k ++ '/' :: natStr n) = natStr k ++ sOf ++ natStr n := by
    have e : natStr k ++ '/' :: natStr n = natStr k ++ (['/'] ++ natStr n) := by simp
    rw [e, slashToOf_append, slashToOf_append, slashToOf_of_no_slash (hk.not_mem (by decide)),
      slashToOf_of_no_slash (hn.not_mem (by decide))]
    simp [slashToOf]
  simp only [labelFixed, labelOf, contains_oneOfOne_memberKey, contains_asIs_memberKey, hlast, hs]
  simp

theorem contains_runId_of_paren_false {pat : Str} (hsp : ' ' ∉ pat) (name : Str) (r R : Nat)
    (hp : R > 1 → contains pat (paren (natStr r) (natStr R)) = false) :
    contains pat (runId name r R) = contains pat name := by
  rw [runId_eq]; unfold ridTail
  split
  · rename_i hR
    rw [contains_append_sep hsp, hp hR]; simp
  · simp

/-- the run's own ` (r/R)` (R > 1) never adds an `As-Is` or a `(1/1)` -/
theorem contains_asIs_runId (name : Str) (r R : Nat) : contains sAsIs (runId name r R) = contains sAsIs name :=
  contains_runId_of_paren_false (by decide) name r R (fun _ => contains_false_of_head_not_mem
    (not_mem_paren (digits_natStr r) (digits_natStr R) (by decide) (by decide) (by decide) (by decide)))

theorem contains_oneOfOne_runId (name : Str) (r R : Nat) :
    contains sOneOfOne (runId name r R) = contains sOneOfOne name :=
  contains_runId_of_paren_false (by decide) name r R (fun hR => by
    rw [contains_oneOfOne_paren]; simp; omega)

/-- the first three keys of a set of at least two -/
theorem keys_multi_succ_succ (v : Variant) (rid : Str) (m : Nat) :
    ∃ rest, keys v .multi rid (m + 2) =
      asIsKey v .multi rid :: memberKey rid 1 (m + 2) :: memberKey rid 2 (m + 2) :: rest := by
  refine ⟨((List.range m).map (· + 2)).map (fun i => memberKey rid (i + 1) (m + 2)), ?_⟩
  simp only [keys, memberKeys]
  rw [List.range_succ_eq_map, List.range_succ_eq_map]
  simp [List.map_map, Function.comp_def]

/-! ## `Summary.FileNameSafeId` of the D6-D8 code for the keys of run r of R > 1, every scenario name -/

theorem initLines_append_of_no_newline (a : Str) {b : Str} (hb : '\n' ∉ b) : initLines (a ++ b) = initLines a := by
  simp [initLines, splitLines_append_of_no_newline a hb]

theorem lastLine_append_of_no_newline (a : Str) {b : Str} (hb : '\n' ∉ b) :
    lastLine (a ++ b) = lastLine a ++ b := by
  simp [lastLine, splitLines_append_of_no_newline a hb]

theorem lastLine_of_no_newline {s : Str} (h : '\n' ∉ s) : lastLine s = s := by
  simp [lastLine, splitLines_of_no_newline h]

theorem initLines_of_no_newline {s : Str} (h : '\n' ∉ s) : initLines s = [] := by
  simp [initLines, splitLines_of_no_newline h]

theorem joinLines_cons_of_ne (l : Str) {ls : List Str} (h : ls ≠ []) :
    joinLines (l :: ls) = l ++ '\n' :: joinLines ls := by
  cases ls with
  | nil => exact absurd rfl h
  | cons y ys => rfl

theorem joinLines_concat (A : List Str) (x : Str) :
    joinLines (A ++ [x]) = A.flatMap (· ++ ['\n']) ++ x := by
  induction A with
  | nil => simp [joinLines]
  | cons a A ih =>
    rw [List.cons_append, joinLines_cons_of_ne a (by simp), ih]
    simp

/-- a literal that ends in its only `c` cannot straddle a `c` of the text -/
theorem isPrefix_append_last {q : Str} {c : Char} (hc : c ∉ q) (a b : Str) :
    isPrefix (q ++ [c]) (a ++ c :: b) = isPrefix (q ++ [c]) (a ++ [c]) := by
  induction q generalizing a with
  | nil => cases a <;> simp [isPrefix]
  | cons p ps ih =>
    have hp : p ≠ c := fun e => hc (by simp [e])
    have hps : c ∉ ps := fun e => hc (by simp [e])
    have hpc : (p == c) = false := by simp [hp]
    cases a with
    | nil => simp [isPrefix, hpc]
    | cons x a => simp [isPrefix, ih hps]

theorem contains_append_last {q : Str} {c : Char} (hc : c ∉ q) (a b : Str) :
    contains (q ++ [c]) (a ++ c :: b) = (contains (q ++ [c]) (a ++ [c]) || contains (q ++ [c]) b) := by
  induction a with
  | nil =>
    have h1 := isPrefix_append_last hc [] b
    simp only [List.nil_append] at h1
    have h2 : isPrefix (q ++ [c]) [] = false := by cases q <;> simp [isPrefix]
    simp [contains, h1, h2]
  | cons x a ih =>
    have h1 := isPrefix_append_last hc (x :: a) b
    simp only [List.cons_append] at h1 ⊢
    simp [contains, h1, ih, Bool.or_assoc]

theorem cutFirst_skip {q : Str} {c : Char} (hc : c ∉ q) {a : Str}
    (hn : contains (q ++ [c]) a = false) (w : Str) :
    cutFirst (q ++ [c]) (a ++ (q ++ c :: w)) = a := by
  induction a with
  | nil =>
    have hp : isPrefix (q ++ [c]) (q ++ c :: w) = true := isPrefix_iff.mpr ⟨w, by simp⟩
    cases hq : q ++ c :: w with
    | nil => rfl
    | cons y ys => rw [hq] at hp; simp [cutFirst, hp]
  | cons x a ih =>
    have h1 : isPrefix (q ++ [c]) ((x :: a) ++ (q ++ c :: w)) = false :=
      isPrefix_overlap_false hc (by simp) hn w
    have h2 := contains_tail_false hn
    simp only [List.cons_append] at h1 ⊢
    rw [cutFirst, if_neg (by simp [h1]), ih h2]

theorem paren_no_newline (r R : Nat) : '\n' ∉ paren (natStr r) (natStr R) :=
  not_mem_paren (digits_natStr r) (digits_natStr R) (by decide) (by decide) (by decide) (by decide)

theorem stripSpaces_runId (name : Str) (r R : Nat) (hR : R > 1) :
    stripSpaces (runId name r R) = stripSpaces name ++ paren (natStr r) (natStr R) := by
  rw [runId_eq, stripSpaces_append, stripSpaces_ridTail, if_pos hR]

/-- the blank-free last line of the name (with the `(` that follows it) holds `Solution(`:
the run's own `(r/R)` is swallowed by the replacement, the result does not depend on `r` -/
theorem fileSafeId_fixed_run_hit (name : Str) (r R : Nat) (hR : R > 1) {T : Str} (hT : KeyBody T)
    (h : contains patSolOpen (lastLine (stripSpaces name) ++ ['(']) = true) :
    fileSafeIdOfKey (keyOf (runId name r R) T) =
      slashToUOf (joinLines ((initLines (stripSpaces name)).map (replaceLine patSolOpen []) ++
        [cutFirst patSolOpen (lastLine (stripSpaces name) ++ ['('])])) := by
  rw [fileSafeId_keyOf_all _ hT, stripSpaces_runId name r R hR,
    initLines_append_of_no_newline _ (paren_no_newline r R),
    lastLine_append_of_no_newline _ (paren_no_newline r R)]
  have e : lastLine (stripSpaces name) ++ paren (natStr r) (natStr R) ++ patSolOpen =
      (lastLine (stripSpaces name) ++ ['(']) ++ (natStr r ++ '/' :: natStr R ++ [')'] ++ patSolOpen) := by
    simp [paren]
  rw [e, cutFirst_append_of_contains h]

/-- it does not: the replacement starts at the Saver's own `Solution(`, the run's `(r_of_R)` survives -/
theorem fileSafeId_fixed_run_miss (name : Str) (r R : Nat) (hR : R > 1) {T : Str} (hT : KeyBody T)
    (h : contains patSolOpen (lastLine (stripSpaces name) ++ ['(']) = false) :
    fileSafeIdOfKey (keyOf (runId name r R) T) =
      slashToUOf (joinLines ((initLines (stripSpaces name)).map (replaceLine patSolOpen []) ++
        [lastLine (stripSpaces name)])) ++ (['('] ++ natStr r ++ sUOf ++ natStr R ++ [')']) := by
  rw [fileSafeId_keyOf_all _ hT, stripSpaces_runId name r R hR,
    initLines_append_of_no_newline _ (paren_no_newline r R),
    lastLine_append_of_no_newline _ (paren_no_newline r R)]
  have hn : contains (sSolution ++ ['(']) (lastLine (stripSpaces name) ++ paren (natStr r) (natStr R)) = false := by
    unfold paren
    rw [List.cons_append, List.cons_append, contains_append_last (by decide)]
    have h1 : contains (sSolution ++ ['(']) (natStr r ++ '/' :: natStr R ++ [')']) = false :=
      contains_false_of_head_not_mem
        (not_mem_body (digits_natStr r) (digits_natStr R) (by decide) (by decide) (by decide))
    have h' : contains (sSolution ++ ['(']) (lastLine (stripSpaces name) ++ ['(']) = false := h
    rw [h1, h']; rfl
  have e : lastLine (stripSpaces name) ++ paren (natStr r) (natStr R) ++ patSolOpen =
      (lastLine (stripSpaces name) ++ paren (natStr r) (natStr R)) ++ (sSolution ++ '(' :: []) := by
    simp [patSolOpen]
  have ep : patSolOpen = sSolution ++ ['('] := rfl
  rw [e, ep, cutFirst_skip (by decide) hn]
  rw [joinLines_concat, joinLines_concat, slashToUOf_append, slashToUOf_append, slashToUOf_append,
    slashToUOf_paren]
  simp

theorem runSuffix_inj {r₁ r₂ R : Nat}
    (h : ['('] ++ natStr r₁ ++ sUOf ++ natStr R ++ [')'] = ['('] ++ natStr r₂ ++ sUOf ++ natStr R ++ [')']) :
    r₁ = r₂ := by
  simp only [List.append_assoc] at h
  have h2 := List.append_cancel_left h
  have h3 : natStr r₁ ++ '_' :: (['o', 'f', '_'] ++ (natStr R ++ [')'])) =
      natStr r₂ ++ '_' :: (['o', 'f', '_'] ++ (natStr R ++ [')'])) := by simpa [sUOf] using h2
  exact natStr_inj (append_cons_unique ((digits_natStr r₁).not_mem (by decide))
    ((digits_natStr r₂).not_mem (by decide)) h3).1

/-- EXACTLY when the D6-D8 code gives two runs of one scenario different summary files -/
theorem fileSafeId_fixed_runs_differ_iff (name : Str) {r₁ r₂ R : Nat} (hR : R > 1) (hr : r₁ ≠ r₂)
    {T₁ T₂ : Str} (hT₁ : KeyBody T₁) (hT₂ : KeyBody T₂) :
    fileSafeIdOfKey (keyOf (runId name r₁ R) T₁) ≠ fileSafeIdOfKey (keyOf (runId name r₂ R) T₂) ↔
      contains patSolOpen (lastLine (stripSpaces name) ++ ['(']) = false := by
  rcases Bool.eq_false_or_eq_true (contains patSolOpen (lastLine (stripSpaces name) ++ ['('])) with h | h
  · rw [fileSafeId_fixed_run_hit name r₁ R hR hT₁ h, fileSafeId_fixed_run_hit name r₂ R hR hT₂ h]
    simp [h]
  · rw [fileSafeId_fixed_run_miss name r₁ R hR hT₁ h, fileSafeId_fixed_run_miss name r₂ R hR hT₂ h]
    simp only [h, iff_true]
    exact fun e => hr (runSuffix_inj (List.append_cancel_left e))

/-! ## names of the detail files -/

theorem append_cons_unique_right {c : Char} {l₁ l₂ r₁ r₂ : Str} (h₁ : c ∉ r₁) (h₂ : c ∉ r₂)
    (h : l₁ ++ c :: r₁ = l₂ ++ c :: r₂) : l₁ = l₂ ∧ r₁ = r₂ := by
  have h' : r₁.reverse ++ c :: l₁.reverse = r₂.reverse ++ c :: l₂.reverse := by
    have := congrArg List.reverse h
    simpa using this
  have := append_cons_unique (by simpa using h₁) (by simpa using h₂) h'
  exact ⟨List.reverse_inj.mp this.2, List.reverse_inj.mp this.1⟩

/-- what the Saver puts between `Solution (` and `)`: `As-Is` or `k/n` -/
def KeyBodyS (T : Str) : Prop := T = sAsIs ∨ ∃ k m : Nat, T = natStr k ++ '/' :: natStr m

theorem KeyBodyS.keyBody {T : Str} (h : KeyBodyS T) : KeyBody T := by
  rcases h with rfl | ⟨k, m, rfl⟩
  · exact keyBody_asIs
  · exact keyBody_member k m

theorem anchored_key_shapeS {f : Family} {rid : Str} {n : Nat} {key : Str}
    (h : key ∈ keys .anchored f rid n) : ∃ T, KeyBodyS T ∧ key = keyOf rid T := by
  simp only [keys, List.mem_cons] at h
  rcases h with h | h
  · exact ⟨sAsIs, Or.inl rfl, by rw [h, asIsKey_anchored_eq]⟩
  · cases f with
    | single =>
      simp only [memberKeys, List.mem_singleton] at h
      exact ⟨_, Or.inr ⟨1, 1, rfl⟩, by rw [h, memberKey_eq_keyOf]⟩
    | multi =>
      simp only [memberKeys, List.mem_map, List.mem_range] at h
      obtain ⟨i, _, rfl⟩ := h
      exact ⟨_, Or.inr ⟨i + 1, n, rfl⟩, by rw [memberKey_eq_keyOf]⟩

theorem slashToUOf_member (k m : Nat) :
    slashToUOf (natStr k ++ '/' :: natStr m) = natStr k ++ '_' :: (['o', 'f', '_'] ++ natStr m) := by
  have e : natStr k ++ '/' :: natStr m = natStr k ++ (['/'] ++ natStr m) := by simp
  rw [e, slashToUOf_append, slashToUOf_append,
    slashToUOf_of_no_slash ((digits_natStr k).not_mem (by decide)),
    slashToUOf_of_no_slash ((digits_natStr m).not_mem (by decide))]
  simp [slashToUOf, sUOf]

theorem slashToUOf_keyBody_inj {T₁ T₂ : Str} (h₁ : KeyBodyS T₁) (h₂ : KeyBodyS T₂)
    (h : slashToUOf T₁ = slashToUOf T₂) : T₁ = T₂ := by
  have hA : slashToUOf sAsIs = sAsIs := by decide
  have hne : ∀ k m : Nat, sAsIs ≠ natStr k ++ '_' :: (['o', 'f', '_'] ++ natStr m) := by
    intro k m h
    cases hk : natStr k with
    | nil => exact natStr_ne_nil k hk
    | cons d ds =>
      have hd : d.isDigit = true := digits_natStr k d (by simp [hk])
      rw [hk] at h
      simp [sAsIs] at h
      rw [← h.1] at hd
      exact absurd hd (by decide)
  rcases h₁ with rfl | ⟨k₁, m₁, rfl⟩ <;> rcases h₂ with rfl | ⟨k₂, m₂, rfl⟩
  · rfl
  · rw [hA, slashToUOf_member] at h; exact absurd h (hne _ _)
  · rw [hA, slashToUOf_member] at h; exact absurd h.symm (hne _ _)
  · rw [slashToUOf_member, slashToUOf_member] at h
    have := append_cons_unique ((digits_natStr k₁).not_mem (by decide))
      ((digits_natStr k₂).not_mem (by decide)) h
    have e1 := natStr_inj this.1
    have e2 := natStr_inj (List.append_cancel_left this.2)
    rw [e1, e2]

/-- `Solution.FileNameSafeId` of a key: it keeps the closing `)` -/
theorem solutionFileSafeId_keyOf (rid : Str) {T : Str} (hT : KeyBody T) :
    solutionFileSafeId (keyOf rid T) =
      (slashToUOf (stripSpaces rid) ++ (sSolution ++ '(' :: slashToUOf T)) ++ [')'] := by
  unfold solutionFileSafeId
  rw [stripSpaces_keyOf hT]
  have e : stripSpaces rid ++ (sSolution ++ '(' :: (T ++ [')'])) =
      stripSpaces rid ++ ((sSolution ++ ['(']) ++ (T ++ [')'])) := by simp
  have h1 : slashToUOf sSolution = sSolution := by decide
  have h1' : slashToUOf ['('] = ['('] := by decide
  have h2 : slashToUOf [')'] = [')'] := by decide
  rw [e]
  simp only [slashToUOf_append, h1, h1', h2]
  simp

/-- the endings of the detail files; none holds a `)` -/
def detailSuffixes (ot : OutputType) : List Str :=
  match ot with
  | .csv => ["-ManagementActions.csv".toList, "-NameMappedVariables.csv".toList]
  | .json => [ext .json]

theorem detailFileNames_eq (ot : OutputType) (id : Str) :
    detailFileNames ot id = (detailSuffixes ot).map (solutionFileSafeId id ++ ·) := by
  cases ot <;> rfl

theorem detailSuffix_no_close {ot : OutputType} {s : Str} (h : s ∈ detailSuffixes ot) : ')' ∉ s := by
  cases ot <;> simp [detailSuffixes] at h
  · rcases h with rfl | rfl <;> decide
  · subst h; decide

theorem mem_detailFileNames_keyOf {ot : OutputType} {rid T x : Str} (hT : KeyBody T)
    (hx : x ∈ detailFileNames ot (keyOf rid T)) : ∃ s ∈ detailSuffixes ot,
      x = (slashToUOf (stripSpaces rid) ++ (sSolution ++ '(' :: slashToUOf T)) ++ ')' :: s := by
  rw [detailFileNames_eq, List.mem_map] at hx
  obtain ⟨s, hs, rfl⟩ := hx
  exact ⟨s, hs, by rw [solutionFileSafeId_keyOf rid hT]; simp⟩

/-- a name that two solutions' detail files share pins down the blank-free, slash-free id -/
theorem detail_common {ot₁ ot₂ : OutputType} {rid₁ rid₂ T₁ T₂ x : Str} (hT₁ : KeyBody T₁) (hT₂ : KeyBody T₂)
    (h₁ : x ∈ detailFileNames ot₁ (keyOf rid₁ T₁)) (h₂ : x ∈ detailFileNames ot₂ (keyOf rid₂ T₂)) :
    slashToUOf (stripSpaces rid₁) ++ (sSolution ++ '(' :: slashToUOf T₁) =
      slashToUOf (stripSpaces rid₂) ++ (sSolution ++ '(' :: slashToUOf T₂) := by
  obtain ⟨s₁, hs₁, e₁⟩ := mem_detailFileNames_keyOf hT₁ h₁
  obtain ⟨s₂, hs₂, e₂⟩ := mem_detailFileNames_keyOf hT₂ h₂
  exact (append_cons_unique_right (detailSuffix_no_close hs₁) (detailSuffix_no_close hs₂) (e₁.symm.trans e₂)).1

theorem detail_disjoint_same_run {f : Family} {rid : Str} {n : Nat} {k₁ k₂ : Str}
    (h₁ : k₁ ∈ keys .anchored f rid n) (h₂ : k₂ ∈ keys .anchored f rid n) (hne : k₁ ≠ k₂)
    (ot₁ ot₂ : OutputType) (x : Str) (hx₁ : x ∈ detailFileNames ot₁ k₁) (hx₂ : x ∈ detailFileNames ot₂ k₂) :
    False := by
  obtain ⟨T₁, hT₁, rfl⟩ := anchored_key_shapeS h₁
  obtain ⟨T₂, hT₂, rfl⟩ := anchored_key_shapeS h₂
  have h := detail_common hT₁.keyBody hT₂.keyBody hx₁ hx₂
  have h' := List.append_cancel_left (List.append_cancel_left h)
  simp only [List.cons.injEq, true_and] at h'
  exact hne (by rw [slashToUOf_keyBody_inj hT₁ hT₂ h'])

theorem detail_disjoint_two_runs (name : Str) {r₁ r₂ R : Nat} (hR : R > 1) (hr : r₁ ≠ r₂)
    {f₁ f₂ : Family} {n₁ n₂ : Nat} {k₁ k₂ : Str}
    (h₁ : k₁ ∈ keys .anchored f₁ (runId name r₁ R) n₁) (h₂ : k₂ ∈ keys .anchored f₂ (runId name r₂ R) n₂)
    (ot₁ ot₂ : OutputType) (x : Str) (hx₁ : x ∈ detailFileNames ot₁ k₁) (hx₂ : x ∈ detailFileNames ot₂ k₂) :
    False := by
  obtain ⟨T₁, hT₁, rfl⟩ := anchored_key_shapeS h₁
  obtain ⟨T₂, hT₂, rfl⟩ := anchored_key_shapeS h₂
  have h := detail_common hT₁.keyBody hT₂.keyBody hx₁ hx₂
  rw [rid_fileStemA, rid_fileStemA] at h
  unfold runFileStemA at h
  rw [if_pos hR, if_pos hR] at h
  simp only [List.append_assoc] at h
  have h2 := List.append_cancel_left (List.append_cancel_left h)
  have h3 : natStr r₁ ++ '_' :: (['o', 'f', '_'] ++ (natStr R ++ ([')'] ++ (sSolution ++ '(' :: slashToUOf T₁)))) =
      natStr r₂ ++ '_' :: (['o', 'f', '_'] ++ (natStr R ++ ([')'] ++ (sSolution ++ '(' :: slashToUOf T₂)))) := by
    simpa [sUOf] using h2
  exact hr (natStr_inj (append_cons_unique ((digits_natStr r₁).not_mem (by decide))
    ((digits_natStr r₂).not_mem (by decide)) h3).1)

theorem detailFileNames_nodup (ot : OutputType) (id : Str) : (detailFileNames ot id).Nodup := by
  cases ot
  · simp only [detailFileNames, List.nodup_cons, List.mem_singleton, List.not_mem_nil, not_false_eq_true,
      List.nodup_nil, and_true]
    intro h
    exact absurd (List.append_cancel_left h) (by decide)
  · simp [detailFileNames]

/-- the last six characters tell a summary file from a detail file -/
theorem summaryName_last6 (X : Str) (ot : OutputType) :
    ∃ A, ∃ s ∈ ["ry.csv".toList, "y.json".toList], s.length = 6 ∧ X ++ sDashSummary ++ ext ot = A ++ s := by
  cases ot
  · exact ⟨X ++ "-Summa".toList, "ry.csv".toList, by simp, by decide, by simp [sDashSummary, sSummary, ext]⟩
  · exact ⟨X ++ "-Summar".toList, "y.json".toList, by simp, by decide, by simp [sDashSummary, sSummary, ext]⟩

theorem detailName_last6 {ot : OutputType} {id Q x : Str} (hid : solutionFileSafeId id = Q ++ [')'])
    (hx : x ∈ detailFileNames ot id) :
    ∃ A, ∃ s ∈ ["ns.csv".toList, "es.csv".toList, ").json".toList], s.length = 6 ∧ x = A ++ s := by
  cases ot
  · simp only [detailFileNames, hid, List.mem_cons, List.not_mem_nil, or_false] at hx
    rcases hx with rfl | rfl
    · exact ⟨Q ++ ")-ManagementActio".toList, "ns.csv".toList, by simp, by decide, by simp⟩
    · exact ⟨Q ++ ")-NameMappedVariabl".toList, "es.csv".toList, by simp, by decide, by simp⟩
  · simp only [detailFileNames, hid, List.mem_singleton] at hx
    subst hx
    exact ⟨Q, ").json".toList, by simp, by decide, by simp [ext]⟩

/-- no detail file of a solution whose blank-free id ends in `)` has the name of a summary file -/
theorem detail_ne_summary {ot : OutputType} {id Q : Str} (hid : solutionFileSafeId id = Q ++ [')'])
    (X : Str) (ot' : OutputType) : X ++ sDashSummary ++ ext ot' ∉ detailFileNames ot id := by
  intro hx
  obtain ⟨A, s, hs, hl, e⟩ := detailName_last6 hid hx
  obtain ⟨A', s', hs', hl', e'⟩ := summaryName_last6 X ot'
  have := List.append_inj_right' (e'.symm.trans e) (by rw [hl, hl'])
  subst this
  simp only [List.mem_cons, List.not_mem_nil, or_false] at hs hs'
  rcases hs' with h | h <;> rw [h] at hs <;> revert hs <;> decide

end Crem.Naming

namespace Crem.SummaryCsv
open Crem.Naming

/-! ## the keys of one summary are pairwise distinct (any run id, both variants) -/

theorem memberKey_inj {rid : Str} {k₁ k₂ n : Nat} (h : memberKey rid k₁ n = memberKey rid k₂ n) : k₁ = k₂ := by
  have e : ∀ k, memberKey rid k n = (rid ++ sSolOpen) ++ (natStr k ++ '/' :: (natStr n ++ [')'])) := by
    intro k; simp [memberKey]
  rw [e k₁, e k₂] at h
  have h' := List.append_cancel_left h
  exact natStr_inj (append_cons_unique ((digits_natStr k₁).not_mem (by decide))
    ((digits_natStr k₂).not_mem (by decide)) h').1

theorem asIsKey_ne_memberKey (v : Variant) (f : Family) (rid : Str) (k n : Nat) :
    asIsKey v f rid ≠ memberKey rid k n := by
  intro h
  have hd : ∃ d ds, natStr k = d :: ds ∧ d.isDigit = true := by
    have := natStr_ne_nil k
    cases hk : natStr k with
    | nil => exact absurd hk this
    | cons d ds => exact ⟨d, ds, rfl, digits_natStr k d (by simp [hk])⟩
  obtain ⟨d, ds, hk, hdig⟩ := hd
  have hfixed : rid ++ sSolAsIs ≠ memberKey rid k n := by
    intro h
    have e1 : rid ++ sSolAsIs = (rid ++ sSolOpen) ++ (sAsIs ++ [')']) := by simp [sSolAsIs]
    have e2 : memberKey rid k n = (rid ++ sSolOpen) ++ (natStr k ++ '/' :: (natStr n ++ [')'])) := by
      simp [memberKey]
    rw [e1, e2, hk] at h
    have h' := List.append_cancel_left h
    simp [sAsIs] at h'
    rw [← h'.1] at hdig
    exact absurd hdig (by decide)
  cases f with
  | single => exact hfixed (by simpa [asIsKey] using h)
  | multi =>
    cases v with
    | fixed => exact hfixed (by simpa [asIsKey] using h)
    | anchored => exact hfixed (by simpa [asIsKey] using h)
    | current =>
      have e2 : memberKey rid k n = rid ++ (sSolOpen ++ (natStr k ++ '/' :: (natStr n ++ [')']))) := by
        simp [memberKey]
      simp only [asIsKey] at h
      rw [e2] at h
      have h' := List.append_cancel_left h
      simp [sSpAsIs, sSolOpen, sAsIs, sSolution] at h'

/-- the set size that goes into member ids: 1 for a single optimised solution -/
def idSize (f : Family) (n : Nat) : Nat := match f with | .single => 1 | .multi => n

theorem memberEntries_spec (v : Variant) (f : Family) (rid : Str) (n : Nat) (i : Nat) (ms : List Row) :
    ∀ e ∈ memberEntries v f rid n i ms, e.key = memberKey rid e.sortIndex (idSize f n) ∧ i < e.sortIndex := by
  induction ms generalizing i with
  | nil => simp [memberEntries]
  | cons m ms ih =>
    intro e he
    simp only [memberEntries, List.mem_cons] at he
    rcases he with rfl | he
    · exact ⟨by cases f <;> rfl, Nat.lt_succ_self i⟩
    · have := ih (i + 1) e he
      exact ⟨this.1, by omega⟩

theorem memberEntries_sorted (v : Variant) (f : Family) (rid : Str) (n : Nat) (i : Nat) (ms : List Row) :
    (memberEntries v f rid n i ms).Pairwise (fun a b => a.sortIndex < b.sortIndex) := by
  induction ms generalizing i with
  | nil => simp [memberEntries]
  | cons m ms ih =>
    simp only [memberEntries, List.pairwise_cons]
    refine ⟨?_, ih (i + 1)⟩
    intro e he
    exact (memberEntries_spec v f rid n (i + 1) ms e he).2

theorem entriesInOrder_sorted (v : Variant) (f : Family) (rid : Str) (asIs : Row) (members : List Row) :
    (entriesInOrder v f rid asIs members).Pairwise (fun a b => a.sortIndex < b.sortIndex) := by
  simp only [entriesInOrder, List.pairwise_cons]
  refine ⟨?_, memberEntries_sorted ..⟩
  intro e he
  have := (memberEntries_spec v f rid members.length 0 members e he).2
  simp only [asIsEntry]; omega

theorem entriesInOrder_keys_distinct (v : Variant) (f : Family) (rid : Str) (asIs : Row) (members : List Row) :
    (entriesInOrder v f rid asIs members).Pairwise (fun a b => a.key ≠ b.key) := by
  simp only [entriesInOrder, List.pairwise_cons]
  constructor
  · intro e he
    rw [(memberEntries_spec v f rid members.length 0 members e he).1]
    exact asIsKey_ne_memberKey v f rid _ _
  · have hs := memberEntries_sorted v f rid members.length 0 members
    have hspec := memberEntries_spec v f rid members.length 0 members
    refine List.Pairwise.imp_of_mem ?_ hs
    intro a b ha hb hlt heq
    rw [(hspec a ha).1, (hspec b hb).1] at heq
    have := memberKey_inj heq
    omega

/-! ## the map: inserting entries with distinct keys keeps them all, in insertion order -/

theorem insertEntry_of_new {acc : List Entry} {e : Entry} (h : ∀ x ∈ acc, x.key ≠ e.key) :
    insertEntry acc e = acc ++ [e] := by
  induction acc with
  | nil => rfl
  | cons x xs ih =>
    have hx : x.key ≠ e.key := h x (by simp)
    simp [insertEntry, hx, ih (fun y hy => h y (by simp [hy]))]

theorem foldl_insertEntry_distinct (acc E : List Entry)
    (h : (acc ++ E).Pairwise (fun a b => a.key ≠ b.key)) : E.foldl insertEntry acc = acc ++ E := by
  induction E generalizing acc with
  | nil => simp
  | cons e E ih =>
    have hnew : ∀ x ∈ acc, x.key ≠ e.key := by
      intro x hx
      rw [List.pairwise_append] at h
      exact h.2.2 x hx e (by simp)
    rw [List.foldl_cons, insertEntry_of_new hnew, ih (acc ++ [e]) (by simpa using h)]
    simp

theorem buildSummary_eq (v : Variant) (f : Family) (rid : Str) (asIs : Row) (members : List Row) :
    buildSummary v f rid asIs members = entriesInOrder v f rid asIs members := by
  unfold buildSummary
  have := foldl_insertEntry_distinct [] (entriesInOrder v f rid asIs members)
    (by simpa using entriesInOrder_keys_distinct v f rid asIs members)
  simpa using this

/-! ## sorting by sort index -/

theorem insertSorted_perm (e : Entry) (l : List Entry) : (insertSorted e l).Perm (e :: l) := by
  induction l with
  | nil => exact List.Perm.refl _
  | cons x xs ih =>
    simp only [insertSorted]
    split
    · exact List.Perm.refl _
    · exact ((List.Perm.cons x ih).trans (List.Perm.swap e x xs))

theorem insertSorted_sorted (e : Entry) {l : List Entry}
    (h : l.Pairwise (fun a b => a.sortIndex ≤ b.sortIndex)) :
    (insertSorted e l).Pairwise (fun a b => a.sortIndex ≤ b.sortIndex) := by
  induction l with
  | nil => simp [insertSorted]
  | cons x xs ih =>
    simp only [insertSorted]
    rw [List.pairwise_cons] at h
    split
    · rename_i hle
      refine List.pairwise_cons.mpr ⟨?_, List.pairwise_cons.mpr h⟩
      intro y hy
      rcases List.mem_cons.mp hy with rfl | hy
      · exact hle
      · exact Nat.le_trans hle (h.1 y hy)
    · rename_i hnle
      refine List.pairwise_cons.mpr ⟨?_, ih h.2⟩
      intro y hy
      have := (insertSorted_perm e xs).subset hy
      rcases List.mem_cons.mp this with rfl | hy
      · omega
      · exact h.1 y hy

theorem sortedRows_perm (iter : List Entry) : (sortedRows iter).Perm iter := by
  induction iter with
  | nil => exact List.Perm.refl _
  | cons x xs ih =>
    simp only [sortedRows, List.foldr_cons]
    exact (insertSorted_perm x _).trans (List.Perm.cons x ih)

theorem sortedRows_sorted (iter : List Entry) :
    (sortedRows iter).Pairwise (fun a b => a.sortIndex ≤ b.sortIndex) := by
  induction iter with
  | nil => simp [sortedRows]
  | cons x xs ih =>
    simp only [sortedRows, List.foldr_cons]
    exact insertSorted_sorted x ih

theorem eq_of_mem_of_sortIndex_eq {E : List Entry}
    (hE : E.Pairwise (fun a b => a.sortIndex < b.sortIndex)) {a b : Entry}
    (ha : a ∈ E) (hb : b ∈ E) (h : a.sortIndex = b.sortIndex) : a = b := by
  induction E with
  | nil => simp at ha
  | cons x xs ih =>
    rw [List.pairwise_cons] at hE
    rcases List.mem_cons.mp ha with ea | ha' <;> rcases List.mem_cons.mp hb with eb | hb'
    · rw [ea, eb]
    · have := hE.1 b hb'; rw [← ea] at this; omega
    · have := hE.1 a ha'; rw [← eb] at this; omega
    · exact ih hE.2 ha' hb'

/-- whatever order the map is iterated in, sorting by sort index gives the strictly sorted list back -/
theorem sortedRows_of_perm {E iter : List Entry}
    (hE : E.Pairwise (fun a b => a.sortIndex < b.sortIndex)) (hp : iter.Perm E) : sortedRows iter = E := by
  apply List.Perm.eq_of_pairwise (le := fun a b => a.sortIndex ≤ b.sortIndex) _ (sortedRows_sorted iter)
    (hE.imp (fun h => Nat.le_of_lt h)) ((sortedRows_perm iter).trans hp)
  intro a b ha hb h1 h2
  have ha' : a ∈ E := ((sortedRows_perm iter).trans hp).subset ha
  exact eq_of_mem_of_sortIndex_eq hE ha' hb (Nat.le_antisymm h1 h2)

end Crem.SummaryCsv
