import Crem.Proofs.CatchmentOps
import Crem.Model.SuppaCatchment
import Mathlib.Tactic.Linarith
/-! Helper lemmas for C03: validity (every limited total within its maximum) is preserved by the
limit-seeking randomisation loops, by reverted proposals, and by loading any valid canonical set. -/
namespace Crem.Catchment

/-- the model's value of every limited variable is within its limit -/
def Valid (D : Data) (s : State) : Prop := stateIsValid D s = true

theorem stateIsValid_congr (D : Data) {s s' : State} (h : ∀ v, total s' v = total s v) :
    stateIsValid D s' = stateIsValid D s := by
  unfold stateIsValid
  apply List.all_congr rfl
  intro v; rw [h v]

theorem SameVals.valid {D : Data} {s s' : State} (h : SameVals s s') : Valid D s' ↔ Valid D s := by
  unfold Valid; rw [stateIsValid_congr D h.total_eq]

theorem valid_iff (D : Data) (s : State) :
    Valid D s ↔ ∀ v m, maxOf D v = some m → total s v ≤ m := by
  unfold Valid stateIsValid
  rw [List.all_eq_true]
  constructor
  · intro h v m hm
    have := h v (mem_allVars v)
    unfold withinBounds at this
    rw [hm] at this
    simp at this
    exact this
  · intro h v _
    unfold withinBounds
    cases hm : maxOf D v with
    | none => rfl
    | some m => simp; exact h v m hm

theorem changeIsValid_iff (D : Data) (s : State) :
    changeIsValid D s = true ↔ ∀ v m, maxOf D v = some m → total s v + change s v ≤ m := by
  unfold changeIsValid
  rw [List.all_eq_true]
  constructor
  · intro h v m hm
    have := h v (mem_allVars v)
    unfold withinBounds undoableValue at this
    rw [hm] at this
    simp at this
    exact this
  · intro h v _
    unfold withinBounds undoableValue
    cases hm : maxOf D v with
    | none => rfl
    | some m => simp; exact h v m hm

theorem changeS_doS (p : Nat) (s : SVar) : changeS (doS p s) = changeS s := by
  unfold doS
  split
  · rfl
  · rename_i c hc
    split
    · rfl
    · simp [changeS, hc]

/-- the change a just-applied toggle reports is the change it reported while proposed -/
theorem change_toggled (a : Action) (b : Bool) (i : Nat) (s : State) (v : VarId) :
    change (toggled a b i s) v = change (observed a b i s) v := by
  cases v <;> simp [change, toggled, observed, observeAll, changeP_doP, changeS_doS]

theorem total_with_last (s : State) (l : Option Nat) (v : VarId) :
    total { s with last := l } v = total s v := by cases v <;> rfl

theorem change_with_last (s : State) (l : Option Nat) (v : VarId) :
    change { s with last := l } v = change s v := by cases v <;> rfl

section
variable {D : Data} (hI : InitFacts D) (hK : keysDistinct D.acts = true)
include hI hK

/-- one attempt of the limit-seeking loop on a valid canonical state: whatever the verdict, the
state that is kept is valid.  (The loop checks `total + change` on an *already applied* change:
conservative when the change is non-negative, and irrelevant when it is negative.) -/
theorem initialising_attempt_valid {s : State} (hc : Canon D s) (hv : Valid D s) (d : Nat) (b : Bool)
    (l : Option Nat) (hf : s.flags[d]? = some (!b))
    (hverdict : changeIsValid D (initialising D { s with last := l } d b) = true) :
    Valid D (initialising D { s with last := l } d b) := by
  obtain ⟨a, ha⟩ := getElem?_of_canon hc hf
  have hne : ¬ (!b) = b := by cases b <;> simp
  have hf' : ({ s with last := l } : State).flags[d]? = some (!b) := hf
  rw [initialising_eq (D := D) hf' ha hne] at hverdict ⊢
  have facts := toggled_facts hI hK (hc.with_last l) ha hf'
  rw [valid_iff] at hv ⊢
  rw [changeIsValid_iff] at hverdict
  intro v m hm
  have h1 := hverdict v m hm
  rw [total_with_last, change_with_last, change_toggled] at h1
  rw [total_with_last]
  have h2 := facts.total v
  rw [total_with_last] at h2
  have h3 := hv v m hm
  have h4 : total ({ s with last := l } : State) v = total s v := total_with_last s l v
  rw [h2] at h1 ⊢
  by_cases hpos : 0 ≤ change (observed a b d { s with last := l }) v
  · linarith
  · push_neg at hpos; linarith

/-- putting the action back restores the values -/
theorem initialising_back_sameVals {s : State} (hc : Canon D s) (d : Nat) (b : Bool) (l : Option Nat)
    (hf : s.flags[d]? = some (!b)) :
    SameVals s (initialising D (initialising D { s with last := l } d b) d (!b)) := by
  have h1 := initialising_canon hI hK (hc.with_last l) d b
  have h2 := initialising_canon hI hK h1 d (!b)
  apply hc.sameVals h2
  -- flags: set d b, then set d (!b), from a list whose d-th entry is !b
  obtain ⟨a, ha⟩ := getElem?_of_canon hc hf
  have hne : ¬ (!b) = b := by cases b <;> simp
  have hf' : ({ s with last := l } : State).flags[d]? = some (!b) := hf
  rw [initialising_eq (D := D) hf' ha hne]
  have hl : d < s.flags.length := by
    rcases Nat.lt_or_ge d s.flags.length with h | h
    · exact h
    · simp [List.getElem?_eq_none h] at hf
  have hf2 : ({ toggled a b d { s with last := l } with last := l } : State).flags[d]? = some b := by
    show (s.flags.set d b)[d]? = some b
    simp [hl]
  have hne2 : ¬ b = !b := by cases b <;> simp
  rw [initialising_eq (D := D) hf2 ha hne2]
  show ((s.flags.set d b).set d (!b)) = s.flags
  rw [List.set_set]
  have : (!b) = s.flags[d] := by
    rw [List.getElem?_eq_getElem hl] at hf; exact (Option.some.inj hf).symm
  rw [this, List.set_getElem_self hl]

/-- `RandomlyValidlyActivateActions` / `RandomlyValidlyDeactivateActions` keep a valid state valid,
for every sequence of draws and whatever the outcome -/
theorem seekLimit_valid (b : Bool) :
    ∀ (draws : List Nat) (n : Nat) (s : State), Canon D s → Valid D s →
      Valid D (seekLimit D b draws n s).state := by
  intro draws
  induction draws with
  | nil =>
    intro n s _ hv
    cases n <;> simpa [seekLimit, LoopOutcome.state] using hv
  | cons d ds ih =>
    intro n s hc hv
    cases n with
    | zero => simpa [seekLimit, LoopOutcome.state] using hv
    | succ n =>
      simp only [seekLimit]
      split
      · exact hv
      · rename_i cur hcur
        split
        · exact ih _ _ hc hv
        · rename_i hne
          have hcur' : s.flags[d]? = some (!b) := by
            rw [hcur]; cases cur <;> cases b <;> simp_all
          have h1c := initialising_canon hI hK (hc.with_last (some d)) d b
          split
          · rename_i hverdict
            exact ih _ _ h1c (initialising_attempt_valid hI hK hc hv d b (some d) hcur' hverdict)
          · have hs := initialising_back_sameVals hI hK hc d b (some d) hcur'
            have hv2 := (hs.valid (D := D)).mpr hv
            split <;> exact hv2

end

/-- without any configured limit every state is valid -/
theorem valid_of_no_limit (D : Data) (h1 : hasCostLimit D = false) (h2 : hasPollutantLimit D = false)
    (s : State) : Valid D s := by
  rw [valid_iff]
  intro v m hm
  simp only [hasCostLimit, hasPollutantLimit, Bool.or_eq_false_iff, Option.isSome_eq_false_iff,
    Option.isNone_iff_eq_none] at h1 h2
  cases v <;> simp_all [maxOf]

end Crem.Catchment
