import Driver.Common
import Driver.Dominance
