import Driver.Common
import Driver.Dominance
import Driver.Archive
import Driver.Num
import Driver.Catchment
import Driver.Suppa
import Driver.Kirkpatrick
import Driver.Anneal
