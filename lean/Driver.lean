import Driver.Common
import Driver.Dominance
import Driver.Archive
import Driver.Num
import Driver.Catchment
