import Driver.Common
import Driver.Dominance
import Driver.Archive
