import Driver.Catchment
import Crem.Model.Suppapitnarm
import Crem.Model.SuppaCatchment
/-
Oracle for the `suppa-runs` suite: the multi-objective explorer model composed with the catchment
model (the real explorer is run over the real catchment model with scripted random sources).

  (load phase as in Driver.Catchment)
  start <product|averaged> <T> <coolingFactor> <minRate:nat> <rtbFactor> <initialStep:nat> <curBits> <potBits> [cnd]
        (floats as bit patterns; `cnd` = CheckNonDominance is on)   -> ok <state>
  iter <u> <pick> <draws…>        -> <res> <desirable> <moved> <forced> <returned> <prob|-> <k> <k diffs> <state>
                                     (`panic` when the model says the iteration panics)
  cool                            -> <temperature bits>
The per-objective changes (`VariableDifferences`) are NOT an input: the model computes them from its own
candidate and current values and prints them (`~b…`, compared with Go's to relative 1e-9).
state = cd=<countdown> last=<lastReturned> it=<iter> cur=<bits> <six totals> arch=<len> <hash>
-/
namespace Driver.Suppa
open Crem Crem.Archive Crem.Suppa Crem.Catchment

def floatArith : Arith Float where
  one := 1
  zero := 0
  add := (· + ·)
  sub := (· - ·)
  mul := (· * ·)
  div := (· / ·)
  neg := fun x => -x
  abs := Float.abs
  exp := Float.exp
  max := fun a b => if a > b then a else b
  gt := fun a b => a > b
  ofNat := Nat.toFloat
  -- numerator and denominator of a grid value are exact in binary64 (< 2^53), so the correctly rounded
  -- quotient is the binary64 nearest to the decimal: what Go's RoundFloat (math.Round(x·10^p)/10^p) holds
  ofRat := fun q => Float.ofInt q.num / Float.ofNat q.den
  trunc := fun x => x.toUInt64.toNat

structure St where
  c : Driver.Catchment.St := {}
  ex : Option (Ex Float State) := none
  P : Params Float := { kind := .product, minRate := 1, factor := 1 }
  coolFactor : Float := 1

def hashArch (a : List Entry) : UInt64 :=
  a.foldl (fun h e =>
    let h := e.vec.foldl (fun h v => h * 1000003 + (UInt64.ofInt v)) (h * 31 + 7)
    e.act.foldl (fun h b => h * 131 + (if b then 2 else 1)) (h * 17 + 3)) 1469598103934665603

def totalsStr (s : State) : String :=
  " ".intercalate [gridStr 3 s.sed.total, gridStr 3 s.pn.total, gridStr 3 s.dn.total, gridStr 3 s.tn.total,
     gridStr 2 s.ic.total, gridStr 2 s.oc.total]

def exStr (e : Ex Float State) : String :=
  s!"cd={e.countdown.toNat} last={e.lastReturned} it={e.iter} cur={Driver.Catchment.bitsStr e.current.flags} {totalsStr e.current} arch={e.archive.length} {hashArch e.archive}"

def resStr : Res → String
  | .storedReplacing => "SR" | .storedNoDom => "SN" | .rejDominated => "RD"
  | .rejDuplicate => "RU" | .forced => "F"

def parseF (s : String) : Option Float :=
  match parseHexNat s with
  | some n => if s.length = 16 then some (Float.ofBits (UInt64.ofNat n)) else none
  | none => none

def hex16 (n : UInt64) : String :=
  let ds := (List.range 16).map fun i => ((n >>> (UInt64.ofNat (4 * (15 - i)))) &&& 0xf).toNat
  String.ofList (ds.map fun d => if d < 10 then Char.ofNat (48 + d) else Char.ofNat (87 + d))

/-- the output line of one iteration (shared with the toy driver) -/
def outStr (o : Out Float) (stateStr : String) : String :=
  if o.selfCheckPanic || o.emptyPickPanic then "panic" else
  let ps := match o.prob with
    | some p => s!"~b{hex16 p.toBits}"
    | none => "-"
  let ds := " ".intercalate (o.diffs.map fun d => s!"~b{hex16 d.toBits}")
  s!"{resStr o.result} {boolStr o.desirable} {boolStr o.moved} {boolStr o.forced} {boolStr o.returned} {ps} {o.diffs.length} {ds} {stateStr}"

/-- draw within 1e-9 (relative) of the probability: math.Exp and libm exp may differ in the last place -/
def nearDraw (o : Out Float) (u : Float) : Bool :=
  match o.prob with
  | some p => decide (Float.abs (p - u) < 1e-9 * (if p > u then p else u))
  | none => false

def step (st : St) (line : String) : St × String :=
  let ws := words line
  let (ws, cnd) := match ws.getLast? with
    | some "cnd" => (ws.dropLast, true)
    | _ => (ws, false)
  match ws with
  | ["start", kind, t, cf, minRate, factor, step0, cur, pot] =>
    -- a data set with a cost on a rounding tie of `RoundFloat(cost, 2)` is decided by Go's last float bit: the run is
    -- judged Go against Go (direct clauses of the suite) and not by this oracle
    if st.c.D.acts.any Driver.Catchment.costTie then (st, "BOUNDARY") else
    match parseF t, parseF cf, minRate.toNat?, parseF factor, step0.toNat?,
          Driver.Catchment.parseBits cur, Driver.Catchment.parseBits pot with
    | some t, some cf, some mr, some f, some s0, some cb, some pb =>
      let D := st.c.D
      let base := init D
      let e : Ex Float State :=
        { current := setAll D base cb, potential := setAll D base pb, archive := [], temperature := t,
          countdown := BitVec.ofNat 64 (floatArith.trunc s0.toFloat), step := s0.toFloat, iter := 1, lastReturned := 0 }
      let P : Params Float := { kind := if kind = "averaged" then .averaged else .product, minRate := mr.toFloat, factor := f,
                                checkNonDominance := cnd }
      ({ st with ex := some e, P := P, coolFactor := cf }, s!"ok {exStr e}")
    | _, _, _, _, _, _, _ => (st, "bad-op")
  | "iter" :: u :: pick :: rest =>
    match st.ex, parseF u, pick.toNat? with
    | some e, some u, some pick =>
      match rest.mapM String.toNat? with
      | some draws =>
        let (e', o) := iterate floatArith (modelOps st.c.D) st.P e { draws := draws, u := u, pick := pick }
        if nearDraw o u then ({ st with ex := some e' }, "BOUNDARY") else
        ({ st with ex := some e' }, outStr o (exStr e'))
      | _ => (st, "bad-op")
    | _, _, _ => (st, "bad-op")
  | ["cool"] =>
    match st.ex with
    | some e =>
      let e' := coolDown floatArith st.coolFactor e
      ({ st with ex := some e' }, hex16 e'.temperature.toBits)
    | none => (st, "bad-op")
  | _ =>
    let (c', out) := Driver.Catchment.step st.c line
    ({ st with c := c' }, out)

end Driver.Suppa
