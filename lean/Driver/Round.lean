import Driver.Num
import Crem.Model.Round
/-
Oracle for the `round-ops` suite: `pkg/math.RoundFloat(value, p)` as the theorems know it (`Crem.rnd`).

  round <16 hex bits> <p>  ->  <rnd p value with p decimals> | refuse | big | nan | BOUNDARY
-/
namespace Driver.Round
open Crem

/-- the largest finite binary64 -/
def maxFloat : Rat := ((2 ^ 1024 - 2 ^ 971 : Nat) : Rat)

def absR (x : Rat) : Rat := if x < 0 then -x else x

def step (_ : Unit) (line : String) : Unit × String :=
  match words line with
  | ["round", bits, p] =>
    match p.toNat? with
    | none => ((), "bad-op")
    | some p =>
      if bits.length = 16 ∧ (bits.toLower = "7ff0000000000000" ∨ bits.toLower = "fff0000000000000") then ((), "refuse") else
      match parseFloatBits bits with
      | none => ((), "nan")
      | some x =>
        let scale : Rat := ((10 ^ p : Nat) : Rat)
        if absR x > maxFloat / scale then ((), "refuse") else
        let y := absR x * scale
        if y ≥ ((2 ^ 52 : Nat) : Rat) then ((), "big") else
        -- within float error of a half-integer without being one: Go decides by the last bit of its product
        let f := y - (y.floor : Rat)
        let d := if f ≥ 1/2 then f - 1/2 else 1/2 - f
        let eps := max (1 / 1000000000) (y / 1000000000000)
        if d ≠ 0 ∧ d < eps then ((), "BOUNDARY") else
        ((), gridStr p (rnd p x))
  | _ => ((), "bad-op")

end Driver.Round
