import Driver.Suppa
/-
Oracle for the `suppa-script` suite: the multi-objective explorer model over a scripted toy model
(state = action set; objective vector = sum of per-action integer weight vectors; `Randomize()`
installs the scripted candidate).  Small integer vectors make ties, equal vectors, dominated and
duplicate candidates frequent, which real catchment runs rarely produce.

  start-toy <product|averaged> <T> <coolingFactor> <minRate> <rtbFactor> <initialStep> <d> <n> <n*d weights> <curBits> <potBits> [cnd]
  iter <u> <pick> <candidate bits as 0/1 draws…>      (output as in Driver.Suppa: the changes are computed, not given)
  cool
-/
namespace Driver.SuppaToy
open Crem Crem.Archive Crem.Suppa Driver.Suppa

def vecOf (W : List (List Int)) (d : Nat) (s : List Bool) : List Int :=
  (List.range d).map fun j =>
    ((W.zip s).foldl (fun acc (w, b) => if b then acc + w.getD j 0 else acc) 0)

def toyOps (W : List (List Int)) (d : Nat) : ModelOps (List Bool) where
  compress := fun s => ⟨vecOf W d s, s⟩
  values := fun s => (vecOf W d s).map fun (x : Int) => (x : Rat)
  syncTo := fun _ bits => bits
  randomize := fun _ draws => draws.map (· = 1)

structure St where
  W : List (List Int) := []
  d : Nat := 0
  ex : Option (Ex Float (List Bool)) := none
  P : Params Float := { kind := .product, minRate := 1, factor := 1 }
  coolFactor : Float := 1

def exStr (W : List (List Int)) (d : Nat) (e : Ex Float (List Bool)) : String :=
  let v := " ".intercalate ((vecOf W d e.current).map toString)
  s!"cd={e.countdown.toNat} last={e.lastReturned} it={e.iter} cur={Driver.Catchment.bitsStr e.current} {v} arch={e.archive.length} {hashArch e.archive}"

/-- split into rows of `d` (fuel = list length keeps the recursion structural) -/
def chunkAux (d : Nat) : Nat → List Int → List (List Int)
  | 0, _ => []
  | _, [] => []
  | fuel + 1, xs => xs.take d :: chunkAux d fuel (xs.drop d)

def chunk (d : Nat) (xs : List Int) : List (List Int) := if d = 0 then [] else chunkAux d xs.length xs

def step (st : St) (line : String) : St × String :=
  let ws := words line
  let (ws, cnd) := match ws.getLast? with
    | some "cnd" => (ws.dropLast, true)
    | _ => (ws, false)
  match ws with
  | "start-toy" :: kind :: t :: cf :: minRate :: factor :: step0 :: d :: n :: rest =>
    match parseF t, parseF cf, minRate.toNat?, parseF factor, step0.toNat?, d.toNat?, n.toNat? with
    | some t, some cf, some mr, some f, some s0, some d, some n =>
      match parseInts (rest.take (n * d)), rest.drop (n * d) with
      | some ws', [cur, pot] =>
        match Driver.Catchment.parseBits cur, Driver.Catchment.parseBits pot with
        | some cb, some pb =>
          let W := chunk d ws'
          let e : Ex Float (List Bool) :=
            { current := cb, potential := pb, archive := [], temperature := t,
              countdown := BitVec.ofNat 64 (floatArith.trunc s0.toFloat), step := s0.toFloat, iter := 1, lastReturned := 0 }
          let P : Params Float := { kind := if kind = "averaged" then .averaged else .product, minRate := mr.toFloat, factor := f,
                                    checkNonDominance := cnd }
          ({ W := W, d := d, ex := some e, P := P, coolFactor := cf }, s!"ok {exStr W d e}")
        | _, _ => (st, "bad-op")
      | _, _ => (st, "bad-op")
    | _, _, _, _, _, _, _ => (st, "bad-op")
  | "iter" :: u :: pick :: rest =>
    match st.ex, parseF u, pick.toNat? with
    | some e, some u, some pick =>
      match rest.mapM String.toNat? with
      | some draws =>
        let (e', o) := iterate floatArith (toyOps st.W st.d) st.P e { draws := draws, u := u, pick := pick }
        if nearDraw o u then ({ st with ex := some e' }, "BOUNDARY") else
        ({ st with ex := some e' }, outStr o (exStr st.W st.d e'))
      | _ => (st, "bad-op")
    | _, _, _ => (st, "bad-op")
  | ["cool"] =>
    match st.ex with
    | some e =>
      let e' := coolDown floatArith st.coolFactor e
      ({ st with ex := some e' }, hex16 e'.temperature.toBits)
    | none => (st, "bad-op")
  | ["reset"] => ({}, "ok")
  | _ => (st, "bad-op")

end Driver.SuppaToy
