import Driver.Common
import Crem.Model.Csv
/-!
Oracle of the `csv` suite (property C20).

  `load x<hex>`  ->  `err:<class>` | `panic:<go function>` |
                     `ok h=<hex>|<hex>… dims=<cols>x<rows>|panic rows=<cell>|<cell>…;<cell>…`

  `cast x<hex>`  ->  `<cell>`      one field through `BaseCaster.Cast`
  `loadtc x<hex of the text> x<hex of a text heading>…`  ->  as `load`
                     (`ParseCsvTextIntoTableWithTextColumns`; zero or more headings)
  `hist <step> / <step> …`   several loads into ONE data set; step = `n<hex of the table name> x<hex of
                     the text> x<hex of a text heading>…`; answer = per step, joined by ` / `:
                     `e=<class of the error this load added, or -> n=<errors so far> t=<none | ok …>`
                     (`t` = `Table(name)` after the step), or `panic` for the whole line
  `meta x<hex> x<hex>` -> `go-only`  (degenerate meta files through DataSet.Load; no model)
  `castgo x<hex>` -> `go-only`     (a literal outside the model's scope, `mantDigits > 800`; the harness
                     judges it against strconv only; `go-only-BUT-IN-SCOPE` if it is in scope after all)

a cell is `<kind>/<CellString>/<CellFloat64>`:
  kind        `n<16 hex bits>` float64, `b0`/`b1` bool, `t<hex>` string
  CellString  `s<hex>` the string returned, or `g<16 hex bits>` = "the %v text of this float"
              (the harness parses the returned text back with ParseFloat and prints the bits)
  CellFloat64 `f<16 hex bits>` or `f!` (the type assertion panics)
-/
namespace Driver.Csv
open Crem.Csv

def hexVal (c : Char) : Option Nat :=
  if '0' ≤ c ∧ c ≤ '9' then some (c.toNat - '0'.toNat)
  else if 'a' ≤ c ∧ c ≤ 'f' then some (c.toNat - 'a'.toNat + 10)
  else if 'A' ≤ c ∧ c ≤ 'F' then some (c.toNat - 'A'.toNat + 10)
  else none

def parseHex : List Char → Option Bytes
  | [] => some []
  | a :: b :: rest =>
    match hexVal a, hexVal b, parseHex rest with
    | some x, some y, some r => some (UInt8.ofNat (x * 16 + y) :: r)
    | _, _, _ => none
  | _ => none

def hexDigit (n : Nat) : Char :=
  if n < 10 then Char.ofNat ('0'.toNat + n) else Char.ofNat ('a'.toNat + (n - 10))

def toHex (bs : Bytes) : String :=
  String.ofList (bs.foldr (fun b acc => hexDigit (b.toNat / 16) :: hexDigit (b.toNat % 16) :: acc) [])

/-- 16 hex digits of a 64-bit pattern -/
def bits16 (n : Nat) : String :=
  String.ofList ((List.range 16).map (fun i => hexDigit ((n >>> (4 * (15 - i))) % 16)))

def cellStr (c : Cell) : String :=
  let kind := match c with
    | .num b => "n" ++ bits16 b
    | .bool b => if b then "b1" else "b0"
    | .text s => "t" ++ toHex s
  let s := match cellString c with
    | .str s => "s" ++ toHex s
    | .fmtFloat b => "g" ++ bits16 b
  let f := match cellFloat64 c with
    | some b => "f" ++ bits16 b
    | none => "f!"
  kind ++ "/" ++ s ++ "/" ++ f

def errStr : CsvErr → String
  | .bareQuote => "bareQuote"
  | .quote => "quote"
  | .fieldCount => "fieldCount"
  | .noRecords => "noRecords"  -- not an encoding/csv ParseError: crem's own "csv content has no header record"

def tableStr (t : Table) : String :=
  let h := "|".intercalate (t.header.map toHex)
  let dims := match columnAndRowSize t with
    | (c, r) => s!"{c}x{r}"
  let rows := ";".intercalate (t.cells.map (fun row => "|".intercalate (row.map cellStr)))
  s!"ok h={h} dims={dims} rows={rows}"

def loadResultStr : Load → String
  | .error e => "err:" ++ errStr e
  | .panic .cellIndex => "panic:assignTableContent"
  | .ok t => tableStr t

def loadStr (text : Bytes) : String := loadResultStr (load text)

def xArg (arg : String) : Option Bytes :=
  match arg.toList with
  | 'x' :: hex => parseHex hex
  | _ => none

def dsErrStr : DsErr → String
  | .csv e => errStr e
  | .duplicateTable => "duplicateTable"

/-- one step of a `hist` line: `n<hex> x<hex> x<hex>…` -/
def histStep (ds : DataSet) (ws : List String) : Option (DataSet × String) :=
  match ws with
  | nameArg :: textArg :: hs =>
    match nameArg.toList, xArg textArg, hs.mapM xArg with
    | 'n' :: nhex, some text, some ths =>
      match parseHex nhex with
      | none => none
      | some name =>
        match DataSet.parseInto true ds name ths text with
        | none => none
        | some ds' =>
          -- the name is in use AND the text is not loadable: the load is refused, for whichever reason the loader meets first
          let both := (ds.table? name).isSome && (match load text with | .error _ => true | _ => false)
          let e := if ds'.errors.length > ds.errors.length then
              (if both then "E*" else match ds'.errors.getLast? with | some e => dsErrStr e | none => "?") else "-"
          let t := match ds'.table? name with
            | some t => tableStr t
            | none => "none"
          some (ds', s!"e={e} n={ds'.errors.length} t={t}")
    | _, _, _ => none
  | _ => none

def splitSteps (ws : List String) : List (List String) :=
  let (cur, acc) := ws.foldr (fun w (p : List String × List (List String)) =>
    if w == "/" then ([], p.1 :: p.2) else (w :: p.1, p.2)) ([], [])
  cur :: acc

def histStr (ws : List String) : String :=
  let rec go (ds : DataSet) (steps : List (List String)) (out : List String) : String :=
    match steps with
    | [] => " / ".intercalate out.reverse
    | st :: rest =>
      match histStep ds st with
      | none => "panic-or-bad-op"
      | some (ds', o) => go ds' rest (o :: out)
  go {} (splitSteps ws) []

/-- `cast x<hex>` -> the cell one field is cast to (cast grammar stream) -/
def step (line : String) : String :=
  match words line with
  | ["load", arg] =>
    match arg.toList with
    | 'x' :: hex =>
      match parseHex hex with
      | some bs => loadStr bs
      | none => "bad-op"
    | _ => "bad-op"
  | ["cast", arg] =>
    match arg.toList with
    | 'x' :: hex =>
      match parseHex hex with
      | some bs => cellStr (cast bs)
      | none => "bad-op"
    | _ => "bad-op"
  | "loadtc" :: textArg :: hs =>
    match xArg textArg, hs.mapM xArg with
    | some text, some ths => loadResultStr (loadT ths text)
    | _, _ => "bad-op"
  | "hist" :: ws => histStr ws
  | ["meta", _, _] => "go-only"     -- DataSet.Load on files: judged on the Go side only
  | ["castgo", arg] =>
    match xArg arg with
    | some bs => if mantDigits bs > 800 then "go-only" else "go-only-BUT-IN-SCOPE"
    | none => "bad-op"
  | _ => "bad-op"

end Driver.Csv
