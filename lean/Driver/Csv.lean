import Driver.Common
import Crem.Model.Csv
/-!
Oracle of the `csv` suite (property C20).

  `load x<hex>`  ->  `err:<class>` | `panic:<go function>` |
                     `ok h=<hex>|<hex>… dims=<cols>x<rows>|panic rows=<cell>|<cell>…;<cell>…`

  `cast x<hex>`  ->  `<cell>`      one field through `BaseCaster.Cast`
  `meta x<hex> x<hex>` -> `go-only`  (degenerate meta files through DataSet.Load; no model)

a cell is `<kind>/<CellString>/<CellFloat64>`:
  kind        `n<16 hex bits>` float64, `b0`/`b1` bool, `t<hex>` string
  CellString  `s<hex>` the string returned, or `g<16 hex bits>` = "the %v text of this float"
              (the harness parses the returned text back with ParseFloat and prints the bits)
  CellFloat64 `f<16 hex bits>` or `f!` (the type assertion panics)
-/
namespace Driver.Csv
open Crem.Csv

def hexVal (c : Char) : Option Nat :=
  if '0' ≤ c ∧ c ≤ '9' then some (c.toNat - '0'.toNat)
  else if 'a' ≤ c ∧ c ≤ 'f' then some (c.toNat - 'a'.toNat + 10)
  else if 'A' ≤ c ∧ c ≤ 'F' then some (c.toNat - 'A'.toNat + 10)
  else none

def parseHex : List Char → Option Bytes
  | [] => some []
  | a :: b :: rest =>
    match hexVal a, hexVal b, parseHex rest with
    | some x, some y, some r => some (UInt8.ofNat (x * 16 + y) :: r)
    | _, _, _ => none
  | _ => none

def hexDigit (n : Nat) : Char :=
  if n < 10 then Char.ofNat ('0'.toNat + n) else Char.ofNat ('a'.toNat + (n - 10))

def toHex (bs : Bytes) : String :=
  String.ofList (bs.foldr (fun b acc => hexDigit (b.toNat / 16) :: hexDigit (b.toNat % 16) :: acc) [])

/-- 16 hex digits of a 64-bit pattern -/
def bits16 (n : Nat) : String :=
  String.ofList ((List.range 16).map (fun i => hexDigit ((n >>> (4 * (15 - i))) % 16)))

def cellStr (c : Cell) : String :=
  let kind := match c with
    | .num b => "n" ++ bits16 b
    | .bool b => if b then "b1" else "b0"
    | .text s => "t" ++ toHex s
  let s := match cellString c with
    | .str s => "s" ++ toHex s
    | .fmtFloat b => "g" ++ bits16 b
  let f := match cellFloat64 c with
    | some b => "f" ++ bits16 b
    | none => "f!"
  kind ++ "/" ++ s ++ "/" ++ f

def errStr : CsvErr → String
  | .bareQuote => "bareQuote"
  | .quote => "quote"
  | .fieldCount => "fieldCount"
  | .noRecords => "other"      -- not an encoding/csv ParseError

def loadStr (text : Bytes) : String :=
  match load text with
  | .error e => "err:" ++ errStr e
  | .panic .cellIndex => "panic:assignTableContent"
  | .ok t =>
    let h := "|".intercalate (t.header.map toHex)
    let dims := match columnAndRowSize t with
      | (c, r) => s!"{c}x{r}"
    let rows := ";".intercalate (t.cells.map (fun row => "|".intercalate (row.map cellStr)))
    s!"ok h={h} dims={dims} rows={rows}"

/-- `cast x<hex>` -> the cell one field is cast to (cast grammar stream) -/
def step (line : String) : String :=
  match words line with
  | ["load", arg] =>
    match arg.toList with
    | 'x' :: hex =>
      match parseHex hex with
      | some bs => loadStr bs
      | none => "bad-op"
    | _ => "bad-op"
  | ["cast", arg] =>
    match arg.toList with
    | 'x' :: hex =>
      match parseHex hex with
      | some bs => cellStr (cast bs)
      | none => "bad-op"
    | _ => "bad-op"
  | ["meta", _, _] => "go-only"     -- DataSet.Load on files: judged on the Go side only
  | _ => "bad-op"

end Driver.Csv
