import Driver.Common
import Driver.Csv
import Crem.Model.EngineSummary
/-!
Oracle of the `engine-summaries` suite (property C13): the engine's summary intake and label lookup.

Byte strings travel as `x<hex>` (`x` alone = empty), an absent attribute as `none`.

  `variant <colsFromEnd> <rawActions> <poolReset>`   -> `ok`        which repairs the engine under test has (0/1 each)
  `fmtv <16 hex bits>`                               -> `x<hex>`    `fmt.Sprintf("%v", float64)`
  `scenario <nActions> <k> (<name> <16 hex bits>)*k` -> `ok`        a FRESH engine with this scenario posted
  `rescenario <nActions> <k> (<name> <16 hex bits>)*k` -> `ok`      the scenario POSTed to the SAME engine (new model, new pool,
                                                                    the summary table stays: `Crem.EngineSummary.doScenario`)
  `summary <k> <name>*k <r> (<label> <value>*k <encoding> <note>)*r`
        -> `HYP wellFormed <true|false> x<rendered text> lay=<0|1> rb=<0|1>`
           the summary the real marshaler rendered from these rows (compared byte for byte), the
           decidable hypothesis `wellFormed` evaluated on it, and the two excluding hypotheses of the
           `_partial` theorems for the variant under test
  `summaryx …` (same arguments)                      -> `x<rendered text> lay=<0|1> rb=<0|1>`   rows not claimed to be explorer-made
  `post`                                             -> `ok` | `rejected` | `panic`   POST the last rendered text
  `posttext x<hex>`                                  -> the same, for an arbitrary body
  `get <label>`      -> `notfound` | `panic` | `found e=<Encoding attribute> n=<Summary attribute> p=<ParetoFrontMember attribute> f=<active flags|panic>`
  `patch <encoding>` -> `rejected` | `member=<0|1|none>`     PATCH /model, then the ParetoFrontMember attribute of GET /model
  `params …`         -> `ok`        Scenario.Name / model parameters of the scenario posted next (harness side only)
  `dataset …`        -> `ok`        start of a case (tells the harness which data set to load; nothing for the model)
  `layout x<text>`   -> `splittable`  emitted only when the harness could NOT split a summary crem wrote into `, `-separated
                                    rows under a `Solution, …, Actions, Summary` header (it then answers `unsplittable`)
  `getvalid <label>` -> `go-only`   D25 observation (ValidAgainstScenario of a pooled solution), evaluated on the Go side only
-/
namespace Driver.EngineSummary
open Crem.Csv Crem.EngineSummary

/-- the engine state is the MODEL's (`Crem.EngineSummary.Engine`, `step`); the driver only adds the variant under
test and the text the next `post` sends -/
structure St where
  v : Variant := .current
  eng : Engine := { sc := { nActions := 0, vars := [] } }
  text : Bytes := []

def hx (b : Bytes) : String := "x" ++ Driver.Csv.toHex b

def unhx (s : String) : Option Bytes :=
  match s.toList with
  | 'x' :: rest => Driver.Csv.parseHex rest
  | _ => none

def hexNat (s : String) : Option Nat :=
  s.toList.foldl (fun acc c => match acc, Driver.Csv.hexVal c with
    | some a, some d => some (a * 16 + d)
    | _, _ => none) (some 0)

def flagsStr (f : Option (List Bool)) : String :=
  match f with
  | none => "panic"
  | some [] => "-"
  | some bs => String.ofList (bs.map (fun b => if b then '1' else '0'))

def splitAtN {α : Type} (n : Nat) (l : List α) : Option (List α × List α) :=
  if l.length < n then none else some (l.take n, l.drop n)

def parseScenarioVars : Nat → List String → Option (List (Bytes × Nat))
  | 0, [] => some []
  | 0, _ => none
  | k + 1, n :: b :: rest =>
    match unhx n, hexNat b, parseScenarioVars k rest with
    | some nm, some bits, some vs => some ((nm, bits) :: vs)
    | _, _, _ => none
  | _, _ => none

def parseRows (k : Nat) : Nat → List String → Option (List Row)
  | 0, [] => some []
  | 0, _ => none
  | r + 1, ws =>
    match splitAtN (k + 3) ws with
    | none => none
    | some (cur, rest) =>
      match cur.mapM unhx, parseRows k r rest with
      | some (label :: fields), some rows =>
        some ({ label := label, values := fields.take k, encoding := fields.getD k [], note := fields.getD (k + 1) [] } :: rows)
      | _, _ => none

/-- `(names, rows)` of a `summary` line -/
def parseSummary (ws : List String) : Option (List Bytes × List Row) :=
  match ws with
  | kS :: rest =>
    match kS.toNat? with
    | none => none
    | some k =>
      match splitAtN k rest with
      | none => none
      | some (nameToks, rest2) =>
        match nameToks.mapM unhx, rest2 with
        | some names, rS :: rowToks =>
          match rS.toNat? with
          | none => none
          | some r => (parseRows k r rowToks).map (fun rows => (names, rows))
        | _, _ => none
  | _ => none

def postStr : Post → String
  | .ok _ => "ok"
  | .panic _ => "panic"
  -- WHY the engine refuses a summary (not CSV / a malformed cell / not of this scenario) is told apart by the model; the
  -- implementation says it in a message text only, whose wording is nobody's contract: the class is not printed
  | .rejected _ => "rejected"

def cachedStr (c : Cached) : String :=
  s!"found e={hx c.enc} n={match c.note with | some n => hx n | none => "none"} p={Driver.boolStr c.member} f={flagsStr c.flags}"

def respStr : Resp → String
  | .ok => "ok"
  | .panic => "panic"
  -- WHY the engine refuses a summary (not CSV / a malformed cell / not of this scenario) is told apart by the model; the
  -- implementation says it in a message text only, whose wording is nobody's contract: the class is not printed
  | .rejected _ => "rejected"
  | .notFound => "notfound"
  | .found c => cachedStr c
  | .patchRejected => "rejected"
  | .member (some b) => "member=" ++ Driver.boolStr b
  | .member none => "member=none"

def doReq (st : St) (r : Req) : St × String :=
  let (e, resp) := Crem.EngineSummary.step st.v st.eng r
  ({ st with eng := e }, respStr resp)

def step (st : St) (line : String) : St × String :=
  match Driver.words line with
  | "dataset" :: _ => ({ st with eng := { sc := st.eng.sc }, text := [] }, "ok")
  | ["getvalid", _] => (st, "go-only")
  | "params" :: _ => (st, "ok")
  | ["layout", _] => (st, "splittable")
  | ["variant", a, b, c] => ({ st with v := ⟨a == "1", b == "1", c == "1", false⟩ }, "ok")
  | ["variant", a, b, c, d] => ({ st with v := ⟨a == "1", b == "1", c == "1", d == "1"⟩ }, "ok")
  | ["fmtv", bits] =>
    match hexNat bits with
    | some n => (st, hx (fmtV n))
    | none => (st, "bad-line")
  | "scenario" :: n :: k :: rest =>
    match n.toNat?, k.toNat? with
    | some n, some k =>
      match parseScenarioVars k rest with
      | some vars => ({ st with eng := { sc := { nActions := n, vars := vars } }, text := [] }, "ok")
      | none => (st, "bad-line")
    | _, _ => (st, "bad-line")
  | "relimit" :: _ :: n :: k :: rest =>
    -- the same scenario POSTed again with another limit: for the engine model a scenario POST like any other
    match n.toNat?, k.toNat? with
    | some n, some k =>
      match parseScenarioVars k rest with
      | some vars => doReq { st with text := [] } (.scenario { nActions := n, vars := vars })
      | none => (st, "bad-line")
    | _, _ => (st, "bad-line")
  | "rescenario" :: n :: k :: rest =>
    match n.toNat?, k.toNat? with
    | some n, some k =>
      match parseScenarioVars k rest with
      | some vars => doReq { st with text := [] } (.scenario { nActions := n, vars := vars })
      | none => (st, "bad-line")
    | _, _ => (st, "bad-line")
  | "summary" :: rest =>
    match parseSummary rest with
    | some (names, rows) =>
      let text := renderSummary names rows
      ({ st with text := text },
        s!"HYP wellFormed {wellFormed st.eng.sc names rows} {hx text} lay={Driver.boolStr (layoutOk st.v names)} rb={Driver.boolStr (encodingsReadBack st.v rows)}")
    | none => (st, "bad-line")
  | "summaryx" :: rest =>
    match parseSummary rest with
    | some (names, rows) =>
      let text := renderSummary names rows
      ({ st with text := text },
        s!"{hx text} lay={Driver.boolStr (layoutOk st.v names)} rb={Driver.boolStr (encodingsReadBack st.v rows)}")
    | none => (st, "bad-line")
  | ["post"] => doReq st (.post st.text)
  | ["posttext", t] =>
    match unhx t with
    | some text => doReq st (.post text)
    | none => (st, "bad-line")
  | ["get", l] =>
    match unhx l with
    | some label => doReq st (.get label)
    | none => (st, "bad-line")
  | ["patch", e] =>
    match unhx e with
    | some enc => doReq st (.patch enc)
    | none => (st, "bad-line")
  | _ => (st, "bad-line")

end Driver.EngineSummary
