import Driver.Common
import Driver.Csv
import Crem.Model.EngineSummary
/-!
Oracle of the `engine-summaries` suite (property C13): the engine's summary intake and label lookup.

Byte strings travel as `x<hex>` (`x` alone = empty), an absent attribute as `none`.

  `variant <colsFromEnd> <rawActions> <poolReset>`   -> `ok`        which repairs the engine under test has (0/1 each)
  `fmtv <16 hex bits>`                               -> `x<hex>`    `fmt.Sprintf("%v", float64)`
  `scenario <nActions> <k> (<name> <16 hex bits>)*k` -> `ok`        a FRESH engine with this scenario posted
  `summary <k> <name>*k <r> (<label> <value>*k <encoding> <note>)*r`
        -> `HYP wellFormed <true|false> x<rendered text> lay=<0|1> rb=<0|1>`
           the summary the real marshaler rendered from these rows (compared byte for byte), the
           decidable hypothesis `wellFormed` evaluated on it, and the two excluding hypotheses of the
           `_partial` theorems for the variant under test
  `summaryx …` (same arguments)                      -> `x<rendered text> lay=<0|1> rb=<0|1>`   rows not claimed to be explorer-made
  `post`                                             -> `ok` | `rejected:<csv|invalid|notScenario>` | `panic`   POST the last rendered text
  `posttext x<hex>`                                  -> the same, for an arbitrary body
  `get <label>`      -> `notfound` | `panic` | `found e=<Encoding attribute> n=<Summary attribute> p=<ParetoFrontMember attribute> f=<active flags|panic>`
  `patch <encoding>` -> `rejected` | `member=<0|1|none>`     PATCH /model, then the ParetoFrontMember attribute of GET /model
  `dataset …`        -> `ok`        start of a case (tells the harness which data set to load; nothing for the model)
  `layout x<text>`   -> `splittable`  emitted only when the harness could NOT split a summary crem wrote into `, `-separated
                                    rows under a `Solution, …, Actions, Summary` header (it then answers `unsplittable`)
  `getvalid <label>` -> `go-only`   D25 observation (ValidAgainstScenario of a pooled solution), evaluated on the Go side only
-/
namespace Driver.EngineSummary
open Crem.Csv Crem.EngineSummary

structure Cached where
  enc : Bytes
  note : Option Bytes
  /-- the `ParetoFrontMember` attribute of the pooled solution: `AddSolution` sets it, the As-Is entry has it false -/
  member : Bool
  flags : Option (List Bool)

structure St where
  v : Variant := .current
  sc : Scenario := { nActions := 0, vars := [] }
  table : Option Table := none
  pool : List (Bytes × Cached) := []
  pfm : Option Bool := none
  text : Bytes := []

def hx (b : Bytes) : String := "x" ++ Driver.Csv.toHex b

def unhx (s : String) : Option Bytes :=
  match s.toList with
  | 'x' :: rest => Driver.Csv.parseHex rest
  | _ => none

def hexNat (s : String) : Option Nat :=
  s.toList.foldl (fun acc c => match acc, Driver.Csv.hexVal c with
    | some a, some d => some (a * 16 + d)
    | _, _ => none) (some 0)

def flagsStr (f : Option (List Bool)) : String :=
  match f with
  | none => "panic"
  | some [] => "-"
  | some bs => String.ofList (bs.map (fun b => if b then '1' else '0'))

def splitAtN {α : Type} (n : Nat) (l : List α) : Option (List α × List α) :=
  if l.length < n then none else some (l.take n, l.drop n)

def parseScenarioVars : Nat → List String → Option (List (Bytes × Nat))
  | 0, [] => some []
  | 0, _ => none
  | k + 1, n :: b :: rest =>
    match unhx n, hexNat b, parseScenarioVars k rest with
    | some nm, some bits, some vs => some ((nm, bits) :: vs)
    | _, _, _ => none
  | _, _ => none

def parseRows (k : Nat) : Nat → List String → Option (List Row)
  | 0, [] => some []
  | 0, _ => none
  | r + 1, ws =>
    match splitAtN (k + 3) ws with
    | none => none
    | some (cur, rest) =>
      match cur.mapM unhx, parseRows k r rest with
      | some (label :: fields), some rows =>
        some ({ label := label, values := fields.take k, encoding := fields.getD k [], note := fields.getD (k + 1) [] } :: rows)
      | _, _ => none

/-- `(names, rows)` of a `summary` line -/
def parseSummary (ws : List String) : Option (List Bytes × List Row) :=
  match ws with
  | kS :: rest =>
    match kS.toNat? with
    | none => none
    | some k =>
      match splitAtN k rest with
      | none => none
      | some (nameToks, rest2) =>
        match nameToks.mapM unhx, rest2 with
        | some names, rS :: rowToks =>
          match rS.toNat? with
          | none => none
          | some r => (parseRows k r rowToks).map (fun rows => (names, rows))
        | _, _ => none
  | _ => none

def postStr : Post → String
  | .ok _ => "ok"
  | .panic _ => "panic"
  | .rejected .csv => "rejected:csv"
  | .rejected .invalid => "rejected:invalid"
  | .rejected .notScenario => "rejected:notScenario"

def doPost (st : St) (text : Bytes) : St × String :=
  let r := loadSummary st.v st.sc text
  match r with
  | .ok t => ({ st with table := some t, pool := if st.v.poolReset then [] else st.pool }, postStr r)
  | _ => (st, postStr r)

def cachedStr (c : Cached) : String :=
  s!"found e={hx c.enc} n={match c.note with | some n => hx n | none => "none"} p={Driver.boolStr c.member} f={flagsStr c.flags}"

def doGet (st : St) (label : Bytes) : St × String :=
  match st.table with
  | none => (st, "notfound")
  | some t =>
    if !routableLabel label || !containsLabel label t then (st, "notfound")
    else if label == sAsIs then
      -- the pool's own As-Is entry, built when the scenario was posted
      (st, cachedStr { enc := ofChars (Crem.BoolArchive.encode (List.replicate st.sc.nActions false)), note := none, member := false,
                       flags := some (List.replicate st.sc.nActions false) })
    else
      match st.pool.find? (fun p => p.1 == label) with
      | some (_, c) => (st, cachedStr c)
      | none =>
        match findDetail st.v t label (if st.v.guards then t.cells else t.cells.tail) with
        | .found e n =>
          match poolActive st.sc.nActions e with
          | none => (st, "panic")
          | some f =>
            let c : Cached := { enc := e, note := some n, member := true, flags := some f }
            ({ st with pool := (label, c) :: st.pool }, cachedStr c)
        | .panic _ => (st, "panic")
        | _ => (st, "notfound")

def doPatch (st : St) (enc : Bytes) : St × String :=
  match st.table with
  | none =>
    match Crem.BoolArchive.decode st.sc.nActions (toChars enc) with
    | .error _ => (st, "rejected")
    | .ok _ => (st, "member=" ++ (match st.pfm with | some b => Driver.boolStr b | none => "none"))
  | some t =>
    match paretoMember st.sc t enc with
    | none => (st, "rejected")
    | some b => ({ st with pfm := some b }, "member=" ++ Driver.boolStr b)

def step (st : St) (line : String) : St × String :=
  match Driver.words line with
  | "dataset" :: _ => ({ st with table := none, pool := [], pfm := none, text := [] }, "ok")
  | ["getvalid", _] => (st, "go-only")
  | ["layout", _] => (st, "splittable")
  | ["variant", a, b, c] => ({ st with v := ⟨a == "1", b == "1", c == "1", false⟩ }, "ok")
  | ["variant", a, b, c, d] => ({ st with v := ⟨a == "1", b == "1", c == "1", d == "1"⟩ }, "ok")
  | ["fmtv", bits] =>
    match hexNat bits with
    | some n => (st, hx (fmtV n))
    | none => (st, "bad-line")
  | "scenario" :: n :: k :: rest =>
    match n.toNat?, k.toNat? with
    | some n, some k =>
      match parseScenarioVars k rest with
      | some vars => ({ st with sc := { nActions := n, vars := vars }, table := none, pool := [], pfm := none, text := [] }, "ok")
      | none => (st, "bad-line")
    | _, _ => (st, "bad-line")
  | "summary" :: rest =>
    match parseSummary rest with
    | some (names, rows) =>
      let text := renderSummary names rows
      ({ st with text := text },
        s!"HYP wellFormed {wellFormed st.sc names rows} {hx text} lay={Driver.boolStr (layoutOk st.v names)} rb={Driver.boolStr (encodingsReadBack st.v rows)}")
    | none => (st, "bad-line")
  | "summaryx" :: rest =>
    match parseSummary rest with
    | some (names, rows) =>
      let text := renderSummary names rows
      ({ st with text := text },
        s!"{hx text} lay={Driver.boolStr (layoutOk st.v names)} rb={Driver.boolStr (encodingsReadBack st.v rows)}")
    | none => (st, "bad-line")
  | ["post"] => doPost st st.text
  | ["posttext", t] =>
    match unhx t with
    | some text => doPost st text
    | none => (st, "bad-line")
  | ["get", l] =>
    match unhx l with
    | some label => doGet st label
    | none => (st, "bad-line")
  | ["patch", e] =>
    match unhx e with
    | some enc => doPatch st enc
    | none => (st, "bad-line")
  | _ => (st, "bad-line")

end Driver.EngineSummary
