import Driver.Common
import Crem.Model.Params
import Std.Data.HashMap
/-!
Line-protocol oracle of the `params` suite (property C18); the protocol is described at the top
of `harness/cmd/suite_params.go`.  Everything that decides an output is a definition of
`Crem/Model/Params.lean`; this file only parses, keeps the instances, and prints.
-/
namespace Driver.Params
open Crem.Params

/-! ### token coding -/

def hexDigit (c : Char) : Option Nat :=
  if '0' ≤ c ∧ c ≤ '9' then some (c.toNat - '0'.toNat)
  else if 'a' ≤ c ∧ c ≤ 'f' then some (c.toNat - 'a'.toNat + 10)
  else if 'A' ≤ c ∧ c ≤ 'F' then some (c.toNat - 'A'.toNat + 10)
  else none

def hexNat (s : String) : Option Nat :=
  if s.isEmpty then none
  else s.toList.foldl (fun acc c => match acc, hexDigit c with
    | some a, some d => some (a * 16 + d)
    | _, _ => none) (some 0)

partial def hexBytes : List Char → Option (List UInt8)
  | [] => some []
  | [_] => none
  | a :: b :: rest =>
    match hexDigit a, hexDigit b, hexBytes rest with
    | some x, some y, some bs => some (UInt8.ofNat (x * 16 + y) :: bs)
    | _, _, _ => none

def unhex (s : String) : Option String :=
  match hexBytes s.toList with
  | some bs => String.fromUTF8? (ByteArray.mk bs.toArray)
  | none => none

def nibble (n : Nat) : Char :=
  if n < 10 then Char.ofNat ('0'.toNat + n) else Char.ofNat ('a'.toNat + n - 10)

def hexOfString (s : String) : String :=
  String.ofList (s.toUTF8.toList.flatMap fun b => [nibble (b.toNat / 16), nibble (b.toNat % 16)])

def hex16 (b : UInt64) : String :=
  String.ofList ((List.range 16).map fun i => nibble ((b.toNat >>> (4 * (15 - i))) % 16))

def afterPrefix (tok : String) (pre : String) : Option String :=
  if tok.startsWith pre then some (tok.drop pre.length).toString else none

def parseKey (tok : String) : Option String :=
  match afterPrefix tok "k:" with
  | some h => if h.isEmpty then some "" else unhex h
  | none => none

partial def parseValue : List String → Option (Value × List String)
  | [] => none
  | tok :: rest =>
    if tok == "n" then some (.null, rest)
    else if let some r := afterPrefix tok "i:" then r.toInt?.map fun i => (.int i, rest)
    else if let some r := afterPrefix tok "f:" then
      if r.length == 16 then (hexNat r).map fun n => (.float (UInt64.ofNat n), rest) else none
    else if let some r := afterPrefix tok "s:" then
      (if r.isEmpty then some "" else unhex r).map fun s => (.str s, rest)
    else if let some r := afterPrefix tok "b:" then
      if r == "1" then some (.bool true, rest) else if r == "0" then some (.bool false, rest) else none
    else if let some r := afterPrefix tok "d:" then
      (if r.isEmpty then some "" else unhex r).map fun s => (.datetime s, rest)
    else if let some r := (afterPrefix tok "a:").orElse (fun _ => afterPrefix tok "A:") then
      -- `A:` is Go's []map[string]interface{} (a TOML array of tables): for the model an array like any other
      match r.toNat? with
      | some n =>
        let rec elems (k : Nat) (toks : List String) (acc : List Value) : Option (List Value × List String) :=
          match k with
          | 0 => some (acc.reverse, toks)
          | k + 1 => match parseValue toks with
            | some (v, toks') => elems k toks' (v :: acc)
            | none => none
        (elems n rest []).map fun (xs, toks) => (.array xs, toks)
      | none => none
    else if let some r := afterPrefix tok "t:" then
      match r.toNat? with
      | some n =>
        let rec entries (k : Nat) (toks : List String) (acc : List (String × Value)) : Option (List (String × Value) × List String) :=
          match k, toks with
          | 0, _ => some (acc.reverse, toks)
          | _ + 1, [] => none
          | k + 1, kt :: toks' => match parseKey kt, parseValue toks' with
            | some key, some (v, toks'') => entries k toks'' ((key, v) :: acc)
            | _, _ => none
        (entries n rest []).map fun (kvs, toks) => (.table kvs, toks)
      | none => none
    else none

partial def encValue : Value → String
  | .null => "n"
  | .int i => s!"i:{i}"
  | .float b => "f:" ++ hex16 b
  | .str s => "s:" ++ hexOfString s
  | .bool b => "b:" ++ boolStr b
  | .datetime s => "d:" ++ hexOfString s
  | .array xs => " ".intercalate (s!"a:{xs.length}" :: xs.map encValue)
  | .table kvs => " ".intercalate (s!"t:{kvs.length}" :: kvs.flatMap fun (k, v) => ["k:" ++ hexOfString k, encValue v])

/-- `n` key/value pairs -/
partial def parsePairs : Nat → List String → Option (List (String × Value) × List String)
  | 0, toks => some ([], toks)
  | _ + 1, [] => none
  | n + 1, kt :: toks =>
    match parseKey kt, parseValue toks with
    | some k, some (v, toks') => (parsePairs n toks').map fun (rest, t) => ((k, v) :: rest, t)
    | _, _ => none

/-- validator tokens (the bounds of the named validators are the model's, see `Crem/Model/Params.lean`) -/
def parseValidator : List String → Option (Option Validator × List String)
  | "decimal" :: r => some (some .decimal, r)
  | "dec01" :: r => some (some .decimalBetweenZeroAndOne, r)
  | "decnonneg" :: r => some (some .nonNegativeDecimal, r)
  | "decbounds" :: lo :: hi :: r =>
    match hexNat lo, hexNat hi with
    | some l, some h => some (some (.decimalBounds (UInt64.ofNat l) (UInt64.ofNat h)), r)
    | _, _ => none
  | "intbounds" :: lo :: hi :: r =>
    match lo.toInt?, hi.toInt? with
    | some l, some h => some (some (.integerBounds l h), r)
    | _, _ => none
  | "integer" :: r => some (some .integer, r)
  | "intnonneg" :: r => some (some .nonNegativeInteger, r)
  | "string" :: r => some (some .string, r)
  | "boolean" :: r => some (some .boolean, r)
  | "readable" :: r => some (some .readableFile, r)
  | "direction" :: r => some (some .optimisationDirection, r)
  | tok :: r => if tok.startsWith "unknown:" then some (none, r) else none
  | [] => none

/-! ### state -/

structure Decl where
  mode : Mode
  post : Post
  specs : Specs := []
  unknown : List String := []   -- keys whose validator the model does not know
  offers : Option (List String) := none

structure Inst where
  comp : Component
  decl : String
  p : Params
  /-- the components this instance's `SetParameters` forwards every user map to (declaration name, component, state) -/
  parts : List (String × Component × Params) := []

structure St where
  decls : Std.HashMap String Decl := {}
  insts : Std.HashMap String Inst := {}
  readable : List String := []

def envOf (st : St) (decl : String) : Env :=
  { readable := fun s => st.readable.contains s,
    offers := fun s => match (st.decls.get? decl).bind (·.offers) with
      | some l => l.contains s
      | none => true }

/-- the instance as a chain: itself first, then the components it forwards to -/
def partsOf (st : St) (inst : Inst) : List Part :=
  { env := envOf st inst.decl, comp := inst.comp, p := inst.p } ::
    inst.parts.map fun (d, c, p) => { env := envOf st d, comp := c, p := p }

def sanitize (s : String) : String :=
  String.ofList (s.toList.map fun c => if c.isAlphanum then c else '_')

/-- canonical state line: error classes counted, map deduplicated (first match wins, as `getKey`
reads it) and sorted by key -/
def stateLine (p : Params) : String :=
  let cnt (f : Err → Bool) := (p.errors.filter f).length
  let inv := cnt fun | .invalid _ => true | _ => false
  let uns := cnt fun | .unsupported _ => true | _ => false
  let msg := cnt fun | .message _ => true | _ => false
  let dedup := p.map.foldl (fun (acc : List (String × Value)) kv =>
    if acc.any (·.1 == kv.1) then acc else acc ++ [kv]) []
  let sorted := (dedup.map fun (k, v) => (hexOfString k, v)).mergeSort (fun a b => a.1 ≤ b.1)
  let parts := sorted.map fun (k, v) => s!" k:{k} {encValue v}"
  s!"errs {inv} {uns} {msg} map {sorted.length}" ++ String.join parts

def parsePost : List String → Option Post
  | ["none"] => some .none
  | "atmostone" :: n :: rest =>
    match n.toNat?, rest.mapM parseKey with
    | some k, some keys => if keys.length == k then some (.atMostOneOf keys) else none
    | _, _ => none
  | ["offered", k] => (parseKey k).map .offered
  | _ => none

def parseMode : String → Option Mode
  | "all" => some .all
  | "enforced" => some .enforced
  | _ => none

def tyOf : String → Option Ty
  | "int" => some .int
  | "float" => some .float
  | "str" => some .str
  | "bool" => some .bool
  | _ => none

def step (st : St) (line : String) : St × String :=
  let bad := (st, "bad-op")
  match words line with
  | "comp" :: c :: mode :: post =>
    match parseMode mode, parsePost post with
    | some m, some p => ({ st with decls := st.decls.insert c { mode := m, post := p } }, "ok")
    | _, _ => bad
  | "offers" :: c :: n :: rest =>
    match st.decls.get? c, n.toNat?, rest.mapM (fun t => (parseValue [t]).map (·.1)) with
    | some d, some k, some vs =>
      let names := vs.filterMap fun | .str s => some s | _ => none
      if names.length == k then ({ st with decls := st.decls.insert c { d with offers := some names } }, "ok") else bad
    | _, _, _ => bad
  | "readable" :: [tok] =>
    match parseValue [tok] with
    | some (.str s, []) => ({ st with readable := s :: st.readable }, "ok")
    | _ => bad
  | "spec" :: c :: kt :: opt :: rest =>
    match st.decls.get? c, parseKey kt, parseValidator rest with
    | some d, some k, some (val?, rest') =>
      match parseValue rest' with
      | some (dflt, []) =>
        let optional := opt == "1"
        match val? with
        | some val =>
          let s : Spec := { key := k, validator := val, default := dflt, optional := optional }
          let st' := { st with decls := st.decls.insert c { d with specs := d.specs ++ [s] } }
          (st', s!"HYP SpecsWellFormed:{c}:{sanitize k} {specWellFormed (envOf st c) s} ok")
        | none =>
          -- a validator the model does not know: no claim can be made for this key
          let s : Spec := { key := k, validator := .oneOf [], default := dflt, optional := optional }
          let st' := { st with decls := st.decls.insert c { d with specs := d.specs ++ [s], unknown := k :: d.unknown } }
          (st', s!"HYP SpecsWellFormed:{c}:{sanitize k} false ok")
      | _ => bad
    | _, _, _ => bad
  | ["spect", c, kt] =>
    match st.decls.get? c, parseKey kt with
    | some d, some k =>
      match Specs.find d.specs k with
      | some s => (st, s!"HYP SpecsTypeWellFormed:{c}:{sanitize k} {specTypeWellFormed s && !d.unknown.contains k} ok")
      | none => bad
    | _, _ => bad
  | ["specsdone", c] =>
    match st.decls.get? c with
    | some d => (st, s!"HYP SpecKeysDistinct:{c} {nodupKeys d.specs.keys} {d.specs.length}")
    | none => bad
  | ["load", id, c, kind] =>
    match st.decls.get? c with
    | some d =>
      let comp? : Option Component :=
        if kind == "comp" then some { specs := d.specs, mode := d.mode, post := d.post }
        else (parseMode kind).map fun m => { specs := d.specs, mode := m, post := .none }
      match comp? with
      | some comp =>
        let p := createDefaults comp.specs
        ({ st with insts := st.insts.insert id { comp := comp, decl := c, p := p } }, stateLine p)
      | none => bad
    | none => bad
  | "set" :: id :: n :: rest =>
    match st.insts.get? id, n.toNat? with
    | some inst, some k =>
      match parsePairs k rest with
      | some (user, []) =>
        match fanOut (partsOf st inst) user with
        | own :: below =>
          let parts' := (inst.parts.zip below).map fun ((d, c, _), pt) => (d, c, pt.p)
          ({ st with insts := st.insts.insert id { inst with p := own.p, parts := parts' } }, stateLine own.p)
        | [] => bad
      | _ => bad
    | _, _ => bad
  | ["part", id, c] =>
    match st.insts.get? id, st.decls.get? c with
    | some inst, some d =>
      let comp : Component := { specs := d.specs, mode := d.mode, post := d.post }
      let p := createDefaults comp.specs
      ({ st with insts := st.insts.insert id { inst with parts := inst.parts ++ [(c, comp, p)] } }, stateLine p)
    | _, _ => bad
  | ["pstate", id, i] =>
    match st.insts.get? id, i.toNat? with
    | some inst, some n =>
      match inst.parts[n]? with
      | some (_, _, p) => (st, stateLine p)
      | none => bad
    | _, _ => bad
  | ["perrs", id] =>
    match st.insts.get? id with
    | some inst => (st, boolStr (reportsErrors (partsOf st inst)))
    | none => bad
  | "validate" :: c :: kt :: rest =>
    match st.decls.get? c, parseKey kt, parseValue rest with
    | some d, some k, some (v, []) =>
      (st, match verdict (envOf st c) d.specs k v with
        | .valid => "valid" | .invalid => "invalid" | .unsupported => "unsupported")
    | _, _, _ => bad
  | "vdirect" :: rest =>
    match parseValidator rest with
    | some (some val, rest') =>
      match parseValue rest' with
      | some (v, []) =>
        (st, if validates { readable := fun s => st.readable.contains s, offers := fun _ => true } val v then "valid" else "invalid")
      | _ => bad
    | _ => bad
  | ["get", id, kt, ty] =>
    match st.insts.get? id, parseKey kt, tyOf ty with
    | some inst, some k, some τ =>
      let out : Option Value := match τ with
        | .int => (inst.p.getInt64 k).map .int
        | .float => (inst.p.getFloat64 k).map .float
        | .str => (inst.p.getString k).map .str
        | .bool => (inst.p.getBoolean k).map .bool
      (st, match out with | some v => encValue v | none => "panic")
    | _, _, _ => bad
  | ["has", id, kt] =>
    match st.insts.get? id, parseKey kt with
    | some inst, some k => (st, boolStr (inst.p.hasEntry k))
    | _, _ => bad
  | ["use", id] => if st.insts.contains id then (st, "used") else bad
  | ["lateerr", id, n] =>
    match st.insts.get? id, n.toNat? with
    | some inst, some k =>
      let p' := lateMessages inst.p k
      ({ st with insts := st.insts.insert id { inst with p := p' } }, stateLine p')
    | _, _ => bad
  | _ => bad

end Driver.Params
