import Driver.Common
import Crem.Model.BoolArchive
import Crem.Model.ActionOrder
/-
Line-protocol oracle for C09.

suite `boolarchive-ops` (stateful, archives live in numbered slots):
  reset                     -> ok
  new <slot> <size>         -> ok <ArchiveLen>
  set <slot> <idx> <0|1>    -> ok | panic          (idx is a Go int, may be negative)
  get <slot> <idx>          -> 0 | 1 | panic
  enc <slot>                -> =<text>
  dec <slot> =<text>        -> ok | err:count | err:syntax | err:range
  eqv <slotA> <slotB>       -> 0 | 1
  state <slot>              -> <size> <word>,<word>,.. c=<cached text>   (raw words in hex, via the accessor on the Go side)
  bits <slot>               -> b<Value(0)Value(1)...>
  fill <slot> b<bits>       -> ok | panic          (SetValue(i, bits[i]) in index order, as ModelCompressor does)
  check <slot>              -> ok | FAIL:stale-encoding | FAIL:roundtrip    (property clauses on one archive)
  checkpair <a> <b>         -> ok | skip | FAIL:canonical | FAIL:equivalent (equal text iff equal values iff IsEquivalentTo)
  spec-enc b<bits>          -> =<text>             (abstract spec `encode`)
  spec-dec <n> =<text>      -> ok b<bits> | err:<class>   (abstract spec `decode n`)
suite `portability`:
  pe b<bits>                -> =<text>             (abstract `encode`; Go: encoding of a catchment model holding those flags)
  pd <n> =<text>            -> ok b<bits> | err:..  (abstract `decode n`; Go: flags of a fresh model after Decode + Decompress)
  order <pu>:<type>:<id> .. -> HYP keysDistinct <true|false> <pu>:<type>:<id> ..   (model's sorted order of the gathered list)
  less <pu>:<type>:<id> <pu>:<type>:<id> -> 0 | 1          (`less`; Go: ManagementActions.Less over SimpleManagementAction stubs)
  sort <pu>:<type>:<id> ..  -> d <pu>:<type>:<id> ..       (keys distinct: the whole sorted list is determined)
                             | e <pu>:<type> ..            (equal keys present: only the key sequence is)
Text is escaped: bytes outside 0x21..0x7E and '%' travel as %XX (ASCII only; other characters travel raw).
-/
namespace Driver.BoolArchive
open Crem.BoolArchive

def hexNibble (c : Char) : Option Nat :=
  if '0' ≤ c ∧ c ≤ '9' then some (c.toNat - 48)
  else if 'A' ≤ c ∧ c ≤ 'F' then some (c.toNat - 55)
  else if 'a' ≤ c ∧ c ≤ 'f' then some (c.toNat - 87)
  else none

def unescape : List Char → List Char
  | '%' :: a :: b :: rest =>
    match hexNibble a, hexNibble b with
    | some x, some y => Char.ofNat (16 * x + y) :: unescape rest
    | _, _ => '%' :: unescape (a :: b :: rest)
  | c :: rest => c :: unescape rest
  | [] => []

def nibbleChar (d : Nat) : Char := if d < 10 then Char.ofNat (48 + d) else Char.ofNat (55 + d)

def escape : List Char → List Char
  | [] => []
  | c :: rest =>
    if c.toNat < 0x21 ∨ c.toNat = 0x7F ∨ c = '%' then
      '%' :: nibbleChar (c.toNat / 16) :: nibbleChar (c.toNat % 16) :: escape rest
    else c :: escape rest

/-- `=<escaped text>` -> text -/
def textArg (tok : String) : Option (List Char) :=
  match tok.toList with
  | '=' :: rest => some (unescape rest)
  | _ => none

def textOut (s : List Char) : String := "=" ++ String.ofList (escape s)

def bitsArg (tok : String) : Option (List Bool) :=
  match tok.toList with
  | 'b' :: rest => rest.mapM (fun c => if c = '1' then some true else if c = '0' then some false else none)
  | _ => none

def bitsOut (bs : List Bool) : String := "b" ++ String.ofList (bs.map (fun b => if b then '1' else '0'))

def errStr : DecodeErr → String
  | .count => "err:count"
  | .syntax => "err:syntax"
  | .range => "err:range"

def hex16 (w : BitVec 64) : String := String.ofList (toHex w.toNat)

abbrev St := List (Option Archive)   -- slots

def getSlot (st : St) (i : Nat) : Option Archive := (st.getD i none)

def setSlot (st : St) (i : Nat) (a : Archive) : St :=
  if i < st.length then st.set i (some a) else st ++ List.replicate (i - st.length) none ++ [some a]

def specDec (n : Nat) (t : List Char) : String :=
  match decode n t with
  | .ok bs => "ok " ++ bitsOut bs
  | .error e => errStr e

/-- `SetValue(i, bits[i])` in index order; stops at the first panic, keeping what was written -/
def fillLoop : List Bool → Nat → Archive → Archive × Bool
  | [], _, a => (a, true)
  | b :: bs, i, a =>
    match setValueInt a i b with
    | none => (a, false)
    | some a' => fillLoop bs (i + 1) a'

/-- the clauses of the property for one archive, evaluated on the model state -/
def checkOne (a : Archive) : Archive × String :=
  let r := encoding a
  let bits := absBits a
  if r.2 ≠ encode bits then (r.1, "FAIL:stale-encoding")
  else
    match decode a.size r.2 with
    | .ok bs => (r.1, if bs = bits then "ok" else "FAIL:roundtrip")
    | .error _ => (r.1, "FAIL:roundtrip")

def step (st : St) (line : String) : St × String :=
  match words line with
  | ["reset"] => ([], "ok")
  | ["fill", s, b] =>
    match s.toNat?, getSlot st (s.toNat?.getD 0), bitsArg b with
    | some s, some a, some bs =>
      let r := fillLoop bs 0 a
      (setSlot st s r.1, if r.2 then "ok" else "panic")
    | _, _, _ => (st, "bad-op")
  | ["check", s] =>
    match s.toNat?, getSlot st (s.toNat?.getD 0) with
    | some s, some a => let r := checkOne a; (setSlot st s r.1, r.2)
    | _, _ => (st, "bad-op")
  | ["checkpair", s1, s2] =>
    match s1.toNat?, s2.toNat?, getSlot st (s1.toNat?.getD 99), getSlot st (s2.toNat?.getD 99) with
    | some s1, some s2, some a, some b =>
      if a.size ≠ b.size then (st, "skip")
      else
        let x := absBits a
        let y := absBits b
        let ra := encoding a
        let st1 := setSlot st s1 ra.1
        let b' := (getSlot st1 s2).getD b
        let rb := encoding b'
        let st2 := setSlot st1 s2 rb.1
        let same := x == y
        if (ra.2 == rb.2) != same then (st2, "FAIL:canonical")
        else if isEquivalentTo a b != same then (st2, "FAIL:equivalent")
        else (st2, "ok")
    | _, _, _, _ => (st, "bad-op")
  | ["new", s, n] =>
    match s.toNat?, n.toNat? with
    | some s, some n => let a := new n; (setSlot st s a, s!"ok {a.words.length}")
    | _, _ => (st, "bad-op")
  | ["set", s, i, v] =>
    match s.toNat?, i.toInt?, getSlot st (s.toNat?.getD 0) with
    | some s, some i, some a =>
      match setValueInt a i (v == "1") with
      | some a' => (setSlot st s a', "ok")
      | none => (st, "panic")
    | _, _, _ => (st, "bad-op")
  | ["get", s, i] =>
    match s.toNat?, i.toInt?, getSlot st (s.toNat?.getD 0) with
    | some _, some i, some a =>
      match valueInt a i with
      | some b => (st, boolStr b)
      | none => (st, "panic")
    | _, _, _ => (st, "bad-op")
  | ["enc", s] =>
    match s.toNat?, getSlot st (s.toNat?.getD 0) with
    | some s, some a => let r := encoding a; (setSlot st s r.1, textOut r.2)
    | _, _ => (st, "bad-op")
  | ["dec", s, t] =>
    match s.toNat?, getSlot st (s.toNat?.getD 0), textArg t with
    | some s, some a, some t =>
      let r := decodeC a t
      (setSlot st s r.1, match r.2 with | none => "ok" | some e => errStr e)
    | _, _, _ => (st, "bad-op")
  -- after a FAILED decode the harness hands over what the implementation's archive holds now: what a rejected encoding
  -- leaves behind is not the property's matter
  | ["resync", s, ws, c] =>
    match s.toNat?, getSlot st (s.toNat?.getD 0), textArg c with
    | some s, some a, some cache =>
      let toks := if ws == "-" then [] else (splitOn ',' ws.toList)
      match toks.mapM (fun t => match parseHex t with | .ok v => some (BitVec.ofNat 64 v) | .error _ => none) with
      | some words =>
        if words.length ≠ a.words.length then (st, "bad-op") else
        (setSlot st s { a with words := words, cache := cache }, "ok")
      | none => (st, "bad-op")
    | _, _, _ => (st, "bad-op")
  | ["eqv", s1, s2] =>
    match getSlot st (s1.toNat?.getD 99), getSlot st (s2.toNat?.getD 99) with
    | some a, some b => (st, boolStr (isEquivalentTo a b))
    | _, _ => (st, "bad-op")
  | ["state", s] =>
    match getSlot st (s.toNat?.getD 99) with
    | some a => (st, s!"{a.size} {",".intercalate (a.words.map hex16)} c{textOut a.cache}")
    | none => (st, "bad-op")
  | ["bits", s] =>
    match getSlot st (s.toNat?.getD 99) with
    | some a => (st, bitsOut (absBits a))
    | none => (st, "bad-op")
  | ["spec-enc", b] =>
    match bitsArg b with
    | some bs => (st, textOut (encode bs))
    | none => (st, "bad-op")
  | ["spec-dec", n, t] =>
    match n.toNat?, textArg t with
    | some n, some t => (st, specDec n t)
    | _, _ => (st, "bad-op")
  | _ => (st, "bad-op")

/-! portability -/
open Crem.ActionOrder

def parseAction (tok : String) : Option Action :=
  match tok.splitOn ":" with
  | [pu, ty, id] =>
    match pu.toNat?, id.toNat? with
    | some pu, some id => some { pu := pu, type := ty, payload := id }
    | _, _ => none
  | _ => none

def actionStr (a : Action) : String := s!"{a.pu}:{a.type}:{a.payload}"

def stepPort (line : String) : String :=
  match words line with
  | ["pe", b] =>
    match bitsArg b with
    | some bs => textOut (encode bs)
    | none => "bad-op"
  | ["pd", n, t] =>
    match n.toNat?, textArg t with
    | some n, some t => specDec n t
    | _, _ => "bad-op"
  | ["less", a, b] =>
    match parseAction a, parseAction b with
    | some a, some b => boolStr (less a b)
    | _, _ => "bad-op"
  | "sort" :: toks =>
    match toks.mapM parseAction with
    | some acts =>
      let sorted := sortActions acts
      if keysDistinct acts then " ".intercalate ("d" :: sorted.map actionStr)
      else " ".intercalate ("e" :: sorted.map (fun a => s!"{a.pu}:{a.type}"))
    | none => "bad-op"
  | "order" :: toks =>
    match toks.mapM parseAction with
    | some acts =>
      let sorted := sortActions acts
      s!"HYP keysDistinct {if keysDistinct acts then "true" else "false"} {" ".intercalate (sorted.map actionStr)}"
    | none => "bad-op"
  | _ => "bad-op"

end Driver.BoolArchive
