import Driver.Num
import Crem.Model.Catchment
import Crem.Model.CatchmentSpec
import Crem.Model.Solution
/-
Line-protocol oracle for the catchment model (suites `catchment-walk`, `limited-runs`).

load phase:
  load                                         -> ok
  pu <id> <16 float bit patterns>              -> ok    sed(veg rip gully hill wet) pn(…5) dn(veg rip gully hill wet aux)
  act <pu> <type 0..3> <19 float bit patterns> -> ok    Consts in field order
  max <sed|pn|dn|tn|ic|oc> <bits>              -> ok
  endload                                      -> HYP ApproxConsistent <bool> <state dump>
       the REAL content of the data hypothesis: the extracted attribute records agree with the action constants
       to 1e-12 relative (Go derives some of them by float arithmetic that differs in the last bits from what its
       handlers compute later); the model then runs on the NORMALISED data
  hyp init-consistent                          -> HYP InitConsistentOfNormalisedData <bool> ok
       the theorems' exact hypothesis, decided on the data the model runs on (holds by construction of the
       normalisation whenever the units are well-formed; kept as a guard of that construction)
  hyp keys-distinct                            -> HYP KeysDistinct <bool> ok
  hyp units-ok                                 -> HYP UnitsOK <bool> ok          (hypothesis of the raw-operation theorems)
operations (each answers with a state dump, prefixed as noted):
  propose i        -> <valid 0/1> <quoted undoable value of the bounded variable or -> C <six changes> | dump
  accept | revert | set i b | setall <bits> | init asis|random|unchanged
  randomize d1 d2 … -> found|attempt-limit|out-of-draws dump
  enc <unit ids>   -> the decision variables of the Solution built from the current state (`solutionVariables`,
                      Crem/Model/Solution.lean): <var> <value> <k> <unit>=<value> … D <cell per planning unit of the detail file> | …
                      (C11, output side)
  mact <unit ids>  -> the management-actions file of the Solution: H <type indices of the columns> | <unit>:<0/1 cells> …
A line whose evaluation passes within 1e-9 of a rounding boundary answers BOUNDARY (the check
discards the rest of that walk: it cannot be decided at float precision).
-/
namespace Driver.Catchment
open Crem Crem.Catchment

structure St where
  D : Data := { acts := [], sed0 := [], pn0 := [], dn0 := [] }
  s : State := init { acts := [], sed0 := [], pn0 := [], dn0 := [] }
  loading : Bool := false
  dead : Bool := false      -- after a BOUNDARY: answer BOUNDARY until the next load

def typOfIdx : Nat → Option ActType
  | 0 => some .gully | 1 => some .hillslope | 2 => some .riparian | 3 => some .wetland | _ => none

def mkConsts : List Rat → Option Consts
  | [a0, a1, a2, a3, a4, a5, a6, a7, a8, a9, a10, a11, a12, a13, a14, a15, a16, a17, a18] =>
    some { implCost := a0, oppCost := a1, origVeg := a2, actVeg := a3, origRipSed := a4, actRipSed := a5,
           origFine := a6, actFine := a7, origGullySed := a8, actGullySed := a9, origHillSed := a10,
           actHillSed := a11, origPN := a12, actPN := a13, origDN := a14, actDN := a15,
           sedEff := a16, pnEff := a17, dnEff := a18 }
  | _ => none

def bitsStr (bs : List Bool) : String := String.ofList (bs.map fun b => if b then '1' else '0')

def ctxStr (c : Ctx) (withAux : Bool) : String :=
  " ".intercalate (([c.veg, c.rip, c.gully, c.hill, c.wet] ++ (if withAux then [c.aux] else [])).map approxStr)

def dump (s : State) : String :=
  let pus := s.sed.cells.map (·.1)
  let totals := " ".intercalate
    [gridStr 3 s.sed.total, gridStr 3 s.pn.total, gridStr 3 s.dn.total, gridStr 3 s.tn.total,
     gridStr 2 s.ic.total, gridStr 2 s.oc.total]
  let units := " ".intercalate (pus.map fun p =>
    s!"{p}: {gridStr 3 (unitVal s .sed p)} {gridStr 3 (unitVal s .pn p)} {gridStr 3 (unitVal s .dn p)} {gridStr 3 (unitVal s .tn p)} {gridStr 2 (unitVal s .ic p)} {gridStr 2 (unitVal s .oc p)}")
  let attrs := " ".intercalate (pus.map fun p =>
    let g (v : PVar) := ((getC v.cells p).map (·.ctx)).getD {}
    s!"{p}: {ctxStr (g s.sed) false} {ctxStr (g s.pn) false} {ctxStr (g s.dn) true}")
  s!"F {bitsStr s.flags} T {totals} U {units} A {attrs}"

/-- `RoundFloat(cost, 2)` of an action's cost is a tie at float precision: `cost · 100` is within a few ulps of a
half-integer (x.xx5 as written in the data).  Go decides it by the last bit of the float product. -/
def costTie (a : Action) : Bool :=
  let one (c : Rat) : Bool :=
    let y := c * 100
    let ay := if y < 0 then -y else y
    nearHalf 2 c (max (1/1000000000) (ay / 10000000000000))
  one a.k.implCost || one a.k.oppCost

/-- is evaluating a toggle of action `a` in state `s` within `eps` of a rounding boundary? -/
def boundaryRisk (s : State) (a : Action) : Bool :=
  let one (v : VarKind) (pv : PVar) : Bool :=
    match getC pv.cells a.pu with
    | none => false
    | some cell =>
      let y1 := rawP v (setP v a.typ true a.k cell.ctx)
      let y2 := rawP v (setP v a.typ false a.k cell.ctx)
      let eps (y : Rat) : Rat := max (1/1000000) ((if y < 0 then -y else y) * 1000 / 1000000000000)
      nearHalf 3 y1 (eps y1) || nearHalf 3 y2 (eps y2)
  one .sed s.sed || one .pn s.pn || one .dn s.dn || costTie a

def riskAt (st : St) (i : Nat) : Bool :=
  match st.D.acts[i]? with
  | some a => boundaryRisk st.s a
  | none => false

def varOfName : String → Option VarId
  | "sed" => some .sed | "pn" => some .pn | "dn" => some .dn
  | "tn" => some .tn | "ic" => some .ic | "oc" => some .oc | _ => none

def setMax (D : Data) (v : VarId) (m : Rat) : Data :=
  match v with
  | .sed => { D with maxSed := some m } | .pn => { D with maxPN := some m } | .dn => { D with maxDN := some m }
  | .tn => { D with maxTN := some m } | .ic => { D with maxIC := some m } | .oc => { D with maxOC := some m }

def precOf : VarId → Nat
  | .ic => 2 | .oc => 2 | _ => 3

/-- A configured limit arrives as the float nearest to the decimal the user wrote.  The model's values are exact
grid decimals, Go's are the floats nearest to them, and Go compares float with float: a limit within 2^-50
(relative) of a grid point of the limited variable IS that grid point for every comparison Go can make.
Limits further off the grid are taken as the exact rational the float denotes (the suites keep those at least
0.01 grid unit away from every grid point). -/
def snapLimit (v : VarId) (m : Rat) : Rat :=
  let g := Crem.rnd (precOf v) m
  let scale : Rat := (10 ^ precOf v : Nat)
  let d := (m - g) * scale
  let ad := if d < 0 then -d else d
  let mag := if g < 0 then -g * scale else g * scale
  if ad ≤ (if mag < 1 then 1 else mag) / (2 ^ 50 : Nat) then g else m

/-- the bounded variable's quoted value when the verdict is negative -/
def quoted (D : Data) (s : State) : String :=
  match allVars.find? (fun v => !(withinBounds D v (undoableValue s v))) with
  | some v => gridStr (precOf v) (undoableValue s v)
  | none => "-"

def changesStr (s : State) : String :=
  " ".intercalate (allVars.map fun v => gridStr (precOf v) (change s v))

def shortName : VarId → String
  | .sed => "sed" | .pn => "pn" | .dn => "dn" | .tn => "tn" | .ic => "ic" | .oc => "oc"

/-- the `enc` line: `Solution.DecisionVariables` of the current state; the units in the (arbitrary) order of the data -/
def encStr (D : Data) (s : State) (pus : List PU) : String :=
  " | ".intercalate ((solutionVariables (D.sed0.map (·.1)) s).map fun e =>
    let units := e.perUnit.map fun (p, x) => s!" {p}={gridStr (precOf e.id) x}"
    let cells := (detailCells e pus).map fun x => s!" {gridStr (precOf e.id) x}"
    s!"{shortName e.id} {gridStr (precOf e.id) e.value} {e.perUnit.length}{String.join units} D{String.join cells}")

def typeIdxOf : ActType → Nat
  | .gully => 0 | .hillslope => 1 | .riparian => 2 | .wetland => 3

/-- the `mact` line: the management-actions file of the current state — headings (type indices), then one row per
planning unit of the solution -/
def mactStr (D : Data) (s : State) (pus : List PU) : String :=
  let hs := " ".intercalate ((typesPresent D.acts).map fun t => toString (typeIdxOf t))
  let rows := (actionMatrix D.acts s.flags pus).map fun (p, cells) => s!"{p}:{bitsStr cells}"
  s!"H {hs} | " ++ " ".intercalate rows

def parseBits (w : String) : Option (List Bool) :=
  if w = "-" then some [] else
  if w.toList.all (fun c => c = '0' ∨ c = '1') then some (w.toList.map (· = '1')) else none

def step (st : St) (line : String) : St × String :=
  let ws := words line
  match ws with
  | "dataset" :: _ => (st, "ok")      -- the dataset travels with the ops for replays; the model takes its data from the pu/act lines
  | "cfg" :: _ => (st, "ok")          -- so do non-default model parameters
  | ["load"] => ({ loading := true }, "ok")
  | "pu" :: id :: rest =>
    match id.toInt?, parseFloats rest with
    | some p, some [a0, a1, a2, a3, a4, b0, b1, b2, b3, b4, c0, c1, c2, c3, c4, c5] =>
      let D := st.D
      ({ st with D := { D with
          sed0 := D.sed0 ++ [(p, { veg := a0, rip := a1, gully := a2, hill := a3, wet := a4 })],
          pn0 := D.pn0 ++ [(p, { veg := b0, rip := b1, gully := b2, hill := b3, wet := b4 })],
          dn0 := D.dn0 ++ [(p, { veg := c0, rip := c1, gully := c2, hill := c3, wet := c4, aux := c5 })] } }, "ok")
    | _, _ => (st, "bad-op")
  | "act" :: pu :: t :: rest =>
    match pu.toInt?, t.toNat?.bind typOfIdx, (parseFloats rest).bind mkConsts with
    | some p, some ty, some k =>
      let D := st.D
      ({ st with D := { D with acts := D.acts ++ [{ pu := p, typ := ty, k := k }] } }, "ok")
    | _, _, _ => (st, "bad-op")
  | ["max", v, bits] =>
    match varOfName v, parseFloatBits bits with
    | some vid, some m => ({ st with D := setMax st.D vid (snapLimit vid m) }, "ok")
    | _, _ => (st, "bad-op")
  | ["endload"] =>
    -- the extracted records must be consistent with the action constants up to float error; the model
    -- then runs on the normalised data, which must be exactly consistent (hypothesis of the theorems)
    let D := normalise st.D
    let s := init D
    ({ st with D := D, s := s, loading := false }, s!"HYP ApproxConsistent {approxConsistent st.D} {dump s}")
  | ["hyp", "init-consistent"] => (st, s!"HYP InitConsistentOfNormalisedData {decide (InitConsistent st.D)} ok")
  | ["hyp", "keys-distinct"] => (st, s!"HYP KeysDistinct {decide (KeysDistinct st.D.acts)} ok")
  | ["hyp", "units-ok"] => (st, s!"HYP UnitsOK {unitsOK st.D} ok")
  | _ =>
    if st.dead then (st, "BOUNDARY") else
    match ws with
    | ["propose", i] =>
      match i.toNat? with
      | some i =>
        if riskAt st i then ({ st with dead := true }, "BOUNDARY") else
        let s := propose st.D st.s i
        ({ st with s := s }, s!"{boolStr (changeIsValid st.D s)} {quoted st.D s} C {changesStr s} | {dump s}")
      | none => (st, "bad-op")
    | "mact" :: ids =>
      match ids.mapM String.toInt? with
      | some pus => (st, mactStr st.D st.s pus)
      | none => (st, "bad-op")
    | "enc" :: ids =>
      -- `ids`: the planning units in the order the solution lists them (the model's `PlanningUnits()`)
      match ids.mapM String.toInt? with
      | some pus => (st, encStr st.D st.s pus)
      | none => (st, "bad-op")
    | ["accept"] => let s := accept st.s; ({ st with s := s }, dump s)
    | ["revert"] => let s := revert st.s; ({ st with s := s }, dump s)
    | ["set", i, b] =>
      match i.toNat?, parseBits b with
      | some i, some [b] =>
        if riskAt st i then ({ st with dead := true }, "BOUNDARY") else
        let s := setAction st.D st.s i b; ({ st with s := s }, dump s)
      | _, _ => (st, "bad-op")
    | ["setall", bits] =>
      match parseBits bits with
      | some bs =>
        -- boundary risk is evaluated along the way
        let (s, risk) := (bs.zipIdx).foldl (fun (acc : State × Bool) (b, i) =>
          let r := match st.D.acts[i]? with
            | some a => (acc.1.flags[i]? ≠ some b) && boundaryRisk acc.1 a
            | none => false
          (setAction st.D acc.1 i b, acc.2 || r)) (st.s, false)
        if risk then ({ st with dead := true }, "BOUNDARY") else ({ st with s := s }, dump s)
      | none => (st, "bad-op")
    | ["init", k] =>
      let kind := match k with | "random" => InitKind.random | "unchanged" => .unchanged | _ => .asIs
      -- Initialise(Random) under a pollutant limit activates every action: cost ties cannot be decided
      if kind == .random && !hasCostLimit st.D && hasPollutantLimit st.D && st.D.acts.any costTie then
        ({ st with dead := true }, "BOUNDARY") else
      let s := initialise st.D kind
      ({ st with s := s }, dump s)
    | "randomize" :: ds =>
      match ds.mapM String.toNat? with
      | some draws =>
        if draws.any (fun d => match st.D.acts[d]? with | some a => costTie a | none => false)
            && (hasCostLimit st.D || hasPollutantLimit st.D) then ({ st with dead := true }, "BOUNDARY") else
        if !(hasCostLimit st.D || hasPollutantLimit st.D) &&
            (draws.zipIdx.any fun (d, i) => d == 0 && (match st.D.acts[i]? with | some a => costTie a | none => false)) then
          ({ st with dead := true }, "BOUNDARY") else
        match randomize st.D st.s draws with
        | .found s => ({ st with s := s }, s!"found {dump s}")
        | .attemptLimit s => ({ st with s := s }, s!"attempt-limit {dump s}")
        | .outOfDraws s =>
          -- the limit-seeking loop has nothing left to toggle (every action already at the loop's target) and attempts
          -- remain: the pinned code spins there for ever (`continue` without using an attempt).  Non-termination is outside
          -- every property; an implementation that returns instead is not judged by this model: BOUNDARY
          if s.flags.all (fun f => f == hasCostLimit st.D) then ({ st with dead := true }, "BOUNDARY")
          else ({ st with s := s }, s!"out-of-draws {dump s}")
      | none => (st, "bad-op")
    | _ => (st, "bad-op")

end Driver.Catchment
