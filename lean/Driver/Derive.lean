import Driver.Catchment
import Crem.Model.CatchmentDerive
/-
Oracle for the `catchment-derive` suite: crem's derivation of scenario data from the CSV tables.

  dataset <hex…> | cfg <k=v…>                    -> ok      (carried for self-contained replays)
  tables                                         -> ok      (start of a dataset)
  param <7 float bit patterns>                   -> ok      deliveryRatio vegTarget gullyReduction sedimentDensity
                                                            gullyCompensation yearsOfErosion suspendedProportion
  sub <id> <veg> <bankPartial>                   -> ok      one per Subcatchments row, in row order
  gul <unit> <volume>                            -> ok      one per Gullies row
  arow <unit> x<hex of type text> <13 floats>    -> ok      one per Actions row (columns 2..14)
  pu … / act … / max …                           -> exactly as Driver.Catchment (the data EXTRACTED from the Go model;
                                                    no `load` line: `tables` resets everything)
  endload-raw                                    -> ok      (end of the extracted data; nothing evaluated yet)
  endderive                                      -> HYP WellFormedTables <wf> wf=<wf> <match | DIFF …>
  endderive-malformed                            -> wf=<wf> <match | DIFF …>       (tables generated to be ill-formed)
  endload                                        -> as Driver.Catchment: HYP InitConsistent <b> <dump of init on the extracted data>
                                                    (well-formed tables only; BOUNDARY when an initial value is within 1e-9 of a rounding boundary)
  derived-init                                   -> state dump of `init (derive T)`  (or BOUNDARY)
  endderive-failed                               -> load-fails | loads            (the Go loader panicked)

`match`: `derive T` has the same action list (unit, type) in the same order as the extracted data,
every action constant and every initial attribute within relative 1e-12 (`closeRat`), the same
units; additionally the proved lemma is cross-checked on the compiled code (`wf → InitConsistent`).
-/
namespace Driver.Derive
open Crem Crem.Catchment

structure St where
  c : Driver.Catchment.St := {}
  T : Tables := { subs := [], gullies := [], actions := [] }
  raw : Data := { acts := [], sed0 := [], pn0 := [], dn0 := [] }   -- extracted data before normalisation

def hexByte (a b : Char) : Option Nat :=
  match hexDigit a, hexDigit b with
  | some x, some y => some (x * 16 + y)
  | _, _ => none

/-- decode `x<hex>`: each byte becomes the character of that code (faithful for the ASCII type texts
crem compares with, injective otherwise) -/
def decodeText (w : String) : Option String :=
  match w.toList with
  | 'x' :: rest =>
    let rec go : List Char → List Char → Option (List Char)
      | [], acc => some acc.reverse
      | a :: b :: r, acc => match hexByte a b with
        | some n => go r (Char.ofNat n :: acc)
        | none => none
      | _, _ => none
    (go rest []).map String.ofList
  | _ => none

def typStr : ActType → String
  | .gully => "G" | .hillslope => "H" | .riparian => "R" | .wetland => "W"

def keysStr (acts : List Action) : String :=
  "[" ++ ",".intercalate (acts.map fun a => s!"{a.pu}{typStr a.typ}") ++ "]"

def constFields (k : Consts) : List (String × Rat) :=
  [("implCost", k.implCost), ("oppCost", k.oppCost), ("origVeg", k.origVeg), ("actVeg", k.actVeg),
   ("origRipSed", k.origRipSed), ("actRipSed", k.actRipSed), ("origFine", k.origFine), ("actFine", k.actFine),
   ("origGullySed", k.origGullySed), ("actGullySed", k.actGullySed), ("origHillSed", k.origHillSed),
   ("actHillSed", k.actHillSed), ("origPN", k.origPN), ("actPN", k.actPN), ("origDN", k.origDN),
   ("actDN", k.actDN), ("sedEff", k.sedEff), ("pnEff", k.pnEff), ("dnEff", k.dnEff)]

def ctxFields (c : Ctx) : List (String × Rat) :=
  [("veg", c.veg), ("rip", c.rip), ("gully", c.gully), ("hill", c.hill), ("wet", c.wet), ("aux", c.aux)]

def ratStr (x : Rat) : String := s!"{x.num}/{x.den}"

def firstDiff (tag : String) (m g : List (String × Rat)) : Option String :=
  match (m.zip g).find? (fun (a, b) => !closeRat a.2 b.2) with
  | some (a, b) => some s!"{tag}.{a.1} model={ratStr a.2} go={ratStr b.2}"
  | none => none

def diffCtxs (v : String) (m g : List (PU × Ctx)) : Option String :=
  if m.map (·.1) ≠ g.map (·.1) then some s!"{v}-units model={m.map (·.1)} go={g.map (·.1)}"
  else (m.zip g).findSome? fun (a, b) => firstDiff s!"{v}[{a.1}]" (ctxFields a.2) (ctxFields b.2)

/-- first difference between the derived data `M` and the extracted data `G` -/
def diffData (M G : Data) : Option String :=
  if M.acts.map (fun a => (a.pu, a.typ)) ≠ G.acts.map (fun a => (a.pu, a.typ)) then
    some s!"acts model={keysStr M.acts} go={keysStr G.acts}"
  else
    match (M.acts.zip G.acts).findSome? fun (a, b) =>
        firstDiff s!"act[{a.pu}{typStr a.typ}]" (constFields a.k) (constFields b.k) with
    | some d => some d
    | none =>
      match diffCtxs "sed" M.sed0 G.sed0 with
      | some d => some d
      | none =>
        match diffCtxs "pn" M.pn0 G.pn0 with
        | some d => some d
        | none => diffCtxs "dn" M.dn0 G.dn0

def verdict (st : St) : String :=
  let M := derive st.T
  let wf := wellFormedTables st.T
  let ic := initConsistent M
  let kd := keysDistinct M.acts
  if (wf && !ic) || !kd then s!"LEMMA-FAILS wf={wf} ic={ic} kd={kd}"
  else match diffData M st.raw with
    | none => "match"
    | some d => "DIFF " ++ d.replace " " "_"

/-- is some initial value of the derived model within 1e-6·10^-3 of a rounding boundary? -/
def initBoundary (M : Data) : Bool :=
  let one (v : VarKind) (c0 : List (PU × Ctx)) : Bool :=
    c0.any fun (_, x) =>
      let y := rawP v x
      nearHalf 3 y (max (1/1000000) ((if y < 0 then -y else y) * 1000 / 1000000000000))
  one .sed M.sed0 || one .pn M.pn0 || one .dn M.dn0

def step (st : St) (line : String) : St × String :=
  let ws := words line
  match ws with
  | "dataset" :: _ => (st, "ok")
  | "cfg" :: _ => (st, "ok")
  | ["tables"] => ({}, "ok")
  | "param" :: rest =>
    match parseFloats rest with
    | some [a, b, c, d, e, f, g] =>
      let P : Params := { deliveryRatio := a, vegTarget := b, gullyReduction := c, sedimentDensity := d,
                          gullyCompensation := e, yearsOfErosion := f, suspendedProportion := g }
      let T := st.T
      ({ st with T := { T with P := P } }, "ok")
    | _ => (st, "bad-op")
  | ["sub", id, veg, bp] =>
    match id.toInt?, parseFloatBits veg, parseFloatBits bp with
    | some p, some v, some b =>
      let T := st.T
      ({ st with T := { T with subs := T.subs ++ [{ id := p, veg := v, bankPartial := b }] } }, "ok")
    | _, _, _ => (st, "bad-op")
  | ["gul", u, vol] =>
    match u.toInt?, parseFloatBits vol with
    | some p, some v =>
      let T := st.T
      ({ st with T := { T with gullies := T.gullies ++ [{ unit := p, volume := v }] } }, "ok")
    | _, _ => (st, "bad-op")
  | "arow" :: u :: ty :: rest =>
    match u.toInt?, decodeText ty, parseFloats rest with
    | some p, some t, some [a2, a3, a4, a5, a6, a7, a8, a9, a10, a11, a12, a13, a14] =>
      let r : ActionRow :=
        { unit := p, typ := t, oppCost := a2, implCost := a3, pnOrig := a4, pnAct := a5,
          hillOrig := a6, hillAct := a7, fineOrig := a8, fineAct := a9, dnOrig := a10, dnAct := a11,
          dnEff := a12, pnEff := a13, sedEff := a14 }
      let T := st.T
      ({ st with T := { T with actions := T.actions ++ [r] } }, "ok")
    | _, _, _ => (st, "bad-op")
  | ["endload"] =>
    let raw := st.c.D
    if initBoundary (normalise raw) then ({ st with raw := raw }, "BOUNDARY") else
    let (c, out) := Driver.Catchment.step st.c line
    ({ st with c := c, raw := raw }, out)
  | ["endload-raw"] => ({ st with raw := st.c.D }, "ok")
  | ["endderive"] =>
    let wf := wellFormedTables st.T
    (st, s!"HYP WellFormedTables {wf} wf={boolStr wf} {verdict st}")
  | ["endderive-malformed"] =>
    (st, s!"wf={boolStr (wellFormedTables st.T)} {verdict st}")
  | ["derived-init"] =>
    let M := deriveWithLimits st.T st.raw
    if initBoundary M then (st, "BOUNDARY") else (st, Driver.Catchment.dump (init M))
  | ["endderive-failed"] =>
    (st, if loadPanics st.T then "load-fails" else "loads")
  | _ =>
    let (c, out) := Driver.Catchment.step st.c line
    ({ st with c := c }, out)

end Driver.Derive
