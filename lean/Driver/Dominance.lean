import Driver.Common
import Crem.Model.Dominance
namespace Driver.Dominance
open Crem.Dominance

/-- `dom d x1 .. xd y1 .. yd` -> `dominates isDominatedBy dominancePresent noDominancePresent comparable`
`cmp dx dy x1 .. xdx y1 .. ydy` -> `comparable` (vectors of unequal length: only `IsComparable` is defined there).
Components are the integer keys of the harness's monotone float map; the harness writes negative zero as the
token `-0` (so that a replay keeps the sign) and `String.toInt?` reads it as `0`: the identification of the two
zeros happens here, on the Lean side. -/
def step (line : String) : String :=
  match words line with
  | "cmp" :: dx :: dy :: rest =>
    match dx.toNat?, dy.toNat?, parseInts rest with
    | some n, some m, some vs =>
      if vs.length = n + m then boolStr (isComparable (vs.take n) (vs.drop n)) else "bad-op"
    | _, _, _ => "bad-op"
  | "dom" :: d :: rest =>
    match d.toNat?, parseInts rest with
    | some n, some vs =>
      if vs.length = 2 * n then
        let x := vs.take n
        let y := vs.drop n
        s!"{boolStr (dominates x y)} {boolStr (isDominatedBy x y)} {boolStr (dominancePresent x y)} {boolStr (noDominancePresent x y)} {boolStr (isComparable x y)}"
      else "bad-op"
    | _, _ => "bad-op"
  | _ => "bad-op"

end Driver.Dominance
