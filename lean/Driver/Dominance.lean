import Driver.Common
import Crem.Model.Dominance
namespace Driver.Dominance
open Crem.Dominance

/-- `dom d x1 .. xd y1 .. yd` -> `dominates isDominatedBy dominancePresent noDominancePresent comparable` -/
def step (line : String) : String :=
  match words line with
  | "dom" :: d :: rest =>
    match d.toNat?, parseInts rest with
    | some n, some vs =>
      if vs.length = 2 * n then
        let x := vs.take n
        let y := vs.drop n
        s!"{boolStr (dominates x y)} {boolStr (isDominatedBy x y)} {boolStr (dominancePresent x y)} {boolStr (noDominancePresent x y)} {boolStr (isComparable x y)}"
      else "bad-op"
    | _, _ => "bad-op"
  | _ => "bad-op"

end Driver.Dominance
