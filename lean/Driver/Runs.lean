import Driver.Common
import Driver.Kirkpatrick
import Crem.Model.Runs
/-!
Oracle for suite `multi-run` (C08).  The runner model of `Crem/Model/Runs.lean` is executed with the
concrete annealing worker (`annealCfg`) under a deterministic scheduler (`drive`); by
`noninterference` / `fresh_start` / `failure_isolated` the per-run observations do not depend on
the schedule, so any one schedule gives THE expectation for every interleaving the Go runtime
produced.

  reset <text>                 (harness bookkeeping)                                  -> ok
  probe <text>                 (a direct check evaluated on the Go side only)          -> done
  walk <family> <tmplCell> <clone1Cell> <clone2Cell> <n> <path>|<class>|<allowed 0/1> …
      what the reflection walk over two DeepClone()s of the configured annealer found: the
      identities of the temperature cells reached by the template and by the two clones, and the
      `n` top-most nodes reachable from BOTH clones, each with the harness's allow-list verdict
      -> HYP ClonePrivate <true|false> cells-private=<0|1> shared-allowed=<0|1>
         (`ClonePrivate` of the model, decided on the extracted addresses, and every shared node allow-listed)
  scenario <family> <name> <runs> <conc> <T0 bits> <a bits> <maxIter>
      -> returned=1 failed=[] then per run `[<id> T=<T0> iter=1 arch=<0|-> fin=1 Tend=<T0·a^maxIter>]`
         (what the property demands of every run: fresh start, one finish event, own result)
  seqshared <family> <name> <runs> <T0 bits> <a bits> <maxIter>
      the model with a SHARED coolant cell (the code as it was before the D4 repair), sequential runs
      -> the starting temperature of every run, `T0·a^((k-1)·maxIter)`
  fault <family> <name> <runs> <conc> <designated> <at> <maxIter>
      one designated run (1-based run number) panics in iteration `at`; isolate = true
      -> returned=1 failed=[<id>] finished=[<ids of all other runs>]
-/
namespace Driver.Runs
open Crem.Runs
open Driver.Kirkpatrick (parseBits bitsStr)

/-- `Runner.generateCloneId`, blanks written as `_` -/
def cloneId (name : String) (i runs : Nat) : String :=
  if runs > 1 then s!"{name}_({i}/{runs})" else name

/-- `k` sequential multiplications, as the Go coolants do -/
def cool (T a : Float) : Nat → Float
  | 0 => T
  | k + 1 => cool (T * a) a k

def inputs (budget : Nat) (failRun : Option Nat) (failAt : Nat) : Inputs :=
  { budget := budget, archiveAfter := fun _ k => k, failRun := failRun, failAt := failAt }

def fuelFor (runs budget : Nat) : Nat := runs * (budget + 6) + 4

def finalState (cfg : Config Inputs RunPriv Coolant) (budget : Nat) : State RunPriv Coolant :=
  (drive cfg (fuelFor cfg.runs budget) (init cfg (fun _ => ⟨0⟩)) []).1

def idList (name : String) (runs : Nat) (p : Nat → Bool) : String :=
  "[" ++ ",".intercalate (((List.range runs).filter p).map (fun i => cloneId name (i + 1) runs)) ++ "]"

def scenarioLine (family name : String) (runs conc : Nat) (T0 a : Float) (budget : Nat) : String :=
  let cfg := annealCfg (inputs budget none 0) runs conc true true
  let s := finalState cfg budget
  let hdr := s!"returned={boolStr s.returned} failed={idList name runs (fun i => s.err i)}"
  let perRun := (List.range runs).map (fun i =>
    match s.obs i with
    | none => s!"[{cloneId name (i + 1) runs} not-started]"
    | some (p, c) =>
      let arch := if family.startsWith "Kirkpatrick" then "-" else toString p.archive
      let fin := boolStr (s.phase i == .finished && !s.err i)
      let tend := bitsStr (cool T0 a (s.cells (cfg.addr i)).coolings)
      -- `iter` = the number carried by the run's first StartedIteration event; with a zero budget there is none
      let it := if budget = 0 then "-" else toString p.iteration
      s!"[{cloneId name (i + 1) runs} T={bitsStr (cool T0 a c.coolings)} iter={it} arch={arch} fin={fin} Tend={tend}]")
  " ".intercalate (hdr :: perRun)

def seqSharedLine (runs : Nat) (T0 a : Float) (budget : Nat) : String :=
  let cfg := annealCfg (inputs budget none 0) runs 1 true false
  let s := finalState cfg budget
  " ".intercalate ((List.range runs).map (fun i =>
    match s.obs i with
    | none => "not-started"
    | some (_, c) => bitsStr (cool T0 a c.coolings)))

def faultLine (name : String) (runs conc designated failAt budget : Nat) : String :=
  let cfg := annealCfg (inputs budget (some (designated - 1)) failAt) runs conc true true
  let s := finalState cfg budget
  s!"returned={boolStr s.returned} failed={idList name runs (fun i => s.err i)} finished={idList name runs (fun i => (result cfg s i).isSome)}"

/-- `ClonePrivate` decided on the addresses the walk extracted (template, clone 1, clone 2) -/
def cellsPrivate (tmpl c1 c2 : Nat) : Bool :=
  let cfg : Config Inputs RunPriv Coolant :=
    { annealCfg (inputs 0 none 0) 2 1 true true with tmpl := tmpl, addr := fun i => if i = 0 then c1 else c2 }
  decide (ClonePrivate cfg)

def allAllowed : List String → Bool
  | [] => true
  | w :: ws =>
    match (w.splitOn "|").getLast? with
    | some "1" => allAllowed ws
    | _ => false

def step (_ : Unit) (line : String) : Unit × String :=
  match words line with
  | "reset" :: _ => ((), "ok")
  | "probe" :: _ => ((), "done")
  | "walk" :: _family :: t :: c1 :: c2 :: n :: nodes =>
    match t.toNat?, c1.toNat?, c2.toNat?, n.toNat? with
    | some t, some c1, some c2, some n =>
      if nodes.length ≠ n then ((), "ERR node count") else
      let cp := cellsPrivate t c1 c2
      let ok := allAllowed nodes
      ((), s!"HYP ClonePrivate {if cp && ok then "true" else "false"} cells-private={boolStr cp} shared-allowed={boolStr ok}")
    | _, _, _, _ => ((), "ERR parse")
  | ["scenario", family, name, runs, conc, T0, a, budget] =>
    match runs.toNat?, conc.toNat?, parseBits T0, parseBits a, budget.toNat? with
    | some runs, some conc, some T0, some a, some budget => ((), scenarioLine family name runs conc T0 a budget)
    | _, _, _, _, _ => ((), "ERR parse")
  | ["seqshared", _family, _name, runs, T0, a, budget] =>
    match runs.toNat?, parseBits T0, parseBits a, budget.toNat? with
    | some runs, some T0, some a, some budget => ((), seqSharedLine runs T0 a budget)
    | _, _, _, _ => ((), "ERR parse")
  | ["fault", _family, name, runs, conc, d, fat, budget] =>
    match runs.toNat?, conc.toNat?, d.toNat?, fat.toNat?, budget.toNat? with
    | some runs, some conc, some d, some fat, some budget => ((), faultLine name runs conc d fat budget)
    | _, _, _, _, _ => ((), "ERR parse")
  | _ => ((), "ERR unknown line")

end Driver.Runs
