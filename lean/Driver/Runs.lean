import Driver.Common
import Driver.Kirkpatrick
import Crem.Model.Runs
/-!
Oracle for suite `multi-run` (C08).  The runner model of `Crem/Model/Runs.lean` is executed with the
concrete annealing program (`annealCfg` over the private layout) under a deterministic scheduler
(`drive`); by `noninterference` / `fresh_start_anneal` / `failure_isolated` the per-run observations
do not depend on the schedule, so any one schedule gives THE expectation for every interleaving the
Go runtime produced.

  reset <text>                 (harness bookkeeping)                                  -> ok
  probe <text>                 (a direct check evaluated on the Go side only)          -> done
  walk <family> n=<number of shared nodes> R1=<ids> W1=<ids> R2=<ids> W2=<ids> L=<ids>
      what the harness extracted from two DeepClone()s of the configured annealer that it prepared,
      annealed and hashed: the nodes reachable from BOTH clones (or from a clone and the template) are
      numbered 1..n; `Rk` = those clone k reaches, `Wk` = those whose content changed while clone k
      annealed, `L` = those of a class whose every access is lock-guarded (ids comma separated, `-`
      = none).  The driver evaluates the model's `Disjoint` on exactly these sets.  It does NOT
      establish `Respects` (that the sets are what the code really reads and writes): that is what
      the walk and the hashes sample.
      -> HYP Disjoint <true|false> w1∩(r2∪w2)=<ids not locked> w2∩(r1∪w1)=<…> locked-read=<0|1>
  walkx …  the same for a configuration KNOWN not to satisfy the hypothesis (CheckingLoopInvariant, finding
      D28): the verdict is stated by both sides instead of being required   -> Disjoint=<0|1> w1∩… (as above)
  scenario <family> <name> <runs> <conc> <T0 bits> <a bits> <maxIter>
      -> returned=1 failed=[] then per run `[<id> T=<T0> iter=1 arch=<0|-> fin=1 Tend=<T0·a^maxIter>]`
         (what the property demands of every run: fresh start, one finish event, own result)
  seqshared <family> <name> <runs> <T0 bits> <a bits> <maxIter>
      the model with a SHARED coolant cell (the code as it was before the D4 repair), sequential runs
      -> the starting temperature of every run, `T0·a^((k-1)·maxIter)`
  fault <family> <name> <runs> <conc> <designated> <site> <at> <maxIter>
      one designated run (1-based run number) panics at `site` ∈ clone | step | finish (for `step`:
      in iteration `at`); isolate = true
      -> returned=1 failed=[<id>] started=<number of runs that reported StartedAnnealing>
         finished=[<ids that reported FinishedAnnealing>] saved=[<ids whose result was written>]
-/
namespace Driver.Runs
open Crem.Runs
open Driver.Kirkpatrick (parseBits bitsStr)

/-- `Runner.generateCloneId`, blanks written as `_` -/
def cloneId (name : String) (i runs : Nat) : String :=
  if runs > 1 then s!"{name}_({i}/{runs})" else name

/-- `k` sequential multiplications, as the Go coolants do -/
def cool (T a : Float) : Nat → Float
  | 0 => T
  | k + 1 => cool (T * a) a k

def inputs (budget : Nat) (failRun : Option Nat) (site : Site) (failAt : Nat) : Inputs :=
  { budget := budget, modelInit := fun i m _ => m + i + 1, archiveAfter := fun _ k _ _ => k,
    modelAfter := fun _ _ m _ => m, encode := fun i m a d => i + m + a + d,
    failRun := failRun, failSite := site, failAt := failAt, invObserver := false }

/-- the heap `Run()` is entered with: pristine template, loadable data -/
def heap0 : Heap Nat := { cell := fun a => if a = 4 then 1 else 0 }

def fuelFor (runs budget : Nat) : Nat := runs * (budget + 8) + 4

def finalState (cfg : Config Nat) (budget : Nat) : State Nat :=
  (drive cfg (fuelFor cfg.runs budget) (init cfg heap0) []).1

def idList (name : String) (runs : Nat) (p : Nat → Bool) : String :=
  "[" ++ ",".intercalate (((List.range runs).filter p).map (fun i => cloneId name (i + 1) runs)) ++ "]"

def scenarioLine (family name : String) (runs conc : Nat) (T0 a : Float) (budget : Nat) : String :=
  let cfg := annealCfg (inputs budget none .step 0) runs conc true privLayout
  let s := finalState cfg budget
  let hdr := s!"returned={boolStr s.returned} failed={idList name runs (fun i => s.err i)}"
  let perRun := (List.range runs).map (fun i =>
    match s.obs i with
    | none => s!"[{cloneId name (i + 1) runs} not-started]"
    | some o =>
      let arch := if family.startsWith "Kirkpatrick" then "-" else toString (o (privLayout.arch i))
      let fin := boolStr (s.phase i == .finished && !s.err i)
      let tend := bitsStr (cool T0 a (s.heap (privLayout.cool i)))
      -- `iter` = the number carried by the run's first StartedIteration event (counter at start + 1); with a
      -- zero budget there is none
      let it := if budget = 0 then "-" else toString (o (privLayout.iter i) + 1)
      s!"[{cloneId name (i + 1) runs} T={bitsStr (cool T0 a (o (privLayout.cool i)))} iter={it} arch={arch} fin={fin} Tend={tend}]")
  " ".intercalate (hdr :: perRun)

/-- the layout of the code before the D4 repair: every clone uses the template's coolant -/
def coolShared : Layout := { privLayout with cool := fun _ => 0 }

def seqSharedLine (runs : Nat) (T0 a : Float) (budget : Nat) : String :=
  let cfg := annealCfg (inputs budget none .step 0) runs 1 true coolShared
  let s := finalState cfg budget
  " ".intercalate ((List.range runs).map (fun i =>
    match s.obs i with
    | none => "not-started"
    | some o => bitsStr (cool T0 a (o (coolShared.cool i)))))

def parseSite : String → Option Site
  | "clone" => some .clone
  | "step" => some .step
  | "finish" => some .finish
  | _ => none

def faultLine (name : String) (runs conc designated : Nat) (site : Site) (failAt budget : Nat) : String :=
  let cfg := annealCfg (inputs budget (some (designated - 1)) site failAt) runs conc true privLayout
  let s := finalState cfg budget
  let started := ((List.range runs).filter (fun i => (s.obs i).isSome)).length
  -- FinishedAnnealing is reported (to the first observer) by every run that completed its iterations
  let finished := idList name runs (fun i => (s.obs i).isSome && decide (budget ≤ s.heap (privLayout.iter i)) &&
    (!s.err i || (site == .finish && designated == i + 1)))
  let saved := idList name runs (fun i => (result s i).isSome)
  s!"returned={boolStr s.returned} failed={idList name runs (fun i => s.err i)} started={started} finished={finished} saved={saved}"

/-! ### `Disjoint` on the sets the walk extracted -/

def parseIds (s : String) : Option (List Nat) :=
  if s = "-" then some [] else (s.splitOn ",").mapM (·.toNat?)

def idsStr (l : List Nat) : String :=
  if l.isEmpty then "-" else ",".intercalate (l.map toString)

def field (key : String) (w : String) : Option String :=
  if w.startsWith (key ++ "=") then some (w.drop (key.length + 1)).toString else none

def walkLine (hyp : Bool) (r1 w1 r2 w2 l : List Nat) : String :=
  let ft : Footprint := { R := fun i => if i = 0 then r1 else r2, W := fun i => if i = 0 then w1 else w2, locked := l }
  let d := decide (Disjoint 2 ft)
  let bad12 := w1.filter (fun a => (r2.contains a || w2.contains a) && !l.contains a)
  let bad21 := w2.filter (fun a => (r1.contains a || w1.contains a) && !l.contains a)
  let lr := l.any (fun a => r1.contains a || r2.contains a)
  let rest := s!"w1∩(r2∪w2)={idsStr bad12} w2∩(r1∪w1)={idsStr bad21} locked-read={boolStr lr}"
  if hyp then s!"HYP Disjoint {if d then "true" else "false"} {rest}" else s!"Disjoint={boolStr d} {rest}"

def walkCmd (hyp : Bool) (r1 w1 r2 w2 l : String) : String :=
  match (field "R1" r1).bind parseIds, (field "W1" w1).bind parseIds, (field "R2" r2).bind parseIds,
        (field "W2" w2).bind parseIds, (field "L" l).bind parseIds with
  | some r1, some w1, some r2, some w2, some l => walkLine hyp r1 w1 r2 w2 l
  | _, _, _, _, _ => "ERR parse"

def step (_ : Unit) (line : String) : Unit × String :=
  match words line with
  | "reset" :: _ => ((), "ok")
  | "probe" :: _ => ((), "done")
  | ["walk", _family, _n, r1, w1, r2, w2, l] => ((), walkCmd true r1 w1 r2 w2 l)
  | ["walkx", _family, _n, r1, w1, r2, w2, l] => ((), walkCmd false r1 w1 r2 w2 l)
  | ["scenario", family, name, runs, conc, T0, a, budget] =>
    match runs.toNat?, conc.toNat?, parseBits T0, parseBits a, budget.toNat? with
    | some runs, some conc, some T0, some a, some budget => ((), scenarioLine family name runs conc T0 a budget)
    | _, _, _, _, _ => ((), "ERR parse")
  | ["seqshared", _family, _name, runs, T0, a, budget] =>
    match runs.toNat?, parseBits T0, parseBits a, budget.toNat? with
    | some runs, some T0, some a, some budget => ((), seqSharedLine runs T0 a budget)
    | _, _, _, _ => ((), "ERR parse")
  | ["fault", _family, name, runs, conc, d, site, fat, budget] =>
    match runs.toNat?, conc.toNat?, d.toNat?, parseSite site, fat.toNat?, budget.toNat? with
    | some runs, some conc, some d, some site, some fat, some budget => ((), faultLine name runs conc d site fat budget)
    | _, _, _, _, _, _ => ((), "ERR parse")
  | _ => ((), "ERR unknown line")

end Driver.Runs
