import Driver.Common
import Crem.Model.Archive
namespace Driver.Archive
open Crem.Archive Crem.Dominance

def resStr : Res → String
  | .storedReplacing => "SR"
  | .storedNoDom => "SN"
  | .rejDominated => "RD"
  | .rejDuplicate => "RU"
  | .forced => "F"

/-- a candidate that a member dominates AND that shares its action set with a member may be refused for either reason (the
property allows both; which one is named depends on the order in which the implementation looks): printed as `R*` -/
def attStr (a : List Entry) (c : Entry) (r : Res) : String :=
  match r with
  | .rejDominated | .rejDuplicate =>
    if a.any (fun m => dominates m.vec c.vec) && a.any (fun m => m.act == c.act) then "R*" else resStr r
  | _ => resStr r

/-- order-sensitive 64-bit hash of the archive contents (the harness computes the same) -/
def hashArchive (a : List Entry) : UInt64 :=
  a.foldl (fun h e =>
    let h := e.vec.foldl (fun h v => h * 1000003 + (UInt64.ofInt v)) (h * 31 + 7)
    e.act.foldl (fun h b => h * 131 + (if b then 2 else 1)) (h * 17 + 3)) 1469598103934665603

def entryStr (e : Entry) : String :=
  ",".intercalate (e.vec.map toString) ++ "|" ++ String.ofList (e.act.map fun b => if b then '1' else '0')

def archStr (a : List Entry) : String :=
  let full := if a.length ≤ 6 then " " ++ ";".intercalate (a.map entryStr) else ""
  s!"{a.length} {hashArchive a}{full}"

def parseEntry (ws : List String) : Option Entry :=
  match ws with
  | d :: rest =>
    match d.toNat? with
    | none => none
    | some dn =>
      match parseInts (rest.take dn), rest.drop dn with
      | some vec, [bits] =>
        if vec.length = dn ∧ bits.toList.all (fun c => c = '0' ∨ c = '1')
        then some ⟨vec, (if bits = "-" then [] else bits.toList).map (· = '1')⟩ else none
      | some vec, [] => if vec.length = dn then some ⟨vec, []⟩ else none
      | _, _ => none
  | _ => none

def step (a : List Entry) (line : String) : List Entry × String :=
  match words line with
  | ["reset"] => ([], "ok")
  | "att" :: rest =>
    match parseEntry rest with
    | some c => let (r, a') := Real.attempt a c; (a', s!"{attStr a c r} {archStr a'}")
    | none => (a, "bad-op")
  | "frc" :: rest =>
    match parseEntry rest with
    | some c => let (r, a') := Real.force a c; (a', s!"{resStr r} {archStr a'}")
    | none => (a, "bad-op")
  | "perm" :: rest =>
    match rest.mapM String.toNat? with
    | some idx =>
      -- must be a permutation of the current indices
      if idx.length = a.length ∧ (List.range a.length).all (fun i => idx.contains i) then
        let a' := idx.filterMap (fun i => a[i]?)
        (a', s!"P {archStr a'}")
      else (a, "bad-perm")
    | none => (a, "bad-op")
  | ["ind"] =>
    -- a self-check no property mentions: where the loop bounds as written (never the last member) and the full pairwise
    -- check differ, either answer is accepted (`*`)
    let full := (List.range a.length).all fun i => (List.range a.length).all fun j =>
      if i < j then (match a[i]?, a[j]? with
        | some x, some y => !(dominates x.vec y.vec || dominates y.vec x.vec)
        | _, _ => true) else true
    let written := isNonDominantAsWritten dominates a
    (a, if full == written then boolStr written else "*")
  | _ => (a, "bad-op")

end Driver.Archive
