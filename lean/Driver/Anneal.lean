import Driver.Common
import Driver.Kirkpatrick
import Crem.Model.Anneal
/-!
Oracle for suite `anneal-trace` (C07): the model of `SimpleAnnealer.Anneal()` run with `Float`
temperatures (the same sequential multiplications as the Go coolants).

  reset <case description>     (harness bookkeeping, makes a replay file self-contained) -> ok
  run <N> <cur0> <T0 bits|-> <a bits|-> <none|init|try:j|cool:j> <observers> <merged 0|1>
      -> <outcome> <currentIteration> <temperature> <trace>
         trace = explorer calls merged with the events the first observer received (merged = 1:
         the harness has a passive recorder in first position) or explorer calls only
  probe <name>                 (a direct check the harness runs on the Go side only) -> done
  view <i> <full|kinds>
      -> what observer i of the last run received (`kinds`: iteration numbers elided)
-/
namespace Driver.Anneal
open Crem.Anneal
open Driver.Kirkpatrick (parseBits bitsStr)

structure State where
  events : List (Event Float)
  observers : Nat
  hasTemp : Bool

def parseSite (s : String) : Option (Option PanicSite) :=
  match s.splitOn ":" with
  | ["none"] => some none
  | ["init"] => some (some .initialise)
  | ["try", j] => j.toNat?.map (fun j => some (.tryRandomChange j))
  | ["cool", j] => j.toNat?.map (fun j => some (.coolDown j))
  | _ => none

def tStr (hasTemp : Bool) (T : Float) : String := if hasTemp then bitsStr T else "-"

def eventStr (hasTemp withIter : Bool) : Event Float → String
  | .explorerInitialise => "I"
  | .startedAnnealing T => s!"S:{tStr hasTemp T}"
  | .startedIteration k T => s!"s{if withIter then toString k else ""}:{tStr hasTemp T}"
  | .tryRandomChange => "t"
  | .coolDown => "c"
  | .finishedIteration k T => s!"f{if withIter then toString k else ""}:{tStr hasTemp T}"
  | .finishedAnnealing k T => s!"F{if withIter then toString k else ""}:{tStr hasTemp T}"
  | .explorerTearDown => "D"

def outcomeStr : Outcome → String
  | .returned => "returned"
  | .repanicked => "panic"
  | .outOfFuel => "out-of-fuel"

def traceStr (hasTemp withIter : Bool) (evs : List (Event Float)) : String :=
  if evs.isEmpty then "-" else ",".intercalate (evs.map (eventStr hasTemp withIter))

def step (st : Option State) (line : String) : Option State × String :=
  match words line with
  | "reset" :: _ => (st, "ok")
  | "probe" :: _ => (st, "done")   -- direct check on the Go side only
  | ["run", N, cur0, T0, a, site, nobs, merged] =>
    match N.toNat?, cur0.toNat?, parseSite site, nobs.toNat? with
    | some N, some cur0, some site, some nobs =>
      let hasTemp := T0 ≠ "-"
      match (if hasTemp then parseBits T0 else some 0.0), (if hasTemp then parseBits a else some 0.0) with
      | some T0, some a =>
        let r := anneal N cur0 T0 a site
        (some { events := r.events, observers := nobs, hasTemp := hasTemp },
          s!"{outcomeStr r.outcome} {r.currentIteration} {tStr hasTemp r.temperature} {traceStr hasTemp true (if merged == "1" then r.events else r.events.filter (fun e => !e.observable))}")
      | _, _ => (st, "bad-op")
    | _, _, _, _ => (st, "bad-op")
  | ["view", i, mode] =>
    match st, i.toNat? with
    | some s, some i =>
      (st, traceStr s.hasTemp (mode == "full") (receivedBy i (deliveries s.observers s.events)))
    | _, _ => (st, "bad-op")
  | _ => (st, "bad-op")

end Driver.Anneal
