import Driver.Common
import Driver.Kirkpatrick
import Crem.Model.Anneal
/-!
Oracle for suite `anneal-trace` (C07): the model of `SimpleAnnealer.Anneal()` run with `Float`
temperatures (the same sequential multiplications as the Go coolants).

  reset <case description>     (harness bookkeeping, makes a replay file self-contained) -> ok
  run <N> <cur0> <T0 bits|-> <a bits|-> <site> <observers> <merged 0|1>
      site = none | init | try:k | cool:k (before the multiplication) | coolafter:k | fattr | teardown |
             obsS:j | obss:k:j | obsf:k:j | obsF:j   (observer j panics at that notify point; with fewer
             than j+1 observers the site is void: `effectiveSite`)
      -> <outcome> <currentIteration> <temperature> <trace>
         trace = explorer calls (and `!j`, observer j's panic) merged with the events the first observer
         received (merged = 1: the harness has a passive recorder in first position) or without them
  probe <name>                 (a direct check the harness runs on the Go side only) -> done
  view <i> <full|kinds>
      -> what observer i of the last run received (`kinds`: iteration numbers elided)
  seq L<line-up> <full|kinds>
      -> `deliveries` of the last run restricted to the positions holding a recorder (`R`), as
         `<observer>><event>`: the order in which the notifier calls the observers
-/
namespace Driver.Anneal
open Crem.Anneal
open Driver.Kirkpatrick (parseBits bitsStr)

structure State where
  events : List (Event Float)
  observers : Nat
  hasTemp : Bool

def parseSite (s : String) : Option (Option PanicSite) :=
  match s.splitOn ":" with
  | ["none"] => some none
  | ["init"] => some (some .initialise)
  | ["try", j] => j.toNat?.map (fun j => some (.tryRandomChange j))
  | ["cool", j] => j.toNat?.map (fun j => some (.coolDown j))
  | ["coolafter", j] => j.toNat?.map (fun j => some (.coolDownAfter j))
  | ["fattr"] => some (some .finishAttributes)
  | ["teardown"] => some (some .tearDown)
  | ["obsS", j] => j.toNat?.map (fun j => some (.notify .startedAnnealing j))
  | ["obsF", j] => j.toNat?.map (fun j => some (.notify .finishedAnnealing j))
  | ["obss", k, j] => k.toNat?.bind (fun k => j.toNat?.map (fun j => some (.notify (.startedIteration k) j)))
  | ["obsf", k, j] => k.toNat?.bind (fun k => j.toNat?.map (fun j => some (.notify (.finishedIteration k) j)))
  | _ => none

def tStr (hasTemp : Bool) (T : Float) : String := if hasTemp then bitsStr T else "-"

def eventStr (hasTemp withIter : Bool) : Event Float → String
  | .explorerInitialise => "I"
  | .startedAnnealing T => s!"S:{tStr hasTemp T}"
  | .startedIteration k T => s!"s{if withIter then toString k else ""}:{tStr hasTemp T}"
  | .tryRandomChange => "t"
  | .coolDown => "c"
  | .finishedIteration k T => s!"f{if withIter then toString k else ""}:{tStr hasTemp T}"
  | .finishedAnnealing k T => s!"F{if withIter then toString k else ""}:{tStr hasTemp T}"
  | .explorerTearDown => "D"
  | .observerPanic j => s!"!{j}"

def outcomeStr : Outcome → String
  | .returned => "returned"
  | .repanicked => "panic"
  | .outOfFuel => "out-of-fuel"

def traceStr (hasTemp withIter : Bool) (evs : List (Event Float)) : String :=
  if evs.isEmpty then "-" else ",".intercalate (evs.map (eventStr hasTemp withIter))

def step (st : Option State) (line : String) : Option State × String :=
  match words line with
  | "reset" :: _ => (st, "ok")
  | "probe" :: _ => (st, "done")   -- direct check on the Go side only
  | ["run", N, cur0, T0, a, site, nobs, merged] =>
    match N.toNat?, cur0.toNat?, parseSite site, nobs.toNat? with
    | some N, some cur0, some site, some nobs =>
      let hasTemp := T0 ≠ "-"
      match (if hasTemp then parseBits T0 else some 0.0), (if hasTemp then parseBits a else some 0.0) with
      | some T0, some a =>
        let r := anneal N cur0 T0 a (effectiveSite nobs site)
        (some { events := r.events, observers := nobs, hasTemp := hasTemp },
          s!"{outcomeStr r.outcome} {r.currentIteration} {tStr hasTemp r.temperature} {traceStr hasTemp true (if merged == "1" then r.events else r.events.filter (fun e => !e.observable))}")
      | _, _ => (st, "bad-op")
    | _, _, _, _ => (st, "bad-op")
  | ["seq", mask, mode] =>
    match st with
    | some s =>
      let recorderAt (i : Nat) : Bool := (mask.toList.drop 1)[i]? == some 'R'
      let ds := (deliveries s.observers s.events).filter (fun p => recorderAt p.1)
      (st, if ds.isEmpty then "-" else
        ",".intercalate (ds.map (fun p => s!"{p.1}>{eventStr s.hasTemp (mode == "full") p.2}")))
    | none => (st, "bad-op")
  | ["view", i, mode] =>
    match st, i.toNat? with
    | some s, some i =>
      (st, traceStr s.hasTemp (mode == "full") (receivedBy i (deliveries s.observers s.events)))
    | _, _ => (st, "bad-op")
  | _ => (st, "bad-op")

end Driver.Anneal
