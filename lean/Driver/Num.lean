import Driver.Common
/-
Number transport of the line protocol: a float64 crosses as its 16-hex-digit IEEE-754 bit
pattern and becomes the exact rational it denotes.  Core Lean only.
-/
namespace Driver

def hexDigit (c : Char) : Option Nat :=
  if '0' ≤ c ∧ c ≤ '9' then some (c.toNat - '0'.toNat)
  else if 'a' ≤ c ∧ c ≤ 'f' then some (c.toNat - 'a'.toNat + 10)
  else if 'A' ≤ c ∧ c ≤ 'F' then some (c.toNat - 'A'.toNat + 10)
  else none

def parseHexNat (s : String) : Option Nat :=
  if s.isEmpty then none else
  s.toList.foldl (fun acc c => match acc, hexDigit c with
    | some n, some d => some (n * 16 + d)
    | _, _ => none) (some 0)

/-- the exact rational denoted by an IEEE-754 binary64 bit pattern (none for inf/nan) -/
def ratOfBits (b : Nat) : Option Rat :=
  let sign : Nat := b / 2^63
  let e : Nat := (b / 2^52) % 2048
  let m : Nat := b % 2^52
  if e = 2047 then none else
  let num : Nat := if e = 0 then m else if e ≥ 1075 then (2^52 + m) * 2^(e - 1075) else 2^52 + m
  let den : Nat := if e = 0 then 2^1074 else if e ≥ 1075 then 1 else 2^(1075 - e)
  let mag : Rat := (num : Rat) / (den : Rat)
  some (if sign = 1 then -mag else mag)

def parseFloatBits (s : String) : Option Rat :=
  match parseHexNat s with
  | some n => if s.length = 16 then ratOfBits n else none
  | none => none

def parseFloats (ws : List String) : Option (List Rat) := ws.mapM parseFloatBits

/-- print a rational lying on the 10^-p grid as a decimal with p places; otherwise `num/den` -/
def gridStr (p : Nat) (x : Rat) : String :=
  let y := x * ((10^p : Nat) : Rat)
  if y.den = 1 then
    let n := y.num
    let a := n.natAbs
    let ip := a / 10^p
    let fp := a % 10^p
    let fs := toString fp
    let pad := String.ofList (List.replicate (p - fs.length) '0')
    (if n < 0 then "-" else "") ++ toString ip ++ (if p = 0 then "" else "." ++ pad ++ fs)
  else s!"{x.num}/{x.den}"

/-- approximate token: compared by ./check with relative tolerance -/
def approxStr (x : Rat) : String := s!"~{x.num}/{x.den}"

end Driver
