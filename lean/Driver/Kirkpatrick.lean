import Driver.Common
import Crem.Model.Kirkpatrick
/-!
Oracle for suite `kirk-script` (C04): the model of the Kirkpatrick explorer run with the
`Float` (IEEE binary64) arithmetic on a scripted model.  Stateful: `reset` starts a new
explorer, `try` is one `TryRandomChange`, `cool` one `CoolDown`.
-/
namespace Driver.Kirkpatrick
open Crem.Kirkpatrick

/-! ### float transport -/

def hexVal (c : Char) : Option Nat :=
  if '0' ≤ c ∧ c ≤ '9' then some (c.toNat - '0'.toNat)
  else if 'a' ≤ c ∧ c ≤ 'f' then some (c.toNat - 'a'.toNat + 10)
  else none

/-- a float64 crosses the protocol as its 16-hex-digit bit pattern -/
def parseBits (s : String) : Option Float :=
  let cs := s.toList
  if s == "nan" then some (0.0 / 0.0)
  else if cs.length ≠ 16 then none
  else (cs.foldlM (fun acc c => (hexVal c).map (fun v => acc * 16 + v)) 0).map
    (fun n => Float.ofBits (UInt64.ofNat n))

def hexDigit (n : Nat) : Char :=
  if n < 10 then Char.ofNat ('0'.toNat + n) else Char.ofNat ('a'.toNat + n - 10)

/-- bit pattern of a float (`nan` for any NaN: payloads are not part of any property) -/
def bitsStr (f : Float) : String :=
  if f.isNaN then "nan"
  else
    let n := f.toBits.toNat
    String.ofList ((List.range 16).map (fun i => hexDigit ((n / 16 ^ (15 - i)) % 16)))

/-- approximate token `~<number>` (compared by ./check with relative tolerance 1e-9 plus
1e-12 absolute), ~16 significant digits; `nan`/`inf` are exact tokens -/
def approxStr (f : Float) : String :=
  if f.isNaN then "nan"
  else if f.isInf then (if f < 0 then "-inf" else "inf")
  else
    let m := f.abs
    if m < 1e-300 then "~0"
    else
      let e := (Float.log10 m).floor
      let scaled := m / Float.pow 10.0 e * 1e15
      let digits := scaled.round.toUInt64.toNat
      let ex : Int := e.toInt64.toInt - 15
      s!"~{if f < 0 then "-" else ""}{digits}e{ex}"

/-! ### protocol -/

structure State where
  explorer : Explorer Float
  model : Scripted Float

def parseDir : String → Option Direction
  | "min" => some .minimising
  | "max" => some .maximising
  | "unset" => some .unset
  | _ => none

def eventCode : Event Float → String
  | .trying => "n"
  | .invalidChange Δ => s!"i:{bitsStr Δ}"
  | .desirability Δ d => s!"d{boolStr d}:{bitsStr Δ}"
  | .acceptingDesirable _ => "ad"
  | .acceptingUndesirable _ => "au"
  | .revertingUndesirable _ => "ru"
  | .cooling T => s!"c:{bitsStr T}"

def kindStr : Decision Float → String
  | .revertInvalid => "inv"
  | .acceptDesirable _ => "des"
  | .acceptUndesirable _ => "uacc"
  | .revertUndesirable _ => "urev"

def step (st : Option State) (line : String) : Option State × String :=
  match words line with
  | ["reset", dir, T, a, obj] =>
    match parseDir dir, parseBits T, parseBits a, parseBits obj with
    | some d, some T, some a, some obj =>
      (some { explorer := { dir := d, temperature := T, coolingFactor := a,
                            acceptanceProbability := 0.0, objectiveValueChange := 0.0 }
              model := { objective := obj, pendingChange := 0.0, pendingValid := true } }, "ok")
    | _, _, _, _ => (st, "bad-op")
  | [op, valid, Δs, vs, hint] =>
    -- `try`: scripted model, objective compared bit-exactly; `tryc`: a step recorded over the
    -- catchment model (its change and verdict are the inputs), objective compared approximately
    if op ≠ "try" ∧ op ≠ "tryc" then (st, "bad-op") else
    match st, parseBits Δs, vs.toNat? with
    | some s, some Δ, some v =>
      let A := floatArith
      let valid := valid == "1"
      let u := unitary A v
      -- a draw within 1e-9 of the acceptance probability cannot be decided across exp
      -- implementations: the harness passes Go's verdict as a hint, checked to be such a case
      let Δobs := observedChange s.explorer.dir valid s.explorer.objectiveValueChange Δ
      let p := acceptanceProbability A s.explorer.temperature Δobs
      let near := (p - u).abs ≤ 1e-9
      if hint ≠ "-" ∧ !(near ∧ valid ∧ !(desirable A s.explorer.dir Δobs)) then (st, "bad-hint")
      else
        let u' := if hint == "A" then -1.0 else if hint == "R" then 2.0 else u
        let r := tryRandomChange A (scriptedModel A) s.explorer s.model (Δ, valid) u'
        let pTok := match r.decision.probability with
          | some p => approxStr p
          | none => "-"
        let out := s!"{kindStr r.decision} {if r.decision.accepted then "A" else "R"} {boolStr r.decision.drew} {bitsStr r.explorer.objectiveValueChange} {pTok} {approxStr r.explorer.acceptanceProbability} {if op == "tryc" then approxStr r.model.objective else bitsStr r.model.objective} {",".intercalate (r.events.map eventCode)} {bitsStr u}"
        (some { explorer := r.explorer, model := r.model }, out)
    | _, _, _ => (st, "bad-op")
  | ["cool"] =>
    match st with
    | some s =>
      let (e, ev) := coolDown floatArith s.explorer
      (some { s with explorer := e }, s!"{bitsStr e.temperature} {eventCode ev}")
    | none => (st, "bad-op")
  | _ => (st, "bad-op")

end Driver.Kirkpatrick
