import Driver.Common
import Driver.Num
import Crem.Model.SummaryCsv
/-
Line-protocol oracle of the suites `naming` and `saved-runs` (property C12).
Strings cross the protocol as `=<percent-encoded UTF-8>` tokens; floats as IEEE bit patterns.

  label =<id>                                   -> =<label>
  key =<key>                                    -> =<Summary.Id> =<FileNameSafeId> (=<json set name> | panic)
  names <single|multi> =<name> <r> <R> <n>      -> <#keys> { | =<key> =<label> =<Id> =<FileNameSafeId> (=<set name>|panic) }
  csv <nv> =<var>.. <ne> { =<key> <sortIndex> =<label> =<actions> =<note> <bits>^nv }
                                                -> =<text of the CSV summary>
  save <single|multi> <csv|json> <summary|detail> =<name> <R> <nv> =<var>.. <#runs>
       { <r> <index of the key yielded for the file name|none> <index of the key yielded for the JSON set name|none> <#rows> { =<action encoding> <bits>^nv } }
                                                -> panic | <#files> =<file>.. { | <content of the run's summary> }

The variant (code as found / repaired code) is chosen by the driver's suite name:
`naming-anchored` (the round-3 repairs: label / Summary.Id / FileNameSafeId computed from the id's own ending),
`naming` = `naming-fixed` (D6-D8 only) and `naming-current`; the environment variable
VERIF_C12_VARIANT=current|fixed overrides the default of plain `naming`.  checkprops.py names the driver that
matches what /repo's HEAD contains.
-/
namespace Driver.Naming
open Crem.Naming Crem.SummaryCsv

def unreserved (c : Char) : Bool :=
  c.isAlphanum || c = '-' || c = '_' || c = '.' || c = '(' || c = ')' || c = '/'

def hexChar (n : Nat) : Char := if n < 10 then Char.ofNat (48 + n) else Char.ofNat (55 + n)

def pct (s : Str) : String :=
  let bytes := (String.ofList s).toUTF8
  String.ofList ('=' :: (bytes.toList.flatMap fun b =>
    let c := Char.ofNat b.toNat
    if b.toNat < 128 && unreserved c then [c] else ['%', hexChar (b.toNat / 16), hexChar (b.toNat % 16)]))

partial def unpctGo : List Char → List UInt8 → Option (List UInt8)
  | [], acc => some acc.reverse
  | '%' :: a :: b :: rest, acc =>
    match Driver.hexDigit a, Driver.hexDigit b with
    | some x, some y => unpctGo rest (UInt8.ofNat (x * 16 + y) :: acc)
    | _, _ => none
  | '%' :: _, _ => none
  | c :: rest, acc => if c.toNat < 128 then unpctGo rest (UInt8.ofNat c.toNat :: acc) else none

def unpct (t : String) : Option Str :=
  match t.toList with
  | '=' :: cs =>
    match unpctGo cs [] with
    | some bytes => (String.fromUTF8? (ByteArray.mk bytes.toArray)).map String.toList
    | none => none
  | _ => none

def famOf : String → Option Family
  | "single" => some .single
  | "multi" => some .multi
  | _ => none

def jsonTok (key : Str) : String :=
  match jsonSetNameOfKey key with
  | some s => pct s
  | none => "panic"

def keyImage (v : Variant) (key : Str) : String :=
  s!"{pct (setIdV v key)} {pct (fileSafeIdV v key)} {jsonTok key}"

/-- lexicographic order by code point (= Go's bytewise order on UTF-8) -/
def strLt : Str → Str → Bool
  | [], [] => false
  | [], _ :: _ => true
  | _ :: _, [] => false
  | a :: as, b :: bs => if a < b then true else if b < a then false else strLt as bs

def insertStr (x : Str) : List Str → List Str
  | [] => [x]
  | y :: ys => if strLt x y then x :: y :: ys else if x = y then y :: ys else y :: insertStr x ys

def sortDedup (xs : List Str) : List Str := xs.foldr insertStr []

/-- take `n` items with a parser that consumes tokens -/
def takeN {α : Type} (p : List String → Option (α × List String)) : Nat → List String → Option (List α × List String)
  | 0, ws => some ([], ws)
  | n + 1, ws => do
    let (a, ws) ← p ws
    let (as, ws) ← takeN p n ws
    pure (a :: as, ws)

def pStr : List String → Option (Str × List String)
  | t :: ws => (unpct t).map (·, ws)
  | [] => none

def pNat : List String → Option (Nat × List String)
  | t :: ws => t.toNat?.map (·, ws)
  | [] => none

def pFloat : List String → Option (Rat × List String)
  | t :: ws => (Driver.parseFloatBits t).map (·, ws)
  | [] => none

/-- `=<actions> <bits>^nv` -/
def pRow (vars : List Str) (ws : List String) : Option (Row × List String) := do
  let (enc, ws) ← pStr ws
  let (vals, ws) ← takeN pFloat vars.length ws
  pure ({ vars := vars.zip vals, actions := enc }, ws)

def pEntry (vars : List Str) (ws : List String) : Option (Entry × List String) := do
  let (key, ws) ← pStr ws
  let (si, ws) ← pNat ws
  let (lab, ws) ← pStr ws
  let (act, ws) ← pStr ws
  let (note, ws) ← pStr ws
  let (vals, ws) ← takeN pFloat vars.length ws
  pure ({ key := key, sortIndex := si, label := lab, vars := vars.zip vals, actions := act, note := note }, ws)

structure RunIn where
  r : Nat
  keyIdx : Option Nat      -- key yielded to `FileNameSafeId` (file name)
  setIdx : Option Nat      -- key yielded to the JSON `deriveSetNameFor` (an independent iteration of the same map)
  rows : List Row

def pRun (vars : List Str) (ws : List String) : Option (RunIn × List String) := do
  let (r, ws) ← pNat ws
  match ws with
  | k :: j :: ws =>
    let keyIdx := k.toNat?
    let setIdx := j.toNat?
    if (keyIdx.isNone && k ≠ "none") || (setIdx.isNone && j ≠ "none") then none else
    let (nrows, ws) ← pNat ws
    let (rows, ws) ← takeN (pRow vars) nrows ws
    pure ({ r := r, keyIdx := keyIdx, setIdx := setIdx, rows := rows }, ws)
  | _ => none

/-- canonical rendering of the MODEL's JSON document (`Crem.SummaryCsv.JsonSummary`: what `json.Marshaler.Marshal`
hands to encoding/json) - the harness renders the document it parsed back from the file the same way -/
def jsonContent (doc : JsonSummary) : String :=
  let rowStr (e : JsonSolution) : String :=
    s!" {pct e.id} {e.variables.length}" ++
      String.join (e.variables.map fun nv => s!" {pct nv.1} {Driver.gridStr 3 (Crem.rnd 3 nv.2)}") ++
      s!" {pct e.actions} {pct e.note}"
  s!"{pct doc.solutionSet} {doc.solutions.length}" ++ String.join (doc.solutions.map rowStr)

def doSave (v : Variant) (f : Family) (ot : OutputType) (detail : Bool) (name : Str) (R : Nat) (runs : List RunIn) : String :=
  let perRun := runs.map fun run =>
    let rid := runId name run.r R
    let members := run.rows.drop 1
    let ks := keys v f rid members.length
    let key := run.keyIdx.bind fun i => ks[i]?
    (run, rid, ks, key)
  let panics := ot == .json && perRun.any fun (run, _, ks, _) =>
    match run.setIdx.bind fun i => ks[i]? with
    | some k => (jsonSetNameOfKey k).isNone
    | none => false
  if panics then "panic" else
  let files := perRun.flatMap fun (_, _, ks, key) =>
    (match key with | some k => [summaryFileNameV v ot k] | none => []) ++
    (if detail then ks.flatMap (detailFileNames ot) else [])
  let listing := sortDedup files
  let contents := perRun.map fun (run, rid, ks, key) =>
    match key, run.rows with
    | some _, asIs :: members =>
      let entries := buildSummary v f rid asIs members
      match ot with
      | .csv => pct (renderCsv entries entries.head?)
      | .json =>
        match (run.setIdx.bind fun i => ks[i]?).bind fun k => marshalJson entries (some k) with
        | some doc => jsonContent doc
        | none => "missing"
    | _, _ => "missing"
  s!"{listing.length}" ++ String.join (listing.map fun x => " " ++ pct x) ++ String.join (contents.map fun x => " | " ++ x)

def step (v : Variant) (line : String) : String :=
  let bad := "bad-op"
  match words line with
  | ["label", t] =>
    match unpct t with
    | some id => pct (label v id)
    | none => bad
  | ["key", t] =>
    match unpct t with
    | some key => keyImage v key
    | none => bad
  | ["names", fam, nameT, r, R, n] =>
    match famOf fam, unpct nameT, r.toNat?, R.toNat?, n.toNat? with
    | some f, some name, some r, some R, some n =>
      let ks := keys v f (runId name r R) n
      s!"{ks.length}" ++ String.join (ks.map fun k => s!" | {pct k} {pct (label v k)} {keyImage v k}")
    | _, _, _, _, _ => bad
  | "csv" :: ws =>
    let res : Option String := do
      let (nv, ws) ← pNat ws
      let (vars, ws) ← takeN pStr nv ws
      let (ne, ws) ← pNat ws
      let (entries, ws) ← takeN (pEntry vars) ne ws
      if !ws.isEmpty then none else
      let m := entries.foldl insertEntry []
      pure (pct (renderCsv m m.head?))
    res.getD bad
  | "save" :: fam :: ext :: level :: ws =>
    let res : Option String := do
      let f ← famOf fam
      let ot ← (match ext with | "csv" => some OutputType.csv | "json" => some OutputType.json | _ => none)
      let detail ← (match level with | "summary" => some false | "detail" => some true | _ => none)
      let (name, ws) ← pStr ws
      let (R, ws) ← pNat ws
      let (nv, ws) ← pNat ws
      let (vars, ws) ← takeN pStr nv ws
      let (nr, ws) ← pNat ws
      let (runs, ws) ← takeN (pRun vars) nr ws
      if !ws.isEmpty then none else
      pure (doSave v f ot detail name R runs)
    res.getD bad
  | _ => bad

end Driver.Naming
