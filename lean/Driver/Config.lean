import Driver.Common
import Crem.Model.Config
/-
Line-protocol oracle for C19, suite `config-runs` (stateful: the data facts).

  code <repair> …                                     -> ok
        which repairs are declared to be in the tree (`-` = none): reportEveryChecked objectiveChecked
        loopInvariantGuarded concurrencyCapped runNumberBounded outputPathChecked cpuProfilePathChecked
        outputPathStatChecked summaryNameAnchored
  env <dataset> <bind0> <never0> … <bind5> <never5>   -> ok
        limit zones of a data set (thousandths), extracted by the harness from the real catchment model,
        in the order of `limitKeys`
  cfg <entry> …                                       -> load=<ok|err> interp=<ok|err:model,annealer,scenario|panic|->
        the structured configuration: <entry> = <sec>/<key>=<kind>:<value>
        sec  S SU SR SRL A AP M MP MD Z T (T = bare top-level keys);  kind  i (integer) f (decimal, millionths, any number of digits) s (string) b (0|1)
        p (path symbol) t (table) a (array) d (datetime); in keys and strings a blank, `%` and every control character
        are written `%XX` (two hexadecimal digits)
  pred <entry> …                                      -> accepts=<0|1> safe=<0|1> must=<names|-> may=<names|-> fixed=<names|-> files=<n>
        harness pre-pass: the finding predicates evaluated on the structured form; `must` = findings
        whose failure site every run reaches, `may` = findings that end a run only sometimes, `fixed` =
        findings that hold syntactically but whose repair is declared (they cannot end a run if the
        declaration is true); `files` = the number of summary files a scenario whose runs all complete leaves behind
  ran <outcome> <candidates|-> <summaries> <entry> …  -> ok | missing-results | extra-results | unexpected-completion | explained:<finding> | recurred:<finding> | unexplained | …
        the verdict on an observed run: a crash is explained only by a finding that holds of the
        configuration AND is among the candidates the harness derived from the panic text; `recurred` =
        such a finding whose repair is declared: the repair is not (or no longer) effective; a completed scenario is
        `ok` only with EXACTLY one summary file per run
  notrun <entry> …                                    -> boundary:too-long-to-run | should-run
        an accepted configuration the harness did not run: legitimate only for a RunNumber above `runLimit`
        (e.g. next to the 2^31 - 1 bound: only its accept/reject verdict is compared)
-/
namespace Driver.Config
open Crem.Config

def parseSec : String → Option Sec
  | "S" => some .scenario | "SU" => some .userDetail | "SR" => some .reporting | "SRL" => some .logDest
  | "A" => some .annealer | "AP" => some .annealerParams | "M" => some .model | "MP" => some .modelParams
  | "MD" => some .metaData | "Z" => some .other | "T" => some .top
  | _ => none

def hexVal (c : Char) : Option Nat :=
  if '0' ≤ c ∧ c ≤ '9' then some (c.toNat - '0'.toNat)
  else if 'a' ≤ c ∧ c ≤ 'f' then some (c.toNat - 'a'.toNat + 10)
  else if 'A' ≤ c ∧ c ≤ 'F' then some (c.toNat - 'A'.toNat + 10)
  else none

/-- `%XX` -> the character with that code -/
def unescapeChars : List Char → List Char
  | '%' :: a :: b :: r =>
    match hexVal a, hexVal b with
    | some x, some y => Char.ofNat (16 * x + y) :: unescapeChars r
    | _, _ => '%' :: unescapeChars (a :: b :: r)
  | c :: r => c :: unescapeChars r
  | [] => []

def unescape (s : String) : String := String.ofList (unescapeChars s.toList)

def parseVal (kind rest : String) : Option Val :=
  match kind with
  | "i" => rest.toInt?.map Val.int
  | "f" => rest.toInt?.map Val.flt
  | "b" => some (.bool (rest = "1"))
  | "s" => some (.str (unescape rest))
  | "p" => some (.path rest)
  | "t" => some .table
  | "a" => some .array
  | "d" => some .datetime
  | _ => none

/-- `<sec>/<key>=<kind>:<value>`; the value may itself contain '/', '=' or ':' -/
def parseEntry (w : String) : Option Entry :=
  match w.splitOn "/" with
  | secS :: r1 =>
    let afterSec := "/".intercalate r1
    match afterSec.splitOn "=" with
    | key :: r2 =>
      let afterKey := "=".intercalate r2
      match afterKey.splitOn ":" with
      | kind :: r3 =>
        if r2.isEmpty ∨ r3.isEmpty then none else
        match parseSec secS, parseVal kind (":".intercalate r3) with
        | some s, some v => some ⟨s, unescape key, v⟩
        | _, _ => none
      | [] => none
    | [] => none
  | [] => none

def parseCfg (ws : List String) : Option Cfg := ws.mapM parseEntry

def commaList (xs : List String) : String := if xs.isEmpty then "-" else ",".intercalate xs

def loadErrStr : LoadErr → String
  | .decode => "decode"
  | .unknown => "unknown"
  | .mandatory fs => "mandatory(" ++ ",".intercalate fs ++ ")"

def secErrStr : SecErr → String
  | .model => "model" | .annealer => "annealer" | .scenario => "scenario" | .objective => "other"

/-- the harness sees the three section interpreters and the whole; an error outside the sections is
visible (as `other`) only when no section has one -/
def visible (es : List SecErr) : List SecErr :=
  let secs := es.filter (· != .objective)
  if secs.isEmpty then es else secs

structure St where
  r : Repairs := {}
  env : Env := {}

def parseRepairs (ws : List String) : Repairs :=
  { reportEveryChecked := ws.contains "reportEveryChecked"
    objectiveChecked := ws.contains "objectiveChecked"
    loopInvariantGuarded := ws.contains "loopInvariantGuarded"
    concurrencyCapped := ws.contains "concurrencyCapped"
    runNumberBounded := ws.contains "runNumberBounded"
    outputPathChecked := ws.contains "outputPathChecked"
    cpuProfilePathChecked := ws.contains "cpuProfilePathChecked"
    outputPathStatChecked := ws.contains "outputPathStatChecked"
    summaryNameAnchored := ws.contains "summaryNameAnchored" }

def verdictLine (r : Repairs) (c : Cfg) : String :=
  match verdict r c with
  -- WHICH complaints the loader makes (decode / unknown key / which mandatory fields) is told apart by the model; the loader says
  -- it in message texts only, whose wording is nobody's contract: the property needs "reported through an error value"
  | .loadError _ => "load=err interp=-"
  | .interpretPanic => "load=ok interp=panic"
  | .accepted => "load=ok interp=ok"
  | .interpretError es => "load=ok interp=err:" ++ ",".intercalate ((visible es).map secErrStr)

/-- the findings are syntactic predicates: they are evaluated on the decoded form whether or not the model's
loader accepts.  (For a configuration both sides reject nothing is run and the lists are not used; one that crem
accepts although the model rejects it is a correspondence mismatch by itself, and a crash of it is still
attributed to the finding it exhibits.) -/
def mustMay (r : Repairs) (env : Env) (c : Cfg) : List String × List String :=
  let l := mkLoaded c
  let fs := findingNames r env c
  (fs.filter (certain env l), fs.filter (fun n => !certain env l n))

/-- the largest number of runs the harness actually executes -/
def runLimit : Int := 1000

/-- the number of summary files a completed scenario must leave behind (0 for one that is too long to run anyway) -/
def filesToCount (r : Repairs) (c : Cfg) : Nat :=
  if (mkLoaded c).runNumber ≤ runLimit.toNat then expectedSummaryFiles r (mkLoaded c) else 0

def predLine (r : Repairs) (env : Env) (c : Cfg) : String :=
  let (must, may) := mustMay r env c
  let safe := match load r c with | .ok l => runSafeB r env l | .error _ => false
  s!"accepts={boolStr (accepts r c)} safe={boolStr safe} must={commaList must} may={commaList may} fixed={commaList (repairedNames r c)} files={filesToCount r c}"

def notRunLine (c : Cfg) : String :=
  match get c .scenario "RunNumber" with
  | some (.int i) => if runLimit < i then "boundary:too-long-to-run" else "should-run"
  | _ => "should-run"

/-- the finding that does not end a run: the scenario completes, a summary file is missing -/
def silentFinding : String := "ResultFileNotWritten"

def ranLine (r : Repairs) (env : Env) (outcome cands : String) (summaries : Nat) (c : Cfg) : String :=
  let (must, may) := mustMay r env c
  let candList := if cands = "-" then [] else cands.splitOn ","
  let explained := match candList.find? (fun n => must.contains n || may.contains n) with
    | some n => some ("explained:" ++ n)
    | none => (candList.find? (fun n => (repairedNames r c).contains n)).map ("recurred:" ++ ·)
  let runs := (mkLoaded c).runNumber
  let files := filesToCount r c
  match outcome with
  | "completed" =>
    if !(must.filter (· != silentFinding)).isEmpty then "unexpected-completion"
    else if summaries = files then (if files = runs then "ok" else "explained:" ++ silentFinding)
    else if summaries = runs then "unexpected-completion"
    else if (repairedNames r c).contains silentFinding then "recurred:" ++ silentFinding
    else if summaries < runs then "missing-results"
    else "extra-results"
  | "panic" => explained.getD "unexplained"
  | "run-failed-error" => explained.getD "unexplained"
  | "error-value" => explained.getD "run-error"
  | "timeout" => "timeout"
  | "rejected" => "child-rejected"
  | _ => "child-failed"

def parseZones : List Int → List Zone
  | b :: n :: r => ⟨b, n⟩ :: parseZones r
  | _ => []

def step (st : St) (line : String) : St × String :=
  match words line with
  | "code" :: ws => ({ st with r := parseRepairs ws }, "ok")
  | "env" :: ds :: rest =>
    match parseInts rest with
    | some vs => ({ st with env := { st.env with zones := (ds, parseZones vs) :: st.env.zones } }, "ok")
    | none => (st, "bad-op")
  | "cfg" :: ws =>
    match parseCfg ws with
    | some c => (st, verdictLine st.r c)
    | none => (st, "bad-op")
  | "pred" :: ws =>
    match parseCfg ws with
    | some c => (st, predLine st.r st.env c)
    | none => (st, "bad-op")
  | "notrun" :: ws =>
    match parseCfg ws with
    | some c => (st, notRunLine c)
    | none => (st, "bad-op")
  | "ran" :: outcome :: cands :: n :: ws =>
    match parseCfg ws, n.toNat? with
    | some c, some k => (st, ranLine st.r st.env outcome cands k c)
    | _, _ => (st, "bad-op")
  | _ => (st, "bad-op")

end Driver.Config
