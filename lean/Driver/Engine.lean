import Driver.Common
import Crem.Model.Engine
import Crem.Model.EngineGo
import Crem.Model.Csv
/-!
Oracle of the `engine-seq`, `engine-raw` and `engine-conc` suites (properties C14, C15, C16).

Lines (tokens separated by one space; `=<text>` is a percent-escaped string, `x<hex>` raw bytes):

  reset                                          -> ok        fresh engine (universes and quirks are kept)
  quirks <name>=<0|1> …                          -> ok        the variant the harness observed (see Model/Engine.lean)
  universe =<key> A <n> (<pu> =<type>)* P <k> <pu>* V <v> (=<name> <16 hex>)*   -> ok
  oracle =<key> <bits|-> <0|1>                   -> ok        validity of an action set under the scenario's limit
  req <obs> <METHOD> =<path> =<ctype> x<body> <facts>        -> `<status> <body token>` | `panic`
  raw <obs> <METHOD> =<path> =<ctype> x<body> <facts>        -> `<status>` | `panic`     (engine-raw: status only)
  admin <obs> <METHOD> =<path>                   -> `<status> <body token>` | `panic`

  <obs>  `-`, or `panic`: the real handler panicked (reported directly by the harness); the model answers
         `panic` and keeps its state (the harness starts a fresh engine next)
  <facts>
    none
    scen bad|interp|loadfail  |  scen noncatch =<name>  |  scen ok =<name> =<key>
    patch bad  |  patch <n> (=<name> =<value token> <-|N|T=<text>>)*
    sub bad    |  sub <n> (=<name> <A|I|S|N>)*
    csv err    |  csv <cols> (=<heading>)* <rows> <cell>*      cell: n<16 hex>/=<CellString> | b | t=<text>
-/
namespace Driver.Engine
open Crem.Engine

/-! ## tokens -/

def hexVal (c : Char) : Option Nat :=
  if '0' ≤ c ∧ c ≤ '9' then some (c.toNat - 48)
  else if 'a' ≤ c ∧ c ≤ 'f' then some (c.toNat - 87)
  else if 'A' ≤ c ∧ c ≤ 'F' then some (c.toNat - 55)
  else none

def parseHexBytes : List Char → List UInt8
  | a :: b :: rest =>
    match hexVal a, hexVal b with
    | some x, some y => UInt8.ofNat (x * 16 + y) :: parseHexBytes rest
    | _, _ => []
  | _ => []

def parseHexNat (s : String) : Nat :=
  s.toList.foldl (fun acc c => acc * 16 + (hexVal c).getD 0) 0

def unescBytes : List Char → List UInt8
  | '%' :: a :: b :: rest =>
    match hexVal a, hexVal b with
    | some x, some y => UInt8.ofNat (x * 16 + y) :: unescBytes rest
    | _, _ => unescBytes rest
  | c :: rest => c.toString.toUTF8.toList ++ unescBytes rest
  | [] => []

def upHex (n : Nat) : Char := Crem.BoolArchive.hexDigit n

def hexOfBytes (bs : List UInt8) : String :=
  String.ofList (bs.foldr (fun b acc => upHex (b.toNat / 16) :: upHex (b.toNat % 16) :: acc) [])

/-- `=<escaped>` -> text; bytes that are not UTF-8 become `�` + hex (such a name equals no constant) -/
def unesc (tok : String) : String :=
  let cs := tok.toList
  let cs := match cs with | '=' :: rest => rest | _ => cs
  let bytes := unescBytes cs
  match String.fromUTF8? (ByteArray.mk bytes.toArray) with
  | some s => s
  | none => "�" ++ hexOfBytes bytes

def safeByte (b : UInt8) : Bool :=
  (0x30 ≤ b && b ≤ 0x39) || (0x41 ≤ b && b ≤ 0x5A) || (0x61 ≤ b && b ≤ 0x7A) ||
  b == 0x5F || b == 0x2E || b == 0x3A || b == 0x2F || b == 0x2D

def esc (s : String) : String :=
  "=" ++ String.ofList (s.toUTF8.toList.foldr (fun b acc =>
    if safeByte b then Char.ofNat b.toNat :: acc
    else '%' :: upHex (b.toNat / 16) :: upHex (b.toNat % 16) :: acc) [])

def parseBits (s : String) : List Bool :=
  if s = "-" then [] else s.toList.map (· == '1')

def bitsStr (bs : List Bool) : String :=
  if bs.isEmpty then "-" else String.ofList (bs.map (fun b => if b then '1' else '0'))

def fnv1a (bs : List UInt8) : UInt64 :=
  bs.foldl (fun h b => (h ^^^ b.toUInt64) * 1099511628211) 14695981039346656037

def hex16 (n : Nat) : String :=
  String.ofList ((List.range 16).map (fun i => upHex ((n >>> (4 * (15 - i))) % 16)))

/-! ## state -/

structure St where
  st : State := {}
  down : Bool := false
  q : Quirks := {}
  universes : List (String × Universe) := []
  oracle : List ((String × ActiveSet) × Bool) := []

def world (d : St) : World :=
  { valid := fun key set => ((d.oracle.find? (fun e => e.1 = (key, set))).map (·.2)).getD true }

def parseMethod : String → Method
  | "GET" => .get | "POST" => .post | "PUT" => .put | "PATCH" => .patch
  | "DELETE" => .delete | "HEAD" => .head | "OPTIONS" => .options | _ => .other

/-! ## facts -/

def takeN {α : Type} (n : Nat) (f : List String → Option (α × List String)) : List String → Option (List α × List String)
  | ws =>
    match n with
    | 0 => some ([], ws)
    | k + 1 =>
      match f ws with
      | none => none
      | some (a, rest) =>
        match takeN k f rest with
        | none => none
        | some (as, rest') => some (a :: as, rest')

def parsePatchEntry : List String → Option (PatchEntry × List String)
  | n :: v :: e :: rest =>
    let enc : EncVal :=
      if e = "-" then .notEncoding
      else if e = "N" then .nonString
      else .text (unesc (String.ofList (e.toList.drop 1)))
    some ({ name := unesc n, val := unesc v, enc := enc }, rest)
  | _ => none

def parseSubEntry : List String → Option (SubEntry × List String)
  | n :: v :: rest =>
    let val : SubVal := match v with
      | "A" => .active | "I" => .inactive | "S" => .otherString | _ => .nonString
    some ({ name := unesc n, val := val }, rest)
  | _ => none

def parseCell : List String → Option (Cell × List String)
  | c :: rest =>
    match c.toList with
    | 'n' :: cs =>
      let bits := String.ofList (cs.take 16)
      let str := String.ofList (cs.drop 17)
      some (.num (parseHexNat bits) (unesc str), rest)
    | 'b' :: _ => some (.bool, rest)
    | 't' :: cs => some (.text (unesc (String.ofList cs)), rest)
    | _ => none
  | _ => none

def parseStr : List String → Option (String × List String)
  | s :: rest => some (unesc s, rest)
  | _ => none

def chunks {α : Type} (k : Nat) : Nat → List α → List (List α)
  | 0, _ => []
  | n + 1, xs => xs.take k :: chunks k n (xs.drop k)

def parseCsv : List String → Option Csv
  | ["err"] => some .error
  | cols :: rest =>
    match cols.toNat? with
    | none => none
    | some nc =>
      match takeN nc parseStr rest with
      | none => none
      | some (header, rows :: rest') =>
        match rows.toNat? with
        | none => none
        | some nr =>
          match takeN (nc * nr) parseCell rest' with
          | some (cells, []) => some (.table header (chunks nc nr cells))
          | _ => none
      | _ => none
  | _ => none

def parseFacts (d : St) : List String → Option BodyFacts
  | ["none"] => some .none
  | ["scen", "bad"] => some (.scen .badToml)
  | ["scen", "interp"] => some (.scen .interpErr)
  | ["scen", "noncatch", name] => some (.scen (.nonCatchment (unesc name)))
  | ["scen", "loadfail"] => some (.scen .loadFail)
  | ["scen", "ok", name, key] =>
    match d.universes.find? (fun e => e.1 = unesc key) with
    | some (_, u) => some (.scen (.ok (unesc name) u))
    | none => none
  | ["patch", "bad"] => some (.patch none)
  | "patch" :: n :: rest =>
    match n.toNat? with
    | none => none
    | some k =>
      match takeN k parsePatchEntry rest with
      | some (es, []) => some (.patch (some es))
      | _ => none
  | ["sub", "bad"] => some (.sub none)
  | "sub" :: n :: rest =>
    match n.toNat? with
    | none => none
    | some k =>
      match takeN k parseSubEntry rest with
      | some (es, []) => some (.sub (some es))
      | _ => none
  | "csv" :: rest => (parseCsv rest).map .csv
  | _ => none

/-! ## cross-check of the harness's CSV facts against the Lean CSV reader (property C20's model)

The facts of a CSV body (heading texts, cell types, number bit patterns) are computed by the harness with Go's
`encoding/csv` and `strconv`; the raw body is on the line too, so the driver reads it with `Crem.Csv.readAll` / `cast`
and reports any difference (`csv-facts-differ` is appended to the answer, which the diff then flags). -/

def strBytes (s : String) : List UInt8 := s.toUTF8.toList

def isPlaceholder (s : String) : Bool := s.toList.head? == some '�'

def sameText (s : String) (bs : List UInt8) : Bool := isPlaceholder s || strBytes s == bs

def cellAgrees : Crem.Engine.Cell → Crem.Csv.Cell → Bool
  | .num bits _, .num b => bits == b
  | .bool, .bool _ => true
  | .text s, .text bs => sameText s bs
  | _, _ => false

def rowsAgree : List (List Crem.Engine.Cell) → List (List Crem.Csv.Cell) → Bool
  | [], [] => true
  | r :: rs, q :: qs => r.length == q.length && (r.zip q).all (fun p => cellAgrees p.1 p.2) && rowsAgree rs qs
  | _, _ => false

/-- the table the engine's reader builds: fields of columns headed as one of `textCols` keep their text -/
def leanCsv (textCols : List (List UInt8)) (raw : List UInt8) : Option (List (List UInt8) × List (List Crem.Csv.Cell)) :=
  match Crem.Csv.readAll raw with
  | .error _ => none
  | .ok [] => none
  | .ok (hdr :: rows) =>
    some (hdr, rows.map (fun r => (hdr.zip r).map (fun hf => if textCols.contains hf.1 then Crem.Csv.Cell.text hf.2 else Crem.Csv.cast hf.2)))

def csvFactsAgree (textCols : List (List UInt8)) (raw : List UInt8) : Csv → Bool
  | .error => (leanCsv textCols raw).isNone
  | .table header rows =>
    match leanCsv textCols raw with
    | none => false
    | some (hdr, cells) =>
      header.length == hdr.length && (header.zip hdr).all (fun p => sameText p.1 p.2) && rowsAgree rows cells

def factsCheck (r : Request) : Bool :=
  match r.facts with
  | .csv c =>
    match classifyPath r.path with
    | .solutions => csvFactsAgree [strBytes "Actions"] r.text c
    | .active => csvFactsAgree [] r.text c
    | _ => true
  | _ => true

/-! ## canonical output -/

def insertSorted (x : String) : List String → List String
  | [] => [x]
  | y :: ys => if x ≤ y then x :: y :: ys else y :: insertSorted x ys

def sortStrings (xs : List String) : List String := xs.foldr insertSorted []

def attrsStr (as : Attrs) : String :=
  let items := sortStrings (as.map (fun a => esc a.name ++ "~" ++ esc a.val))
  if items.isEmpty then "-" else String.intercalate "," items

def ctStr : CType → String
  | .json => "json" | .toml => "toml" | .csv => "csv"

def bodyStr : Body → String
  | .success => "success"
  | .error => "err"
  | .text tt bytes mangled =>
    if mangled then "text:" ++ ctStr tt.ctype ++ ":MANGLED"
    else "text:" ++ ctStr tt.ctype ++ ":" ++ toString bytes.length ++ ":" ++ hex16 (fnv1a bytes).toNat
  | .model m => "model id" ++ esc m.id ++ " R" ++ esc m.u.key ++ ":" ++ bitsStr m.active ++ " attrs=" ++ attrsStr m.attrs
  | .active u set => "active " ++ esc u.key ++ ":" ++ bitsStr set
  | .applicable u => "applicable " ++ esc u.key
  | .sub entries =>
    let items := sortStrings (entries.map (fun e => esc e.1 ++ ":" ++ (if e.2 then "1" else "0")))
    "sub " ++ (if items.isEmpty then "-" else String.intercalate "," items)
  | .solution _ => "solution"
  | .status => "status"
  | .adminStatus d => "status:" ++ statusWord d

def respStr (r : Response) : String := toString r.status ++ " " ++ bodyStr r.body

/-! ## lines -/

def parsePairs : Nat → List String → Option (List (Nat × String) × List String)
  | 0, ws => some ([], ws)
  | n + 1, pu :: ty :: rest =>
    match pu.toNat?, parsePairs n rest with
    | some p, some (ps, rest') => some ((p, unesc ty) :: ps, rest')
    | _, _ => none
  | _, _ => none

def parseNats : Nat → List String → Option (List Nat × List String)
  | 0, ws => some ([], ws)
  | n + 1, w :: rest =>
    match w.toNat?, parseNats n rest with
    | some p, some (ps, rest') => some (p :: ps, rest')
    | _, _ => none
  | _, _ => none

def parseVars : Nat → List String → Option (List (String × Nat) × List String)
  | 0, ws => some ([], ws)
  | n + 1, name :: bits :: rest =>
    match parseVars n rest with
    | some (vs, rest') => some ((unesc name, parseHexNat bits) :: vs, rest')
    | none => none
  | _, _ => none

def parseUniverse : List String → Option Universe
  | key :: "A" :: n :: rest =>
    match n.toNat? with
    | none => none
    | some na =>
      match parsePairs na rest with
      | some (acts, "P" :: k :: rest') =>
        match k.toNat? with
        | none => none
        | some np =>
          match parseNats np rest' with
          | some (pus, "V" :: v :: rest'') =>
            match v.toNat? with
            | none => none
            | some nv =>
              match parseVars nv rest'' with
              | some (vars, []) => some { key := unesc key, acts := acts, pus := pus, asIs := vars }
              | _ => none
          | _ => none
      | _ => none
  | _ => none

def setQuirk (q : Quirks) (kv : String) : Quirks :=
  match kv.splitOn "=" with
  | [k, v] =>
    let b := v == "1"
    match k with
    | "fprintf" => { q with fprintf := b }
    | "patchEager" => { q with patchEager := b }
    | "patchNoRefresh" => { q with patchNoRefresh := b }
    | "subStale" => { q with subStale := b }
    | "solLazy" => { q with solLazy := b }
    | "poolAlias" => { q with poolAlias := b }
    | "scenarioEager" => { q with scenarioEager := b }
    | "nullShadow" => { q with nullShadow := b }
    | "joinStale" => { q with joinStale := b }
    | _ => q
  | _ => q

def step (d : St) (line : String) : St × String :=
  match words line with
  | ["reset"] => ({ d with st := {}, down := false, oracle := [] }, "ok")
  -- what the locking model (Crem/Model/Locking.lean) assumes about rest.MuxImpl.ServeHTTP and the handlers: the request is
  -- handled inside one critical section of a mutex field of the multiplexer (Lock; defer Unlock — directly or through a lock
  -- wrapper — with nothing touching the receiver outside it)
  | ["facts", "servehttp"] => (d, "lock-first=1 unlock-deferred=1 go-statements=0")
  -- … and about everything else that reaches the multiplexers' state (harness/cmd/suite_engine_conc.go, engine-facts, explains
  -- each line).  The answers are the VIOLATIONS of a rule plus its accepted exceptions, not a fingerprint of the code: lock
  -- sites other than `Lock; defer Unlock` pairs (none), handlers registered with another multiplexer (one), fields written
  -- after start-up that are not consistently locked (one accepted life-cycle field) and their accesses outside ServeHTTP
  | ["facts", "servehttp-unique"] => (d, "servehttp=rest.MuxImpl serves=rest.MuxImpl.Start:mi")
  | ["facts", "lock-sites"] => (d, "-")
  | ["facts", "detached-execution"] => (d, "-")
  | ["facts", "go-statements"] => (d, "admin.Mux.WaitForShutdownSignal server.RestServer.Start server.RestServer.Start")
  | ["facts", "startup"] => (d, "bootstrap=deriveEngineBehaviour,deriveInitialEngineState,runEngine,flushStreams start-before-go=s.apiMux.SetCacheMaxAge s.adminMux.SetCacheMaxAge s.adminMux.SetStatus")
  | ["facts", "handlers"] => (d, "foreign=server.RestServer.WithApiMux:s.apiMux<-s.adminMux.StatusHandler")
  | ["facts", "locksets"] => (d, "rest.MuxImpl.server@-")
  | ["facts", "post-start"] => (d, "start/go:rest.MuxImpl.server:C:ListenAndServe@- start/go:rest.MuxImpl.server:W@- start:rest.MuxImpl.server:&@- start:rest.MuxImpl.server:C:Shutdown@-")
  | "quirks" :: kvs => ({ d with q := kvs.foldl setQuirk {} }, "ok")
  | "universe" :: rest =>
    match parseUniverse rest with
    | some u => ({ d with universes := (u.key, u) :: d.universes.filter (fun e => e.1 ≠ u.key) }, "ok")
    | none => (d, "bad-op")
  | ["oracle", key, bits, v] =>
    ({ d with oracle := ((unesc key, parseBits bits), v == "1") :: d.oracle }, "ok")
  | "req" :: obs :: method :: path :: ctype :: body :: facts =>
    match parseFacts d facts with
    | none => (d, "bad-op")
    | some f =>
      if obs = "panic" then (d, "panic")
      else
        let r : Request := { method := parseMethod method, path := unesc path, ctype := unesc ctype,
                             text := parseHexBytes (body.toList.drop 1), facts := f }
        -- the Go-shaped transcription (Crem/Model/EngineGo.lean): guards first, partial operations at their use sites;
        -- `.error` = a Go run-time panic the guards did not prevent (the token the harness prints for a recovered panic)
        match Crem.EngineGo.stepGo d.q (world d) d.st r with
        | .error _ => (d, "panic")
        | .ok (resp, s') =>
          ({ d with st := s' }, respStr resp ++ (if factsCheck r then "" else " csv-facts-differ"))
  | "raw" :: obs :: method :: path :: ctype :: body :: facts =>
    -- engine-raw: the same request, only the status is compared
    match parseFacts d facts with
    | none => (d, "bad-op")
    | some f =>
      if obs = "panic" then (d, "panic")
      else
        let r : Request := { method := parseMethod method, path := unesc path, ctype := unesc ctype,
                             text := parseHexBytes (body.toList.drop 1), facts := f }
        match Crem.EngineGo.stepGo d.q (world d) d.st r with
        | .error _ => (d, "panic")
        | .ok (resp, s') =>
          ({ d with st := s' }, toString resp.status ++ (if factsCheck r then "" else " csv-facts-differ"))
  | ["admin", obs, method, path] =>
    if obs = "panic" then (d, "panic")
    -- an operating system interrupt ends the shutdown waiter; the admin multiplexer's state stays what it was
    else if method = "SIGINT" then (d, "signalled")
    else
      let (resp, down') := stepAdmin d.down (parseMethod method) (unesc path)
      ({ d with down := down' }, respStr resp)
  | _ => (d, "bad-op")

end Driver.Engine
