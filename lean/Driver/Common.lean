/-
Shared plumbing of the line-protocol oracle: one input line -> one output line.
Core Lean only.
-/
namespace Driver

def words (line : String) : List String :=
  (line.trimAscii.toString.splitOn " ").filter (· ≠ "")

def parseInts (ws : List String) : Option (List Int) :=
  ws.mapM String.toInt?

def boolStr (b : Bool) : String := if b then "1" else "0"

/-- run `step` over stdin, printing one line per input line -/
partial def loop {σ : Type} (h : IO.FS.Stream) (out : IO.FS.Stream) (st : σ)
    (step : σ → String → σ × String) : IO Unit := do
  let line ← h.getLine
  if line.isEmpty then
    out.flush
    return ()
  let (st', o) := step st line
  out.putStrLn o
  loop h out st' step

def run {σ : Type} (init : σ) (step : σ → String → σ × String) : IO Unit := do
  loop (← IO.getStdin) (← IO.getStdout) init step

def runPure (step : String → String) : IO Unit :=
  run () (fun _ l => ((), step l))

end Driver
