#!/bin/bash
# development helper: seedrun.sh <patch.diff> "<checks>": run checks against a scratch copy of /repo with the patch applied
export VERIF_TMP=/tmp/lead-work
S=/tmp/seedrun-$$; rm -rf $S; mkdir -p $S; cp -r /repo $S/repo; rm -rf $S/repo/.git
(cd $S/repo && patch -p1 -s < $1) || { echo "PATCH DOES NOT APPLY"; rm -rf $S; exit 3; }
for c in $2; do
  VERIF_REPO=$S/repo /verif/check $c > $S/out.txt 2>&1; RC=$?
  echo "-- check $c exit=$RC: $(grep -E '^(VIOLATION|OK)' $S/out.txt | head -2 | tr '\n' ' ')"
  grep '^detail' $S/out.txt | head -1 | cut -c1-300
done
rm -rf $S
