#!/bin/bash
# development helper: apply every seeded change to a scratch copy of the current /repo and run its property's check.
# usage: seedsweep.sh [id-prefix ...]   (default: all)   output: one line per seed
export GOFLAGS=-mod=mod GOPROXY=off GOSUMDB=off GOTOOLCHAIN=local VERIF_TMP=/tmp/lead-work
run_one() {
  id=$1; p=$(echo $id | cut -c1-3); S=/tmp/sweep-$id; rm -rf $S; mkdir -p $S; cp -r /repo $S/repo; rm -rf $S/repo/.git
  if ! (cd $S/repo && patch -p1 -s --no-backup-if-mismatch < /verif/seeded/$id/patch.diff >/dev/null 2>&1); then echo "$id PATCH-FAILS"; rm -rf $S; return; fi
  if ! (cd $S/repo && go build ./... >/dev/null 2>&1); then echo "$id BUILD-FAILS"; rm -rf $S; return; fi
  VERIF_REPO=$S/repo /verif/check $p > $S/out.txt 2>&1; rc=$?
  echo "$id rc=$rc $(grep -E '^(VIOLATION|OK)' $S/out.txt | head -1 | cut -c1-150)"
  rm -rf $S
}
export -f run_one
ids=$(ls /verif/seeded | sort)
if [ $# -gt 0 ]; then ids=$(for x in "$@"; do ls /verif/seeded | grep "^$x"; done | sort -u); fi
echo $ids | tr ' ' '\n' | xargs -P 4 -I{} bash -c 'run_one {}'
