#!/bin/bash
# development helper: seedbatch.sh <round-prefix e.g. seed3> <Cxx> <letters e.g. "e f"> ["extra checks"]: fix meta, run seedtest for each letter, print result lines
export VERIF_TMP=/tmp/lead-work
R=$1; P=$2; LET=$3; EXTRA=${4:-}
mkdir -p /tmp/seedlogs
for x in $LET; do
  /verif/devtools/seedfix.py /tmp/$R-$P-out/$x >/dev/null
  (cd /tmp/$R-$P && git checkout -q -- . 2>/dev/null)
  timeout 2400 /verif/devtools/seedtest.sh /tmp/$R-$P-out/$x /tmp/$R-$P "$P $EXTRA" > /tmp/seedlogs/$R-$P$x.log 2>&1
  echo "== $P$x"; grep -E "exit=|^detail|NOT APPLY|BUILD FAILS" /tmp/seedlogs/$R-$P$x.log | cut -c1-330
done
