#!/usr/bin/env python3
"""keepseed.py <out-dir> <seed-id> <caught-by text> — store a verified seeded change under /verif/seeded/<seed-id>/"""
import sys, os, json, shutil
out, sid, caught = sys.argv[1], sys.argv[2], sys.argv[3]
dst = os.path.join('/verif/seeded', sid)
os.makedirs(dst, exist_ok=True)
for f in os.listdir(out):
    shutil.copy(os.path.join(out, f), os.path.join(dst, f))
m = json.load(open(os.path.join(dst, 'meta.json')))
m['breaks_property'] = m.get('property')
m['lead_verification'] = "devtools/seedtest.sh: patch applied in a scratch worktree -> go build ok, full `go test -vet=off -count=1 ./...` green, demo fails; patch reverted -> demo passes; then ./check run against a scratch copy of /repo HEAD with the patch applied (VERIF_REPO)"
m['check_result'] = caught
json.dump(m, open(os.path.join(dst, 'meta.json'), 'w'), indent=1)
print('kept', dst)
