#!/bin/bash
# development helper (not a registered command): apply one sed-style edit to a scratch copy of /repo,
# run a property's quick check against it, expect exit 1.
# usage: mutate.sh <Cxx> <file relative to repo> <python-regex> <replacement> [count]
set -u
PID=$1; FILE=$2; PAT=$3; REP=$4; CNT=${5:-1}
S=/tmp/mut-$$; rm -rf $S; mkdir -p $S; cp -r /repo $S/repo
python3 - "$S/repo/$FILE" "$PAT" "$REP" "$CNT" <<'PY'
import re,sys
p,pat,rep,cnt=sys.argv[1:5]
s=open(p).read()
n,k=re.subn(pat,rep,s,count=int(cnt),flags=re.S)
if k==0: print("PATTERN NOT FOUND"); sys.exit(9)
open(p,'w').write(n)
PY
[ $? -eq 9 ] && { rm -rf $S; exit 9; }
export GOFLAGS=-mod=mod GOPROXY=off GOSUMDB=off GOTOOLCHAIN=local
(cd $S/repo && go build ./... 2>&1 | head -5)
VERIF_REPO=$S/repo /verif/check $PID > $S/out.txt 2>&1; RC=$?; tail -3 $S/out.txt; echo "exit=$RC"
rm -rf $S
