#!/usr/bin/env python3
"""print per property: audited theorem count, suites, lines compared (from evidence/*.json) — to refresh DESIGN.md 10.2"""
import json, glob, os
for f in sorted(glob.glob('/verif/evidence/C*.json')):
    e = json.load(open(f)); c = e['coverage']
    suites = c.get('suites'); th = c.get('theorems')
    print(e['property_id'], 'theorems=%s' % (len(th) if isinstance(th, list) else th), 'obligations=%s/%s' % (c.get('discharged'), c.get('obligations')),
          'lines=%s' % c.get('lines_compared'), 'suites=%s' % (','.join((s.get('name') or s.get('suite') or str(s)) if isinstance(s, dict) else str(s) for s in suites) if isinstance(suites, list) else suites),
          'known=%s' % c.get('known_findings_reported'))
