#!/usr/bin/env python3
"""seedfix.py <out-dir>...: normalise meta.json demo_path (strip trailing prose) and drop stray logs"""
import json, sys, os
for d in sys.argv[1:]:
    p = os.path.join(d, 'meta.json')
    m = json.load(open(p))
    dp = m['demo_path'].strip().split()[0]
    if dp != m['demo_path']:
        m['demo_path'] = dp
        json.dump(m, open(p, 'w'), indent=1)
    for f in os.listdir(d):
        if f.endswith('.log'):
            os.remove(os.path.join(d, f))
    print(d, m['demo_path'], '|', m['demo_cmd'], '|', sorted(os.listdir(d)))
