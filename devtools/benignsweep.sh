#!/bin/bash
# development helper: apply every property-PRESERVING change under <dir>/<id>/patch.diff (or /verif/benign/<id>) to a scratch
# copy of the current /repo and run its property's check: every line should read rc=0.
# usage: benignsweep.sh <dir> [id ...]
export GOFLAGS=-mod=mod GOPROXY=off GOSUMDB=off GOTOOLCHAIN=local VERIF_TMP=/tmp/lead-work
D=$1; shift
export D
run_one() {
  id=$1; p=$(echo $id | cut -c1-3); S=/tmp/bsweep-$id; rm -rf $S; mkdir -p $S; cp -r /repo $S/repo; rm -rf $S/repo/.git
  if ! (cd $S/repo && patch -p1 -s --no-backup-if-mismatch < $D/$id/patch.diff >/dev/null 2>&1); then echo "$id PATCH-FAILS"; rm -rf $S; return; fi
  if ! (cd $S/repo && go build ./... >/dev/null 2>&1); then echo "$id BUILD-FAILS"; rm -rf $S; return; fi
  VERIF_REPO=$S/repo /verif/check $p > $S/out.txt 2>&1; rc=$?
  echo "$id rc=$rc $(grep -E '^(VIOLATION|OK)' $S/out.txt | head -1 | cut -c1-200)"
  if [ $rc != 0 ]; then mkdir -p /tmp/lead-work/benign-fail; cp $S/out.txt /tmp/lead-work/benign-fail/$id.txt; fi
  rm -rf $S
}
export -f run_one
ids="$@"; if [ -z "$ids" ]; then ids=$(ls $D | grep '^C[0-9][0-9][a-z]$' | sort); fi
echo $ids | tr ' ' '\n' | xargs -P 3 -I{} bash -c 'run_one {}'
