#!/bin/bash
# development helper (round eight layout): seedbatch5.sh <TAG> [ids...]: for every /tmp/seed8-<TAG>-out/<Cxxi|Cxxj>: fix meta, verify in
# the worktree /tmp/seed8-<TAG>, run the property's check; print result lines
export VERIF_TMP=/tmp/lead-work
T=$1; shift
IDS="$@"; if [ -z "$IDS" ]; then IDS=$(ls /tmp/seed8-$T-out | grep '^C[0-9][0-9]n$' | sort); fi
mkdir -p /tmp/seedlogs
for id in $IDS; do
  P=$(echo $id | cut -c1-3)
  /verif/devtools/seedfix.py /tmp/seed8-$T-out/$id >/dev/null
  (cd /tmp/seed8-$T && git checkout -q -- . 2>/dev/null)
  timeout 2400 /verif/devtools/seedtest.sh /tmp/seed8-$T-out/$id /tmp/seed8-$T "$P" > /tmp/seedlogs/seed8-$id.log 2>&1
  echo "== $id"; grep -E "exit=|^detail|NOT APPLY|BUILD FAILS" /tmp/seedlogs/seed8-$id.log | cut -c1-330
done
