#!/bin/bash
# development helper: verify a seeded change (from an independent sub-agent) and run checks against it.
# usage: seedtest.sh <out-dir containing patch.diff, meta.json, demo> <worktree> "<checks, e.g. C05 C06>"
set -u
OUT=$1; WT=$2; CHECKS=$3
export VERIF_TMP=/tmp/lead-work
export GOFLAGS=-mod=mod GOPROXY=off GOSUMDB=off GOTOOLCHAIN=local
DEMO_PATH=$(python3 -c "import json;print(json.load(open('$OUT/meta.json'))['demo_path'])")
DEMO_CMD=$(python3 -c "import json;print(json.load(open('$OUT/meta.json'))['demo_cmd'])")
echo "== verify in $WT (demo: $DEMO_PATH)"
cd $WT && git checkout -q -- . && git apply $OUT/patch.diff || { echo "PATCH DOES NOT APPLY in worktree"; exit 2; }
DEMOFILE=$(ls $OUT | grep -v 'patch.diff\|meta.json' | head -1)
[ -f "$WT/$DEMO_PATH" ] || cp $OUT/$DEMOFILE $WT/$DEMO_PATH
go build ./... || { echo "BUILD FAILS"; git checkout -q -- .; exit 2; }
mv $WT/$DEMO_PATH /tmp/demo-hold.$$            # the suite must be green without the demo
go test -vet=off -count=1 ./... > /tmp/suite.$$ 2>&1; SUITE=$?; grep -E '^(FAIL|---)' /tmp/suite.$$ | head -5; rm -f /tmp/suite.$$
mv /tmp/demo-hold.$$ $WT/$DEMO_PATH
echo "suite-with-change exit=$SUITE"
(eval "$DEMO_CMD") > /tmp/demo.$$ 2>&1; D1=$?; echo "demo-with-change exit=$D1 (expect != 0)"
git checkout -q -- .
(eval "$DEMO_CMD") > /tmp/demo2.$$ 2>&1; D2=$?; echo "demo-without-change exit=$D2 (expect 0)"
rm -f /tmp/demo.$$ /tmp/demo2.$$
# run the checks against a scratch copy of the CURRENT /repo with the patch applied
S=/tmp/seedrun-$$; rm -rf $S; mkdir -p $S; cp -r /repo $S/repo; rm -rf $S/repo/.git
(cd $S/repo && patch -p1 -s < $OUT/patch.diff) || { echo "PATCH DOES NOT APPLY to current /repo"; rm -rf $S; exit 3; }
for c in $CHECKS; do
  VERIF_REPO=$S/repo /verif/check $c > $S/out.txt 2>&1; RC=$?
  echo "-- check $c exit=$RC: $(grep -E '^(VIOLATION|OK)' $S/out.txt | head -2 | tr '\n' ' ')"
  grep '^detail' $S/out.txt | head -2 | cut -c1-300
done
rm -rf $S
