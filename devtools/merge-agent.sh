#!/bin/bash
# development helper: merge a builder agent's work (its own copy /tmp/<tag>/verif) into /verif
# usage: merge-agent.sh <tag>
set -u
TAG=$1; SRC=/tmp/$TAG/verif
cd $SRC || exit 2
BASE=$(git -C $SRC rev-parse HEAD)
echo "agent copy based on $BASE ($(git -C /verif log --oneline -1 $BASE 2>/dev/null))"
# tracked changes (work tree vs its HEAD), excluding generated/evidence files
git -C $SRC diff HEAD -- . ':(exclude)evidence' ':(exclude)MANIFEST.json' ':(exclude)replays' ':(exclude)DESIGN.md' > /tmp/$TAG/merge.patch
echo "patch: $(grep -c '^diff --git' /tmp/$TAG/merge.patch) files"
cd /verif
git apply --3way /tmp/$TAG/merge.patch 2>&1 | grep -v "^Applied patch .* cleanly" | head -20
# new files
git -C $SRC status --porcelain --untracked-files=all | grep '^??' | cut -c4- | grep -v '^evidence/\|^replays/\|^lean/.lake\|^work/\|\.orig$\|\.rej$' | while read f; do
  mkdir -p /verif/$(dirname "$f"); cp "$SRC/$f" "/verif/$f"; echo "new: $f"
done
git -C /verif status --short | grep -v '^??' | head -40
git -C /verif diff --name-only --diff-filter=U | sed 's/^/CONFLICT: /'
