"""Per-property configuration of ./check: correspondence suites, rule texts, trusted base."""

COMMON_TRUSTED = [
    "Lean 4.33.0 kernel (thorough tier: re-checked by leanchecker); axioms limited to propext, Classical.choice, Quot.sound (audited per theorem by #print axioms); no sorry/admit/native_decide/bv_decide/own axioms (grep on every run)",
    "Lean compiler + runtime for what the compiled driver evaluates (model outputs in the diff, decidable hypotheses on extracted data)",
    "hand-written Lean model is tied to /repo only through the correspondence check (differential run of harness vs driver on the same operation lines); generator quality bounds it",
    "Go harness (generators, canonicalisers, float->integer key map, float bit transport), ./check, go toolchain, go -overlay injection",
]

PROPS = {
    "C17": {
        "suites": [{"name": "dominance"}],
        "rule": "dominance suite: exhaustive pairs over {-1,-0.0,+0.0,1,2}^d (d<=3 quick, d<=4 thorough) plus random tie-heavy pairs/triples in 1..8 dimensions over the float64 range; one evaluation = one pair (4 booleans + comparability compared with the model; definition, converse, asymmetry, transitivity, irreflexivity checked directly on the implementation). distinct = distinct protocol lines; non-trivial = dimension > 1 or some dominance/equality relation holds.",
        "trusted": ["finite float64 components are embedded into Int by a strictly monotone map identifying +0.0/-0.0 (checked against Go's < on every component pair used); NaN is outside the property (finite vectors)"],
        "assumptions": ["vectors are finite (no NaN) and of equal length, as the property states"],
        "level_text": "Unbounded proof: dominates_iff, irreflexivity, asymmetry, transitivity, converse and the two no-dominance laws are Lean theorems over vectors of every length and every value, about a model that transcribes the two-pass loop; the model is tied to Float64Vector.go by a differential run (exhaustive small grid incl. signed zeros + random float64 pairs/triples) on every check.",
        "level_note": "Trusted: Lean kernel, monotone float->Int embedding (validated on every pair), harness/driver; NaN excluded by the property (finite vectors).",
    },
}

PROPS["C05"] = {
    "suites": [{"name": "archive-ops", "shards": 8}],
    "rule": "archive-ops: the real NonDominanceModelArchive is fed CompressedModelStates built directly; (i) exhaustive protocol histories (offer; offer+force-when-refused-as-dominated) of length <=2 quick / <=4 thorough over a 3x3 value grid x 3 action sets plus a random sample of length 3..5, (ii) random histories of 150..2400 ops in 1..8 dimensions with 1..130 action bits, tie-heavy pools, consistent (action set determines vector) and inconsistent streams, a misuse stream with arbitrary forces, SelectRandomIsolatedModel permutations. One evaluation = one archive operation; compared with the model: result code + archive contents in order (length, order-sensitive hash, full contents when <=6 members). Direct checks on the implementation after every op: pairwise non-dominance, no duplicate action sets, refusal reasons, stored-candidate presence, exact eviction sets, Pareto-front equality against a quadratic reference for offer-only histories. distinct = distinct (archive contents, operation) pairs; non-trivial = anything other than a first store into an empty archive.",
    "trusted": ["finite float64 objective values embedded into Int by the monotone key map (as C17)", "Consistent (equal action sets carry equal vectors) is a hypothesis of pareto_front/protocol_inv; in the real system it is property C01"],
    "assumptions": ["all vectors of one history have one dimension (they are the model's decision variables)", "the explorer only forces candidates the archive has just refused as dominated (checked on real runs by the suppa-runs suite of C06)"],
    "level_text": "Unbounded proof: invariant preservation (attempt_inv, force_inv_after_refusal, protocol_inv by induction over every protocol history), truthful refusal reasons, exact eviction sets, and pareto_front (for EVERY offer sequence the archive is exactly the Pareto-optimal subset of the offers) are Lean theorems about a transcription of AttemptToArchiveState/ForceModelStateIntoArchive instantiated with the C17 dominance model; tied to the Go archive by differential runs (exhaustive short histories + long random ones) on every check.",
    "level_note": "Trusted: Lean kernel, float->Int embedding, harness/driver. The last sentence of the property (reported members' values are the model's values at that action set) is decided by the suppa-runs suite with C01/C09, not by an archive theorem.",
}

_CATCHMENT_RULE = ("catchment-walk: the real CoreModel on the shipped datasets (ValidModel n=13, TestingModel n=15) and on generated datasets "
    "(1-8 planning units, random presence of each action type, vegetation proportions straddling the 0.25/0.75 thresholds, zero rows) loaded by the real CSV loader; "
    "scenario data D (sorted actions with all ModelVariableValue constants, initial attribute records of sediment/PN/DN) is extracted from the running Go model and sent to the Lean model; "
    "conformant random walks over propose/accept/revert (TryRandomChange with a scripted rand.Source, or ToggleAction by key), SetManagementAction, SynchroniseTo / Decompress-style whole-set loads, "
    "Initialise(AsIs|Random|Unchanged), Randomize() with scripted draws, with no limit and with a limit on each of the six variables placed strictly between attainable values; "
    "thorough tier additionally walks ALL 2^13 active sets of the shipped dataset in Gray-code order and in every state proposes+reverts every single action. "
    "After every operation the complete state is compared with the model: action flags, six totals, six values per planning unit (at reporting precision), the hidden attribute records of the three pollutant variables (relative 1e-9), "
    "reported changes, validity verdict and quoted value. One evaluation = one protocol line. distinct = distinct (dataset, limit, active set, action proposed); non-trivial = the proposal moved at least one variable or the verdict was negative. "
    "Lines whose evaluation passes within 1e-9 of a rounding boundary are discarded (BOUNDARY) and counted.")
_CATCHMENT_TRUSTED = [
    "IEEE-754 float arithmetic of the Go code is abstracted to exact rationals (DESIGN 3.1): model and Go are compared at reporting precision; error accumulation over unboundedly long histories is sampled, not proved",
    "how crem derives action constants and initial attributes from CSV tables is outside the model: the theorems assume InitConsistent (decidable; evaluated by the driver on every extracted dataset, after normalising float noise <= 1e-12 relative) and KeysDistinct",
]
PROPS["C01"] = {
    "suites": [{"name": "catchment-walk", "driver": "catchment", "shards": 12, "quick_shards": 4}],
    "rule": _CATCHMENT_RULE + " C01 is additionally evaluated directly: every visited state is compared with a freshly initialised model instance to which exactly that active set is applied.",
    "trusted": _CATCHMENT_TRUSTED,
    "assumptions": ["histories are conformant (every proposal is accepted or reverted before the next mutating operation), as every caller in crem is"],
    "level_text": "Unbounded proof over an exact-rational executable model of the six decision variables: for every dataset satisfying the decidable hypotheses and EVERY conformant operation history, the state is the canonical state of its active set (induction over the history with one lemma per transaction), hence two histories ending in the same set agree on every observable. The model is tied to the Go code on every run by a differential walk that compares the full (including hidden) state after every operation.",
    "level_note": "Trusted: Lean kernel; exact-rational abstraction of float arithmetic; InitConsistent/KeysDistinct evaluated (not proved) per dataset; harness and driver.",
}
PROPS["C02"] = {
    "suites": [{"name": "catchment-walk", "driver": "catchment", "shards": 12, "quick_shards": 4}],
    "rule": _CATCHMENT_RULE + " C02 is additionally evaluated directly on every transaction: values unchanged while proposed (bit-exact), revert restores every observable bit-exactly, accept moves each variable by the reported change, other planning units untouched.",
    "trusted": _CATCHMENT_TRUSTED,
    "assumptions": ["conformant histories"],
    "level_text": "Unbounded proof: for every canonical state and every action, proposing leaves all values unchanged, reverting restores every observable exactly, accepting moves each variable by exactly the reported change, and only the action's own planning unit changes; lifted to all reachable states by C01's induction. Tied to the Go code by the differential walk.",
    "level_note": "As C01.",
}
PROPS["C10"] = {
    "suites": [{"name": "catchment-walk", "driver": "catchment", "shards": 12, "quick_shards": 4}],
    "rule": _CATCHMENT_RULE + " C10 is additionally evaluated directly on every proposal made under a limit: the verdict must equal (pre-value + reported change <= limit) and the quoted value must be that prospective value.",
    "trusted": _CATCHMENT_TRUSTED,
    "assumptions": ["exactly one variable is limited (the model rejects more than one)"],
    "level_text": "Unbounded proof: in every canonical state, for every action and every limit, ChangeIsValid is true iff every bounded variable's value after acceptance is within its maximum, and the quoted value is that prospective value; corollary: a lowering change is never rejected. Tied to the Go code by the differential walk with limits placed strictly between attainable values.",
    "level_note": "As C01.",
}
PROPS["C11"] = {
    "suites": [{"name": "catchment-walk", "driver": "catchment", "shards": 12, "quick_shards": 4}],
    "rule": _CATCHMENT_RULE + " C11 is additionally evaluated directly in every visited state: each total equals the sum of the planning-unit values, TN = PN + DN for the catchment and per unit.",
    "trusted": _CATCHMENT_TRUSTED,
    "assumptions": [],
    "level_text": "Unbounded proof from the canonical-state invariant: in every reachable state of every dataset each total equals the sum of its planning-unit values and total nitrogen equals particulate plus dissolved nitrogen per unit and for the catchment (exact in the rational model). Tied to the Go code by the differential walk; figures in solution files and engine responses are re-summed by the saved-runs / engine suites.",
    "level_note": "As C01.",
}

# properties not (yet) claimed, with the reason; kept current as checks are added
NOT_APPLICABLE = {
}
for _i in range(1, 21):
    _k = "C%02d" % _i
    if _k not in PROPS:
        NOT_APPLICABLE[_k] = "not yet claimed: the Lean model, theorems and correspondence suite for this property are still being built (see DESIGN.md section 5); no other technique is substituted"
