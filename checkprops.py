"""Per-property configuration of ./check: correspondence suites, rule texts, trusted base."""

COMMON_TRUSTED = [
    "Lean 4.33.0 kernel (thorough tier: re-checked by leanchecker); axioms limited to propext, Classical.choice, Quot.sound (audited per theorem by #print axioms); no sorry/admit/native_decide/bv_decide/own axioms (grep on every run)",
    "Lean compiler + runtime for what the compiled driver evaluates (model outputs in the diff, decidable hypotheses on extracted data)",
    "hand-written Lean model is tied to /repo only through the correspondence check (differential run of harness vs driver on the same operation lines); generator quality bounds it",
    "Go harness (generators, canonicalisers, float->integer key map, float bit transport), ./check, go toolchain, go -overlay injection",
]

PROPS = {
    "C17": {
        "suites": [{"name": "dominance"}],
        "rule": "dominance suite: exhaustive pairs over {-1,-0.0,+0.0,1,2}^d (d<=3 quick, d<=4 thorough) plus random tie-heavy pairs/triples in 1..8 dimensions over the float64 range; one evaluation = one pair (4 booleans + comparability compared with the model; definition, converse, asymmetry, transitivity, irreflexivity checked directly on the implementation). distinct = distinct protocol lines; non-trivial = dimension > 1 or some dominance/equality relation holds.",
        "trusted": ["finite float64 components are embedded into Int by a strictly monotone map identifying +0.0/-0.0 (checked against Go's < on every component pair used); NaN is outside the property (finite vectors)"],
        "assumptions": ["vectors are finite (no NaN) and of equal length, as the property states"],
        "level_text": "Unbounded proof: dominates_iff, irreflexivity, asymmetry, transitivity, converse and the two no-dominance laws are Lean theorems over vectors of every length and every value, about a model that transcribes the two-pass loop; the model is tied to Float64Vector.go by a differential run (exhaustive small grid incl. signed zeros + random float64 pairs/triples) on every check.",
        "level_note": "Trusted: Lean kernel, monotone float->Int embedding (validated on every pair), harness/driver; NaN excluded by the property (finite vectors).",
    },
}

PROPS["C05"] = {
    "suites": [{"name": "archive-ops", "shards": 8}],
    "rule": "archive-ops: the real NonDominanceModelArchive is fed CompressedModelStates built directly; (i) exhaustive protocol histories (offer; offer+force-when-refused-as-dominated) of length <=2 quick / <=4 thorough over a 3x3 value grid x 3 action sets plus a random sample of length 3..5, (ii) random histories of 150..2400 ops in 1..8 dimensions with 1..130 action bits, tie-heavy pools, consistent (action set determines vector) and inconsistent streams, a misuse stream with arbitrary forces, SelectRandomIsolatedModel permutations. One evaluation = one archive operation; compared with the model: result code + archive contents in order (length, order-sensitive hash, full contents when <=6 members). Direct checks on the implementation after every op: pairwise non-dominance, no duplicate action sets, refusal reasons, stored-candidate presence, exact eviction sets, Pareto-front equality against a quadratic reference for offer-only histories. distinct = distinct (archive contents, operation) pairs; non-trivial = anything other than a first store into an empty archive.",
    "trusted": ["finite float64 objective values embedded into Int by the monotone key map (as C17)", "Consistent (equal action sets carry equal vectors) is a hypothesis of pareto_front/protocol_inv; in the real system it is property C01"],
    "assumptions": ["all vectors of one history have one dimension (they are the model's decision variables)", "the explorer only forces candidates the archive has just refused as dominated (checked on real runs by the suppa-runs suite of C06)"],
    "level_text": "Unbounded proof: invariant preservation (attempt_inv, force_inv_after_refusal, protocol_inv by induction over every protocol history), truthful refusal reasons, exact eviction sets, and pareto_front (for EVERY offer sequence the archive is exactly the Pareto-optimal subset of the offers) are Lean theorems about a transcription of AttemptToArchiveState/ForceModelStateIntoArchive instantiated with the C17 dominance model; tied to the Go archive by differential runs (exhaustive short histories + long random ones) on every check.",
    "level_note": "Trusted: Lean kernel, float->Int embedding, harness/driver. The last sentence of the property (reported members' values are the model's values at that action set) is decided by the suppa-runs suite with C01/C09, not by an archive theorem.",
}

_CATCHMENT_RULE = ("catchment-walk: the real CoreModel on the shipped datasets (ValidModel n=13, TestingModel n=15) and on generated datasets "
    "(1-8 planning units, random presence of each action type, vegetation proportions straddling the 0.25/0.75 thresholds, zero rows) loaded by the real CSV loader; "
    "scenario data D (sorted actions with all ModelVariableValue constants, initial attribute records of sediment/PN/DN) is extracted from the running Go model and sent to the Lean model; "
    "conformant random walks over propose/accept/revert (TryRandomChange with a scripted rand.Source, or ToggleAction by key), SetManagementAction, SynchroniseTo / Decompress-style whole-set loads, "
    "Initialise(AsIs|Random|Unchanged), Randomize() with scripted draws, with no limit and with a limit on each of the six variables placed strictly between attainable values; "
    "thorough tier additionally walks ALL 2^13 active sets of the shipped dataset in Gray-code order and in every state proposes+reverts every single action. "
    "After every operation the complete state is compared with the model: action flags, six totals, six values per planning unit (at reporting precision), the hidden attribute records of the three pollutant variables (relative 1e-9), "
    "reported changes, validity verdict and quoted value. One evaluation = one protocol line. distinct = distinct (dataset, limit, active set, action proposed); non-trivial = the proposal moved at least one variable or the verdict was negative. "
    "Lines whose evaluation passes within 1e-9 of a rounding boundary are discarded (BOUNDARY) and counted.")
_CATCHMENT_TRUSTED = [
    "IEEE-754 float arithmetic of the Go code is abstracted to exact rationals (DESIGN 3.1): model and Go are compared at reporting precision; error accumulation over unboundedly long histories is sampled, not proved",
    "how crem derives action constants and initial attributes from CSV tables is outside the model: the theorems assume InitConsistent (decidable; evaluated by the driver on every extracted dataset, after normalising float noise <= 1e-12 relative) and KeysDistinct",
]
PROPS["C01"] = {
    "suites": [{"name": "catchment-walk", "driver": "catchment", "shards": 12, "quick_shards": 4}],
    "rule": _CATCHMENT_RULE + " C01 is additionally evaluated directly: every visited state is compared with a freshly initialised model instance to which exactly that active set is applied.",
    "trusted": _CATCHMENT_TRUSTED,
    "assumptions": ["histories are conformant (every proposal is accepted or reverted before the next mutating operation), as every caller in crem is"],
    "level_text": "Unbounded proof over an exact-rational executable model of the six decision variables: for every dataset satisfying the decidable hypotheses and EVERY conformant operation history, the state is the canonical state of its active set (induction over the history with one lemma per transaction), hence two histories ending in the same set agree on every observable. The model is tied to the Go code on every run by a differential walk that compares the full (including hidden) state after every operation.",
    "level_note": "Trusted: Lean kernel; exact-rational abstraction of float arithmetic; InitConsistent/KeysDistinct evaluated (not proved) per dataset; harness and driver.",
}
PROPS["C02"] = {
    "suites": [{"name": "catchment-walk", "driver": "catchment", "shards": 12, "quick_shards": 4}],
    "rule": _CATCHMENT_RULE + " C02 is additionally evaluated directly on every transaction: values unchanged while proposed (bit-exact), revert restores every observable bit-exactly, accept moves each variable by the reported change, other planning units untouched.",
    "trusted": _CATCHMENT_TRUSTED,
    "assumptions": ["conformant histories"],
    "level_text": "Unbounded proof: for every canonical state and every action, proposing leaves all values unchanged, reverting restores every observable exactly, accepting moves each variable by exactly the reported change, and only the action's own planning unit changes; lifted to all reachable states by C01's induction. Tied to the Go code by the differential walk.",
    "level_note": "As C01.",
}
PROPS["C10"] = {
    "suites": [{"name": "catchment-walk", "driver": "catchment", "shards": 12, "quick_shards": 4}],
    "rule": _CATCHMENT_RULE + " C10 is additionally evaluated directly on every proposal made under a limit: the verdict must equal (pre-value + reported change <= limit) and the quoted value must be that prospective value.",
    "trusted": _CATCHMENT_TRUSTED,
    "assumptions": ["exactly one variable is limited (the model rejects more than one)"],
    "level_text": "Unbounded proof: in every canonical state, for every action and every limit, ChangeIsValid is true iff every bounded variable's value after acceptance is within its maximum, and the quoted value is that prospective value; corollary: a lowering change is never rejected. Tied to the Go code by the differential walk with limits placed strictly between attainable values.",
    "level_note": "As C01.",
}
PROPS["C11"] = {
    "suites": [{"name": "catchment-walk", "driver": "catchment", "shards": 12, "quick_shards": 4}],
    "rule": _CATCHMENT_RULE + " C11 is additionally evaluated directly in every visited state: each total equals the sum of the planning-unit values, TN = PN + DN for the catchment and per unit.",
    "trusted": _CATCHMENT_TRUSTED,
    "assumptions": [],
    "level_text": "Unbounded proof from the canonical-state invariant: in every reachable state of every dataset each total equals the sum of its planning-unit values and total nitrogen equals particulate plus dissolved nitrogen per unit and for the catchment (exact in the rational model). Tied to the Go code by the differential walk; figures in solution files and engine responses are re-summed by the saved-runs / engine suites.",
    "level_note": "As C01.",
}

_SUPPA_RULE = ("suppa-runs: the REAL suppapitnarm.Explorer (both coolants) over the REAL catchment model (shipped + generated datasets, no limit and a limit on each of the six variables), driven iteration by iteration "
    "(TryRandomChange + CoolDown as the annealer does) with three scripted random sources installed after Initialise(): the candidate model's action RNG, the coolant's uniform draw (incl. u = 0 and u = 1), the archive's return-to-base pick; "
    "return-to-base parameters: initial step 1..50, minimum 1..10, factor in {0, .5, .9, .95, 1}; temperatures 1e-3..1e6, cooling factors {1, .999, .95, .5}. "
    "The Lean explorer model composed with the Lean catchment model replays every iteration from the recorded choices; compared per iteration: archive verdict, desirability, moved, forced, returned, acceptance probability (relative 1e-9), countdown, last-returned iteration, iteration counter, current action set and its six totals, archive length and order-sensitive content hash; temperature bit-exact after every CoolDown. "
    "Direct checks on the implementation per iteration: desirability follows the archive verdict, Metropolis rule against an independently computed probability, forced iff accepted-undesirable, current = candidate or unchanged, return-to-base lands on an archive member, live archive pairwise non-dominated and duplicate-free, (with a limit) current state and every archive member within the limit; at the end every archive member's vector is re-evaluated on a fresh model. "
    "One evaluation = one protocol line; distinct non-trivial = distinct (current set, verdict, moved, returned, archive size).")
PROPS["C06"] = {
    "suites": [{"name": "suppa-runs", "driver": "suppa", "shards": 12, "quick_shards": 2}],
    "rule": _SUPPA_RULE,
    "trusted": ["binary64 *, math.Max, uint64(x), > agree with the real operations on the values that occur (the driver runs the model on Lean Float = the same IEEE binary64; math.Exp vs libm exp may differ in the last ulp: probabilities compared with relative 1e-9 and draws within 1e-9 of p are discarded)",
                "the optimised model is abstract in the theorems (ModelOps); the correspondence instantiates it with the catchment model"],
    "assumptions": ["initial return-to-base step >= 1 and minimum rate >= 1 (premise of the property; zero_countdown_wraps shows the 2^64 wrap otherwise)"],
    "level_text": "Unbounded proof about a transcription of TryRandomChange generic in the arithmetic and in the optimised model: desirable candidates move with certainty and nothing is forced; otherwise moved iff acceptance probability > draw, and then exactly the forced store happens; not moved => solution set and current solution unchanged; a return-to-base replaces the current solution by the picked member; probability formulas (product / mean) and range [0,1] over the reals; returns_recurrence: from any countdown c >= 1 the first return happens at exactly the c-th iteration and the schedule restarts with countdown floor(max(min, step*factor)) (induction on c, BitVec 64 countdown), intervals never below the minimum. Tied to the real explorer by replaying full runs over the real catchment model with scripted randomness.",
    "level_note": "Trusted: Lean kernel, real-vs-binary64 abstraction, harness/driver; see trusted_base.",
}
PROPS["C05"]["suites"].append({"name": "suppa-runs", "driver": "suppa", "shards": 12, "quick_shards": 2})
PROPS["C05"]["rule"] += " " + _SUPPA_RULE

PROPS["C04"] = {
        "suites": [{"name": "kirk-script"}],
        "rule": "kirk-script suite: the real kirkpatrick.Explorer driven (a) over a scripted model.Model (scripted objective change: +-0, 5e-324..1e-30, 1e30..MaxFloat64, NaN/Inf, |change|/T log-uniform in [1e-6,50] and at the exp underflow threshold; scripted validity, 15% invalid) with a scripted math/rand.Source (u = 0, u = 1, masked high bits, u a few grid steps of 1/(2^53-1) either side of p, uniform), both directions plus the unset direction, temperatures 5e-324..MaxFloat64, +Inf and 0, sequences of 20-120 (and 3000-10000) TryRandomChange/CoolDown calls, and (b) over the real catchment model (six objectives, with and without a cost limit) with scripted draws. one evaluation = one TryRandomChange or CoolDown (decision kind, AcceptChange/RevertChange calls, draws consumed, reported change, event sequence, draw value and objective value compared bit-exactly with the Float model; acceptance probability to 1e-9 relative; validity-first / improving-accepts / accepted <-> p > u / p in [0,1] / objective update also evaluated directly on the implementation). Draws within 1e-9 of p are decided by the direct check only (the model follows Go's verdict there; counted as near-draw). distinct = distinct (direction, temperature, protocol line); non-trivial = a valid proposal (decided by the sign of the change or by the draw).",
        "trusted": ["the theorems read the arithmetic in an ordered field (exp abstract; Real.exp for the range); the driver runs the same definitions with IEEE binary64 (Lean Float: + - * / abs and comparisons are the hardware's, as Go's); that binary64 comparisons order finite values as the reals do is assumed; Go math.Exp and libm exp may differ in the last place: probabilities are compared to 1e-9 relative and draws within 1e-9 of p are not decided by the model",
                    "the scripted model.Model and math/rand.Source of the harness (harness/cmd/suite_kirk.go); objective-update over real models rests on the model being lawful (C02/C01), checked directly on the catchment runs"],
        "assumptions": ["positive temperature (T = 0 and T = +Inf are run through the Float model for correspondence only; nothing is claimed there)",
                        "optimisation direction configured (SetParameters called): with the zero-value direction the explorer reports a stale change; shown by an example in Properties/C04.lean",
                        "objective_update: the model driven is lawful (accept adds the reported change, revert restores the value)"],
        "level_text": "Unbounded proof: invalid_reverts, improving_accepts (both directions), otherwise_iff (accepted <-> exp(-|change|/T) > u, change = 0 included), objective_update/objective_final by induction over arbitrarily long sequences of proposals and cool-downs for every lawful model, prob_range over the reals with Real.exp, unitary_range for the draw; all about a model that transcribes AcceptOrRevertChange / changeTriedIsDesirable / DecideIfAcceptable / Float64Unitary, tied to the Go code by a differential run of the real explorer with scripted model and scripted random source on every check.",
        "level_note": "Trusted: Lean kernel, IEEE-vs-field reading of the arithmetic (exp to 1e-9, draws within 1e-9 of p decided on the Go side only), harness/driver. T <= 0 and the unset direction are outside the property.",
    }
PROPS["C07"] = {
        "suites": [{"name": "anneal-trace"}],
        "rule": "anneal-trace suite: the real SimpleAnnealer and ElapsedTimeTrackingAnnealer with an explorer that records Initialise/TryRandomChange/CoolDown/TearDown and can panic (error or non-error value) in Initialise or in TryRandomChange/CoolDown of a chosen iteration, wrapped around crem's null explorer, the Kirkpatrick explorer over the dumb model and the Suppapitnarm explorer over the multi-objective dumb model with either coolant; budgets 0..50 and 1000 (systematic) plus random; cooling factors 0, 0.5, 0.999, 1 and random in [0,1]; starting temperatures 0, 1e-300..1e300; 0-4 observers (passive recorders, crem's AnnealingMessageObserver / AnnealingAttributeObserver with Annealing logging on, in any position, IterationCountFilter modulo 1/3/10); explorer events optionally forwarded through the annealer as scenario.Runner wires them; optional re-runs of the same annealer object. one evaluation = one Anneal() call (merged trace of explorer calls and events of the first recorder, outcome, final counter, final temperature; temperatures bit-exact) or one observer's received trace. Event order, iteration numbers, exact budget, one cooling per iteration, teardown/re-panic and no finish event after a panic are also evaluated directly per observer. A recorder placed behind one of crem's logging observers is compared with the model on event kinds and temperatures and checked directly for the iteration number (finding D21). distinct = distinct run configurations; non-trivial = budget > 0.",
        "trusted": ["temperatures: the driver repeats the Go coolants' sequential multiplication in IEEE binary64 (bit-exact comparison); the closed form T0*a^k and monotonicity are theorems over a monoid / ordered semiring",
                    "the recording/panicking explorer wrapper and the recording observers of the harness (harness/cmd/suite_anneal.go)"],
        "assumptions": ["a run starts with currentIteration = 0 (every run crem starts anneals a fresh clone; a second Anneal() on the same object performs exactly one iteration: theorem rerun_single_iteration, covered by the correspondence)",
                        "0 <= T0 and 0 <= a <= 1 for 'never increases' (the parameter validators enforce both)",
                        "observers do not modify the events they are handed (the model's events are immutable values; crem's own AnnealingMessageObserver violates this: signature anneal:observer-event-aliasing)"],
        "level_text": "Unbounded proof: trace_shape, zero_budget, exact_budget, panic_trace (+ CoolDown / Initialise / beyond-budget variants), every_observer_same_trace for any number of observers, temperature_k (T0*a^k in any monoid), temperature_antitone and trace_temperatures_antitone (ordered semiring), for every budget N, about a model that transcribes Anneal() with its two defers, initialDoneValue, checkIfDone and CoolDown; tied to the Go code by a differential run of both real annealers over the null, Kirkpatrick and both Suppapitnarm explorers on every check.",
        "level_note": "Trusted: Lean kernel, harness/driver, binary64 multiplication for the bit-exact temperatures. The model assumes observers leave events untouched; the check reports where crem's message observer does not (D21).",
    }

PROPS["C09"] = {
        "suites": [
            {"name": "boolarchive-ops", "shards": 4},
            {"name": "portability", "quick_shards": 3, "shards": 8},
        ],
        "rule": "boolarchive-ops: the real pkg/archive.BooleanArchive is driven through an interpreter of protocol lines (new/set/get/enc/dec/eqv/state/bits/fill + spec-enc/spec-dec against the abstract spec + check/checkpair = the property's clauses evaluated on the implementation); sizes 0..200; all 2^n bit patterns for n<=10; for every size 1..200 structured patterns (zeros, ones, single bit set/cleared at 0,1,31,32,62..66,126..130,190..193,199,n-1, alternating) and random densities; every pattern is filled the way ModelCompressor does, encoded, decoded into a second archive holding other values and a memoised text, compared (raw words and cached text through an add-only accessor); random interleavings of SetValue/Value/Encoding/Decode/IsEquivalentTo over three archives with in-range, boundary, >=size and negative indices, canonical / non-canonical (lower case, leading zeros, garbage above size) / malformed texts (wrong entry count, empty, bad digits, sign, 0x, _, spaces, control and non-ASCII characters, 17-digit overflow, two errors of different class); result classes compared. One evaluation = one protocol line compared with the model. distinct_nontrivial = distinct (size>=1, op kind, word index touched | out-of-range class, cache state before the op, result class). portability: real catchment model + real ModelCompressor on the three shipped CSV datasets (13, 15, 13 actions) and two synthetic ones (78 and 130 actions = shipped data replicated with shifted planning-unit ids): quick = all-off, all-on, every single action and 150 random sets per dataset, thorough = all 2^13 / 2^15 / 2^13 sets of the shipped datasets; every set is reached twice (fresh instance in index order; long-lived instance toggled in random order), compressed, its text decoded and decompressed (the engine's Compress/Decode/Decompress sequence) into an independently constructed instance (catchment.Model with its own dataset load, CoreModel on a freshly loaded dataset, or DeepClone: each re-gathers its actions from Go maps), 30% of the receivers pre-set to a random other state; compared: sorted (planning unit, type) lists, active sets, re-derived text, IsEquivalentTo, every decision-variable value (exact float equality); the model checks text = encode(bits) and decode(text) = bits; `order` lines carry the real pre-sort (map iteration) order of each construction (accessor) to the model's sort, with hypothesis H (keys distinct) evaluated on each; thorough adds a Gray-code walk through all sets checking that no two share a text. distinct_nontrivial = distinct (dataset, non-empty action set, route, receiver kind) + distinct gathered orders.",
        "trusted": [
            "sort.Sort is not transcribed: it is assumed to return a permutation of its input that is sorted for Less (the theorems then fix the result uniquely); strconv.ParseUint(.,16,64), fmt %X and strings.Split are modelled (parseHex/toHex/splitOn) and validated by the correspondence, not verified",
            "Go strings are byte strings, the model's are Unicode code-point lists: the harness only sends valid UTF-8 (':' and hex digits are ASCII, so splitting and digit classification agree; a multi-byte character is a syntax error at the same position on both sides)",
            "add-only accessors (build tag verif): BooleanArchive.VerifWords/VerifCachedEncoding (read-only copies), CoreModel.VerifGatherActions (re-runs the unexported, side-effect-free buildModelActions)",
            "that equal active sets give equal decision-variable values is C01's theorem; here it is only observed (exact float equality over every transfer)",
        ],
        "assumptions": [
            "archive sizes are >= 1 for the round-trip clauses (the empty archive encodes to \"\" which Decode rejects: transcribed, shown as an example, outside the property's 'every number of actions')",
            "refinement theorem: Decode arguments are texts the spec accepts for the archive's size; a Decode that fails after its first entry keeps the words already overwritten and the old memoised text (transcribed and compared; no property clause is evaluated on an archive in that state until its next successful mutation; counted in the histogram as 'quirk')",
            "hypothesis H: no two actions of a model share (planning unit, type) - decidable, evaluated by the driver on every gathered action list",
        ],
        "level_text": "Unbounded proof: parseHex_toHex, decode_encode (every n >= 1), encode_injective, the refinement of the +mask/-mask word archive with memoised text to the list-of-booleans spec for every operation history (invariant: word count, unused high bits clear, cached text empty or current), decode_clears_high_bits, decode_result_class (every text), compress_decompress, sorted_perm_unique / action_order_portable / encoding_portable (every gathering order) are Lean theorems; the models are tied to BooleanArchive.go, ModelCompressor.go and ModelManagementActions.Less by a differential run on every check, and the portability clause is additionally evaluated directly on the real catchment model over all action sets of the shipped datasets (thorough).",
        "level_note": "Trusted: Lean kernel; sort.Sort's contract (sorted permutation); strconv/fmt/strings behaviour as modelled and validated; harness/driver. Values after decoding rely on C01 (observed here, proved there).",
    }

PROPS["C18"] = {
        "suites": [{"name": "params", "timeout": 1500}, {"name": "params-facts", "model": False}],
        "rule": "params suite: (0) every exported validator of Validators.go called directly on ~85 probe values of every TOML-expressible type, the two general bounded validators with random (also reversed/NaN/infinite) bounds and values at bound +- 1 ulp / +- 1; (1) for each of the 9 components (annealer, 2 explorers, 3 coolants, catchment, dumb, multi-objective dumb) the live specification table is extracted (validator identity -> kind, default + dynamic type, optional flag) and its well-formedness hypotheses are evaluated by the driver (HYP lines); every specified key and 6-7 unknown keys x every probe value (int64/float64 boundaries, bounds +- 1 ulp, +-0, MaxInt64, MaxFloat64, subnormals, NaN/Inf, strings incl. empty/readable/unreadable/directory paths, bools, arrays, tables, datetime), alone, through SetParameters and through both raw assignment loops; (2) random combinations and sequences of 1-4 user maps (structured mostly-valid values + malformed ones + unknown keys). Compared with the model on every line: validator verdicts, error-class counts (invalid/unsupported/message, cumulative), resulting maps (sorted by key, floats as bit patterns), typed-getter results (value or panic) for all four getters, HasEntry. The property's clauses are also evaluated directly on the implementation after every SetParameters (valid replaces, invalid leaves + one error, unsupported reported/ignored by mode, nothing else changes, stored entries satisfy their validators). Every error-free component instance is then USED (initialised and run briefly; catchment on the shipped CSV data set; resource-hungry cases in a watchdogged child process) and any panic / late error is reported with the smallest responsible set of accepted values. params-facts: go/ast extraction of all 49 typed-getter call sites (key constant -> live table: declared type matches, non-optional or inside `if HasEntry(key)`). one evaluation = one protocol line; distinct non-trivial = distinct (component, assign mode, key or unknown, dynamic type of the value, verdict) combinations reached by a validate/set/vdirect, plus distinct checked call sites.",
        "trusted": [
            "float64 ordering is modelled on bit patterns (F64.lt: NaN unordered, -0 = +0); that this is Go's < on float64 is validated by the validator verdicts on boundary values +- 1 ulp, not proved from an IEEE-754 formalisation",
            "IsReadableFile's answer is an oracle (Env.readable) supplied by the harness per string (os.Open); the file system is assumed not to change between validation and use",
            "validators are identified by function identity (exported) or symbol name (the two private ones); their bounds are the model's transcription, the bank-erosion bounds are recomputed in the harness from the documented expressions",
            "the go/ast fact `every typed getter call site reads a key of that declared type, non-optional or guarded by HasEntry` is extracted by `harness params-facts` (go/parser over the repo sources) on every run",
        ],
        "assumptions": ["values are TOML-expressible (int64, float64, string, bool, array, table, datetime); NaN/Inf and nil are modelled for totality but BurntSushi/toml v0.3.1 cannot produce them",
                        "user maps have distinct keys (they are Go maps)"],
        "level_text": "Unbounded proof: for any specification table that passes the decidable SpecsWellFormed check, after ANY sequence of SetParameters calls with ANY user maps every stored entry satisfies its validator (type and range), every non-optional key is present, and the typed getter of the declared type cannot fail (well_typed_invariant, getter_total, no_later_type_failure, no_later_range_failure); a valid value replaces the default, an invalid one leaves it and adds exactly one error, unsupported keys are reported by AssignAllUserValues and ignored by AssignOnlyEnforcedUserValues, and the result does not depend on Go's map iteration order (assign_sound_*, assignAll_sound, assignEnforced_sound, assignAll_order_independent). SpecsWellFormed is evaluated on every component's table extracted from the running code; the model is tied to the Go code by the params differential suite on every check.",
        "level_note": "The theorems bound failures to the ranges the specifications STATE. Whether those ranges are tight enough for the code that consumes them (YearsOfErosion = 0, unbounded decimals, NumberOfPlanningUnits = 0) is outside the model and is searched for by actually running every error-free component; those are reported as direct failures.",
    }

# properties not (yet) claimed, with the reason; kept current as checks are added
NOT_APPLICABLE = {
}
for _i in range(1, 21):
    _k = "C%02d" % _i
    if _k not in PROPS:
        NOT_APPLICABLE[_k] = "not yet claimed: the Lean model, theorems and correspondence suite for this property are still being built (see DESIGN.md section 5); no other technique is substituted"
