"""Per-property configuration of ./check: correspondence suites, rule texts, trusted base."""

COMMON_TRUSTED = [
    "Lean 4.33.0 kernel (thorough tier: re-checked by leanchecker); axioms limited to propext, Classical.choice, Quot.sound (audited per theorem by #print axioms); no sorry/admit/native_decide/bv_decide/own axioms (grep on every run)",
    "Lean compiler + runtime for what the compiled driver evaluates (model outputs in the diff, decidable hypotheses on extracted data)",
    "hand-written Lean model is tied to /repo only through the correspondence check (differential run of harness vs driver on the same operation lines); generator quality bounds it",
    "Go harness (generators, canonicalisers, float->integer key map, float bit transport), ./check, go toolchain, go -overlay injection",
]

PROPS = {
    "C17": {
        "suites": [{"name": "dominance"}],
        "rule": "dominance suite: exhaustive pairs over {-1,-0.0,+0.0,1,2}^d (d<=3 quick, d<=4 thorough) plus random tie-heavy pairs/triples in 1..8 dimensions over the float64 range; one evaluation = one pair (4 booleans + comparability compared with the model; definition, converse, asymmetry, transitivity, irreflexivity checked directly on the implementation). distinct = distinct protocol lines; non-trivial = dimension > 1 or some dominance/equality relation holds.",
        "trusted": ["finite float64 components are embedded into Int by a strictly monotone map identifying +0.0/-0.0 (checked against Go's < on every component pair used); NaN is outside the property (finite vectors)"],
        "assumptions": ["vectors are finite (no NaN) and of equal length, as the property states"],
        "level_text": "Unbounded proof: dominates_iff, irreflexivity, asymmetry, transitivity, converse and the two no-dominance laws are Lean theorems over vectors of every length and every value, about a model that transcribes the two-pass loop; the model is tied to Float64Vector.go by a differential run (exhaustive small grid incl. signed zeros + random float64 pairs/triples) on every check.",
        "level_note": "Trusted: Lean kernel, monotone float->Int embedding (validated on every pair), harness/driver; NaN excluded by the property (finite vectors).",
    },
}

PROPS["C05"] = {
    "suites": [{"name": "archive-ops", "shards": 8}],
    "rule": "archive-ops: the real NonDominanceModelArchive is fed CompressedModelStates built directly; (i) exhaustive protocol histories (offer; offer+force-when-refused-as-dominated) of length <=2 quick / <=4 thorough over a 3x3 value grid x 3 action sets plus a random sample of length 3..5, (ii) random histories of 150..2400 ops in 1..8 dimensions with 1..130 action bits, tie-heavy pools, consistent (action set determines vector) and inconsistent streams, a misuse stream with arbitrary forces, SelectRandomIsolatedModel permutations. One evaluation = one archive operation; compared with the model: result code + archive contents in order (length, order-sensitive hash, full contents when <=6 members). Direct checks on the implementation after every op: pairwise non-dominance, no duplicate action sets, refusal reasons, stored-candidate presence, exact eviction sets, Pareto-front equality against a quadratic reference for offer-only histories. distinct = distinct (archive contents, operation) pairs; non-trivial = anything other than a first store into an empty archive.",
    "trusted": ["finite float64 objective values embedded into Int by the monotone key map (as C17)", "Consistent (equal action sets carry equal vectors) is a hypothesis of pareto_front/protocol_inv; in the real system it is property C01"],
    "assumptions": ["all vectors of one history have one dimension (they are the model's decision variables)", "the explorer only forces candidates the archive has just refused as dominated (checked on real runs by the suppa-runs suite of C06)"],
    "level_text": "Unbounded proof: invariant preservation (attempt_inv, force_inv_after_refusal, protocol_inv by induction over every protocol history), truthful refusal reasons, exact eviction sets, and pareto_front (for EVERY offer sequence the archive is exactly the Pareto-optimal subset of the offers) are Lean theorems about a transcription of AttemptToArchiveState/ForceModelStateIntoArchive instantiated with the C17 dominance model; tied to the Go archive by differential runs (exhaustive short histories + long random ones) on every check.",
    "level_note": "Trusted: Lean kernel, float->Int embedding, harness/driver. The last sentence of the property (reported members' values are the model's values at that action set) is decided by the suppa-runs suite with C01/C09, not by an archive theorem.",
}

# properties not (yet) claimed, with the reason; kept current as checks are added
NOT_APPLICABLE = {
}
for _i in range(1, 21):
    _k = "C%02d" % _i
    if _k not in PROPS:
        NOT_APPLICABLE[_k] = "not yet claimed: the Lean model, theorems and correspondence suite for this property are still being built (see DESIGN.md section 5); no other technique is substituted"
