"""Per-property configuration of ./check: correspondence suites, rule texts, trusted base."""

COMMON_TRUSTED = [
    "Lean 4.33.0 kernel (thorough tier: re-checked by leanchecker); axioms limited to propext, Classical.choice, Quot.sound (audited per theorem by #print axioms); no sorry/admit/native_decide/bv_decide/own axioms (grep on every run)",
    "Lean compiler + runtime for what the compiled driver evaluates (model outputs in the diff, decidable hypotheses on extracted data)",
    "hand-written Lean model is tied to /repo only through the correspondence check (differential run of harness vs driver on the same operation lines); generator quality bounds it",
    "Go harness (generators, canonicalisers, float->integer key map, float bit transport), ./check, go toolchain, go -overlay injection",
]

PROPS = {
    "C17": {
        "suites": [{"name": "dominance"}],
        "rule": "dominance suite: exhaustive pairs over {-1,-0.0,+0.0,1,2}^d (d<=3 quick, d<=4 thorough) plus random tie-heavy pairs/triples in 1..8 dimensions over the float64 range; one evaluation = one pair (4 booleans + comparability compared with the model; definition, converse, asymmetry, transitivity, irreflexivity checked directly on the implementation). distinct = distinct protocol lines; non-trivial = dimension > 1 or some dominance/equality relation holds.",
        "trusted": ["finite float64 components are embedded into Int by a strictly monotone map identifying +0.0/-0.0 (checked against Go's < on every component pair used); NaN is outside the property (finite vectors)"],
        "assumptions": ["vectors are finite (no NaN) and of equal length, as the property states"],
        "level_text": "Unbounded proof: dominates_iff, irreflexivity, asymmetry, transitivity, converse and the two no-dominance laws are Lean theorems over vectors of every length and every value, about a model that transcribes the two-pass loop; the model is tied to Float64Vector.go by a differential run (exhaustive small grid incl. signed zeros + random float64 pairs/triples) on every check.",
        "level_note": "Trusted: Lean kernel, monotone float->Int embedding (validated on every pair), harness/driver; NaN excluded by the property (finite vectors).",
    },
}

# properties not (yet) claimed, with the reason; kept current as checks are added
NOT_APPLICABLE = {
}
for _i in range(1, 21):
    _k = "C%02d" % _i
    if _k not in PROPS:
        NOT_APPLICABLE[_k] = "not yet claimed: the Lean model, theorems and correspondence suite for this property are still being built (see DESIGN.md section 5); no other technique is substituted"
